#!/usr/bin/env python3
"""Entry point of every registered check:  run.py <property-id> [--tier quick|thorough]
                                             run.py --explain <replay.json>
                                             run.py setup | all
Exit 0: property held on everything analysed (known findings are printed as KNOWN-FINDING lines).
Exit 1: a violation was found; a line `VIOLATION property=<id> replay=<path>` is printed per violation.
Exit 2: the machinery itself failed (tree does not build, internal error)."""
import argparse
import json
import os
import sys
import traceback

sys.path.insert(0, os.path.dirname(os.path.dirname(os.path.abspath(__file__))))

from gsa import extract, report  # noqa: E402
from gsa.context import Context  # noqa: E402
from gsa.props import PROPS  # noqa: E402


def anchor_files(pid):
    out = []
    try:
        with open(os.path.join(os.path.dirname(os.path.dirname(os.path.abspath(__file__))), "properties.jsonl")) as fh:
            for line in fh:
                d = json.loads(line)
                if d.get("id") == pid:
                    out = list((d.get("anchors") or {}).get("files") or [])
    except OSError:
        pass
    return out


def run_property(pid, tier, seed):
    meta = PROPS[pid]
    if tier == "thorough":
        # nothing is taken from the analysis caches: MIR facts are keyed by the tree, the numeric analysis is recomputed
        os.environ["GSA_NUM_NOCACHE"] = "1"
    ctx = Context(tier=tier)
    rep = report.Report(pid)
    for rule_id, fn in meta["rules"]:
        if tier == "quick" and rule_id in meta.get("thorough_only", ()):
            continue
        try:
            fn(ctx, rep, rule_id)
        except extract_errors() as e:  # missing anchors fail closed
            rep.violation(rule_id, "anchor", "anchor missing, failing closed: %s" % e)
    for a in meta.get("assumptions", []):
        rep.assume(a)
    rep.note_analysed("facts_file", [os.path.basename(ctx.facts_path)] if ctx.facts_path else [])
    extra = None
    if tier == "thorough" and os.environ.get("GSA_NO_SELFTEST") != "1":
        # checker self-test on scratch copies of the current tree: known breakages of this property must be reported,
        # behaviour-preserving refactorings must not.  It documents the check's reach; it never changes the verdict.
        from selftest import sensitivity
        os.environ.pop("GSA_NUM_NOCACHE", None)
        st = sensitivity.run(pid, tuple(anchor_files(pid)))
        extra = {"selftest": st}
        print("SELFTEST property=%s breakages detected %d/%d%s, refactorings silent %d/%d%s, skipped %d" % (
            pid, st["breakages_detected"], st["breakages_run"], (" (missed: %s)" % ",".join(st["breakages_missed"])) if st["breakages_missed"] else "",
            st["controls_silent"], st["controls_run"], (" (alarmed: %s)" % ",".join(st["controls_alarmed"])) if st["controls_alarmed"] else "", len(st["skipped"])))
    return report.finish(rep, meta, tier, seed, extra)


def extract_errors():
    from gsa.facts import MissingAnchor
    return (MissingAnchor,)


def main():
    ap = argparse.ArgumentParser()
    ap.add_argument("prop")
    ap.add_argument("--tier", default=os.environ.get("VERIF_TIER", "quick"))
    ap.add_argument("--explain", default=None)
    a = ap.parse_args()
    seed = int(os.environ.get("VERIF_SEED", "0") or 0)
    tier = a.tier if a.tier in ("quick", "thorough") else "quick"
    if a.prop == "setup":
        extract.build_driver()
        print(extract.extract(quiet=False))
        return 0
    if a.explain:
        with open(a.explain) as fh:
            v = json.load(fh)
        print(json.dumps(v, indent=1))
        print("re-evaluating property %s on the current tree:" % v["property"])
        return run_property(v["property"], tier, seed)
    if a.prop == "all":
        rc = 0
        for pid in sorted(PROPS):
            r = run_property(pid, tier, seed)
            print("%s -> exit %d" % (pid, r))
            rc = max(rc, r)
        return rc
    if a.prop not in PROPS:
        print("unknown property %s" % a.prop, file=sys.stderr)
        return 2
    return run_property(a.prop, tier, seed)


if __name__ == "__main__":
    try:
        sys.exit(main())
    except SystemExit:
        raise
    except Exception:
        traceback.print_exc()
        sys.exit(2)
