#!/usr/bin/env python3
"""Generate /verif/MANIFEST.json from gsa/props.py (registry) so the two cannot drift."""
import json
import os
import sys

VERIF = os.path.dirname(os.path.dirname(os.path.abspath(__file__)))
sys.path.insert(0, VERIF)
from gsa.props import PROPS, NOT_APPLICABLE  # noqa: E402

ids = [json.loads(l)["id"] for l in open(os.path.join(VERIF, "properties.jsonl"))]
checks = []
for pid in ids:
    if pid not in PROPS:
        continue
    m = PROPS[pid]
    checks.append({
        "property_id": pid,
        "quick_cmd": "python3 checks/run.py %s --tier quick" % pid,
        "thorough_cmd": "python3 checks/run.py %s --tier thorough" % pid,
        "evidence_file": "/verif/evidence/%s.json" % pid,
        "replay_cmd_template": "python3 checks/run.py %s --explain {path}" % pid,
        "engine": "gsa",
        "level_claimed": {"category": m["level"], "text": m["explanation"], "design_ref": "DESIGN.md section 5, " + pid},
        "level_note": "Trusted base: " + "; ".join(m["trusted_base"]),
        "technique": m.get("technique", "static analysis of rustc MIR (custom rustc_private driver) and Python AST: "
                                        "CFG edge-cut / provenance / who-may-write / decision-table rules"),
    })
na = [{"property_id": pid, "reason": NOT_APPLICABLE.get(pid, "check not built yet in this session; see DESIGN.md")}
      for pid in ids if pid not in PROPS]
man = {
    "version": 1,
    "setup_cmd": "python3 checks/run.py setup",
    "hooks": {
        "guard": "gufo_snmp_verif",
        "enable": "none needed: the analysis reads rustc MIR of the unmodified crate (private items are visible to the driver)",
        "baseline_off_cmd": "cd /repo && cargo test --workspace --no-fail-fast --offline",
        "source_commits": [],
        "add_only": True,
    },
    "engines": [
        {"name": "mirfacts", "path": "tools/mirfacts", "serves_properties": sorted(PROPS),
         "kind_free_text": "rustc_private driver (nightly) run as RUSTC_WORKSPACE_WRAPPER under cargo check; dumps MIR, types, constants, resolved callees as JSON"},
        {"name": "gsa", "path": "gsa", "serves_properties": sorted(PROPS),
         "kind_free_text": "Python 3 stdlib analysers over the MIR facts and the Python AST: flow (edge-cut, provenance, who-may-write), tables, num (abstract interpretation), pyast"},
    ],
    "checks": checks,
    "not_applicable": na,
    "notes": "Static analysis only: every verdict is computed from /repo's current source (MIR via cargo +nightly check with the "
             "mirfacts wrapper; Python AST). No code under test is executed. Facts are cached under /verif/.cache keyed by a hash "
             "of the working tree. known_findings.json lists recorded findings and the fix: commits.",
}
json.dump(man, open(os.path.join(VERIF, "MANIFEST.json"), "w"), indent=1)
print("MANIFEST.json: %d checks, %d not_applicable" % (len(checks), len(na)))
