#!/usr/bin/env python3
"""Confirm a sub-agent refactoring (negative control) before it is filed:  confirm_control.py <src-dir> <name>
It must apply to /repo's HEAD, build, and pass the pinned suite unedited (104 tests); Python files must compile.
Behaviour preservation itself is argued in meta.json (why_equivalent) and read by hand for every control that alarms.
Filed under selftest/controls/<name>/ (patch.diff, meta.json).  Work happens in a scratch worktree under /tmp that is
removed afterwards together with its build output."""
import json
import os
import re
import shutil
import subprocess
import sys

VERIF = os.path.dirname(os.path.dirname(os.path.abspath(__file__)))


def sh(cmd, cwd, env=None):
    e = dict(os.environ, CARGO_NET_OFFLINE="true")
    e.update(env or {})
    p = subprocess.run(cmd, cwd=cwd, shell=True, env=e, stdout=subprocess.PIPE, stderr=subprocess.STDOUT, text=True, timeout=3600)
    return p.returncode, p.stdout


def main():
    src, name = sys.argv[1], sys.argv[2]
    wt = "/tmp/confirm/%s" % name
    tdir = os.environ.get("CONFIRM_TARGET", "/tmp/confirm-target")
    shutil.rmtree(wt, ignore_errors=True)
    os.makedirs("/tmp/confirm", exist_ok=True)
    subprocess.check_call(["git", "-C", "/repo", "worktree", "add", "--detach", wt, "HEAD", "-q"])
    res = {"steps": []}
    try:
        rc, out = sh("git apply %s" % os.path.join(src, "patch.diff"), wt)
        res["steps"].append("git apply -> %d" % rc)
        if rc:
            res["ok"] = False
            return finish(res, src, name)
        rc, out = sh("git diff --name-only", wt)
        for f in out.split():
            if f.endswith(".py"):
                rc2, o2 = sh("python3 -m py_compile %s" % f, wt)
                res["steps"].append("py_compile %s -> %d" % (f, rc2))
                if rc2:
                    res["ok"] = False
                    return finish(res, src, name)
        rc, out = sh("cargo test --workspace --no-fail-fast --offline 2>&1 | tail -30", wt, {"CARGO_TARGET_DIR": tdir})
        m = re.findall(r"test result: ok\. (\d+) passed; 0 failed", out)
        res["steps"].append("cargo test --workspace -> %s" % m)
        res["ok"] = bool(m) and sum(int(x) for x in m) >= 104 and "FAILED" not in out
        return finish(res, src, name)
    finally:
        subprocess.call(["git", "-C", "/repo", "worktree", "remove", "--force", wt])


def finish(res, src, name):
    print(json.dumps(res, indent=1))
    if res.get("ok"):
        dst = os.path.join(VERIF, "selftest", "controls", name)
        shutil.rmtree(dst, ignore_errors=True)
        os.makedirs(dst)
        shutil.copy(os.path.join(src, "patch.diff"), dst)
        meta = json.load(open(os.path.join(src, "meta.json")))
        meta["confirmed"] = res
        json.dump(meta, open(os.path.join(dst, "meta.json"), "w"), indent=1)
        return 0
    return 1


if __name__ == "__main__":
    sys.exit(main())
