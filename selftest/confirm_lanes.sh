#!/bin/bash
# usage: confirm_lanes.sh <prefix> <lane> <nlanes>
cd /verif
i=0
for d in /tmp/wt/$1*-out/*/; do
  d=${d%/}
  [ -f "$d/patch.diff" ] && [ -f "$d/meta.json" ] || continue
  i=$((i+1))
  [ $((i % $3)) -eq $2 ] || continue
  id=$(basename $(dirname $d) | sed 's/-out//')
  n=$(basename $d)
  name="$id-$n"
  [ -d "seeded/$name" ] && continue
  CONFIRM_TARGET=/tmp/confirm-target-$2 python3 selftest/confirm_seed.py "$d" "$name" > /tmp/confirm/$name.log 2>&1
  echo "$name rc=$?"
done
