"""Run all 19 checks on some unconfirmed sub-agent patches: cross_check.py d02-2,d02-3 (reads /tmp/wt/dNN-out/N/patch.diff)."""
import sys, os, json, glob, shutil, subprocess
sys.path.insert(0, '/verif')
from concurrent.futures import ThreadPoolExecutor
from selftest.mutate import copy_repo, SCRATCH
from gsa.props import PROPS
names=sys.argv[1].split(',')
def run(name,i):
    d0='/tmp/wt/%s-out/%s'%tuple(name.split('-'))
    d=os.path.join(SCRATCH,'x%d'%i,name); shutil.rmtree(d,ignore_errors=True); copy_repo(d)
    genv=dict(os.environ,GIT_CEILING_DIRECTORIES=os.path.dirname(d),GIT_DIR='/nonexistent')
    p=subprocess.run(['git','apply','--unsafe-paths','--verbose',d0+'/patch.diff'],cwd=d,env=genv,stdout=subprocess.PIPE,stderr=subprocess.STDOUT,text=True)
    env=dict(os.environ,GSA_REPO=d,GSA_EVIDENCE_DIR=os.path.join(d,'ev'),GSA_TARGET='/verif/.cache/target-w%d'%i)
    hits=[]
    for pid in sorted(PROPS):
        r=subprocess.run([sys.executable,'/verif/checks/run.py',pid],env=env,stdout=subprocess.PIPE,stderr=subprocess.STDOUT,text=True)
        if r.returncode==1:
            l=[x.strip() for x in r.stdout.splitlines() if x.startswith('  ')]
            hits.append((pid,l[0][:160] if l else ''))
        elif r.returncode!=0: hits.append((pid,'BROKEN '+r.stdout[-200:]))
    shutil.rmtree(d,ignore_errors=True)
    return name,hits
with ThreadPoolExecutor(6) as ex:
    for f in [ex.submit(run,n,i) for i,n in enumerate(names)]:
        n,h=f.result(); print(n, [x[0] for x in h]); [print('     ',x[0],x[1]) for x in h[:3]]
