#!/usr/bin/env python3
"""Confirm a seeded change produced by a sub-agent and file it under /verif/seeded/<name>/.

usage: confirm_seed.py <agent-out-dir> <name> [--prop Cxx]
Steps (all in a scratch git worktree of /repo under /tmp, removed afterwards):
  1. demo on the unchanged tree must PASS
  2. patch applies, crate builds, the pinned suite reports 104 passed / 0 failed
  3. demo on the changed tree must FAIL
The outcome and the commands are recorded in seeded/<name>/meta.json ("confirmed")."""
import glob
import json
import os
import re
import shutil
import subprocess
import sys

VERIF = os.path.dirname(os.path.dirname(os.path.abspath(__file__)))
TARGET = "/tmp/confirm-target"


def sh(cmd, cwd, env=None, timeout=1800):
    e = dict(os.environ, CARGO_NET_OFFLINE="true")
    if env:
        e.update(env)
    p = subprocess.run(cmd, cwd=cwd, shell=True, env=e, stdout=subprocess.PIPE, stderr=subprocess.STDOUT, text=True, timeout=timeout)
    return p.returncode, p.stdout


def install_demo(src, wt):
    """Copy demo files; returns ('rust', [modnames]) or ('python', script)."""
    rs = sorted(glob.glob(os.path.join(src, "demo*.rs")))
    py = sorted(glob.glob(os.path.join(src, "demo*.py")))
    kind = []
    if rs:
        mods = []
        for f in rs:
            m = os.path.splitext(os.path.basename(f))[0]
            shutil.copy(f, os.path.join(wt, "src", m + ".rs"))
            # a demo may ask to be mounted as a child of a module (it needs private items):
            # its header then names the parent file and gives the mount line.
            head = "".join(l for l in open(f).read().splitlines(True)[:40] if l.startswith("//"))
            mount = re.search(r'#\[cfg\(test\)\]\s*#\[path\s*=\s*"([^"]+)"\]\s*mod\s+(\w+);', head)
            parent = [x for x in re.findall(r'(src/[\w/]+\.rs)', head)
                      if os.path.exists(os.path.join(wt, x)) and not x.endswith("/" + m + ".rs")]
            child = re.search(r"[Cc]hild module of `?((?:crate::)?[a-z_0-9]+(?:::[a-z_0-9]+)+)`?", head)
            if not child:
                cf = re.search(r"[Cc]hild module of `?src/([a-z_0-9/]+)\.rs`?", head)
                if cf:
                    class _M:
                        def __init__(self, g):
                            self.g = g
                        def group(self, i):
                            return self.g
                    child = _M(cf.group(1).replace("/", "::"))
            if not (mount and parent) and child:
                # "child module of socket::v3": src/socket/v3/<demo>.rs plus `mod <demo>;` at the end of src/socket/v3.rs
                mp = child.group(1).replace("crate::", "").split("::")
                pf = os.path.join(wt, "src", *mp) + ".rs"
                if os.path.exists(pf):
                    os.makedirs(os.path.join(wt, "src", *mp), exist_ok=True)
                    shutil.copy(f, os.path.join(wt, "src", *mp, m + ".rs"))
                    with open(pf, "a") as fh:
                        fh.write("\n#[cfg(test)]\nmod %s;\n" % m)
                    mods.append(m)
                    continue
            if mount and parent:
                parent = parent[0]
                dest = os.path.normpath(os.path.join(wt, os.path.dirname(parent), mount.group(1)))
                if not os.path.exists(dest):
                    shutil.copy(f, dest)
                with open(os.path.join(wt, parent), "a") as fh:
                    fh.write("\n#[cfg(test)]\n#[path = \"%s\"]\nmod %s;\n" % (mount.group(1), mount.group(2)))
            else:
                with open(os.path.join(wt, "src", "lib.rs"), "a") as fh:
                    fh.write("\n#[cfg(test)]\nmod %s;\n" % m)
            mods.append(m)
        kind.append(("rust", mods))
    if py:
        for f in glob.glob(os.path.join(src, "*.py")):
            shutil.copy(f, wt)
        kind.append(("python", [os.path.basename(p) for p in py]))
    return kind


def run_demo(kind, wt, tdir):
    """True when every demo passes."""
    ok = True
    logs = []
    each = []
    for k, items in kind:
        if k == "rust":
            for m in items:
                rc, out = sh("cargo test --offline --lib %s:: 2>&1 | tail -40" % m, wt, {"CARGO_TARGET_DIR": tdir, "RUST_BACKTRACE": "0"})
                passed = bool(re.search(r"test result: ok\. [1-9]\d* passed; 0 failed", out))
                if not passed and ("undefined symbol" in out or "undefined reference" in out or "linking with" in out):
                    # a demo that calls PyResult-returning functions needs libpython on the link line (no interpreter is started)
                    import sysconfig
                    L = sysconfig.get_config_var("LIBDIR")
                    V = sysconfig.get_config_var("LDVERSION")
                    rc, out = sh("cargo test --offline --lib %s:: 2>&1 | tail -40" % m, wt,
                                 {"CARGO_TARGET_DIR": tdir + "-py", "RUST_BACKTRACE": "0", "LD_LIBRARY_PATH": L,
                                  "RUSTFLAGS": "-C link-arg=-L%s -C link-arg=-lpython%s -C link-arg=-Wl,-rpath,%s" % (L, V, L)})
                    passed = bool(re.search(r"test result: ok\. [1-9]\d* passed; 0 failed", out))
                    logs.append("(relinked with libpython)")
                logs.append("cargo test --lib %s:: -> %s" % (m, "pass" if passed else "FAIL"))
                ok = ok and passed
                each.append(passed)
        else:
            rc, out = sh("cargo build --offline 2>&1 | tail -3 && cp %s/debug/libgufo_snmp.so src/gufo/snmp/_fast.so" % tdir, wt, {"CARGO_TARGET_DIR": tdir})
            for script in items:
                rc, out = sh("PYTHONPATH=%s/src timeout 300 python3 %s" % (wt, script), wt)
                logs.append("python3 %s -> exit %d" % (script, rc))
                ok = ok and rc == 0
                each.append(rc == 0)
    return ok, logs, each


def main():
    src, name = sys.argv[1], sys.argv[2]
    prop = None
    if "--prop" in sys.argv:
        prop = sys.argv[sys.argv.index("--prop") + 1]
    meta = json.load(open(os.path.join(src, "meta.json")))
    prop = prop or meta.get("property")
    wt = "/tmp/confirm/%s" % name
    tdir = os.environ.get("CONFIRM_TARGET", TARGET)
    shutil.rmtree(wt, ignore_errors=True)
    os.makedirs("/tmp/confirm", exist_ok=True)
    subprocess.check_call(["git", "-C", "/repo", "worktree", "add", "--detach", wt, "HEAD", "-q"])
    res = {"base": subprocess.check_output(["git", "-C", "/repo", "rev-parse", "--short", "HEAD"], text=True).strip(), "steps": []}
    try:
        patch = os.path.join(src, "patch.diff")
        # 2a. suite with the patch, before demo files are added
        rc, out = sh("git apply --check %s && git apply %s" % (patch, patch), wt)
        res["steps"].append("git apply patch.diff -> %d" % rc)
        if rc != 0:
            res["ok"] = False
            res["why"] = "patch does not apply: " + out[-300:]
            return finish(res, src, name, prop, meta)
        rc, out = sh("cargo test --workspace --no-fail-fast --offline 2>&1 | grep -E '^test result|^error' ", wt, {"CARGO_TARGET_DIR": tdir})
        suite_ok = "test result: ok. 104 passed; 0 failed" in out
        res["steps"].append("with patch: cargo test --workspace -> %s" % out.strip().splitlines()[:1])
        if not suite_ok:
            res["ok"] = False
            res["why"] = "pinned suite does not pass with the patch: " + out[-300:]
            return finish(res, src, name, prop, meta)
        sh("git apply -R %s" % patch, wt)
        # 1. demo on the clean tree
        kind = install_demo(src, wt)
        if not kind:
            res["ok"] = False
            res["why"] = "no demo files"
            return finish(res, src, name, prop, meta)
        ok_clean, logs, each_clean = run_demo(kind, wt, tdir)
        res["steps"] += ["clean tree: " + l for l in logs]
        # 3. demo on the changed tree
        rc, out = sh("git apply %s" % patch, wt)
        ok_patched, logs, each_patched = run_demo(kind, wt, tdir)
        res["steps"] += ["patched tree: " + l for l in logs]
        # confirmed by any one demonstration that passes on the unchanged tree and fails on the changed one (a second
        # demonstration that cannot be mounted by this script does not count either way)
        res["ok"] = bool(ok_clean and not ok_patched) or any(c and not p_ for c, p_ in zip(each_clean, each_patched))
        if not res["ok"]:
            res["why"] = "demo clean=%s patched=%s (want pass / fail)" % (ok_clean, ok_patched)
        return finish(res, src, name, prop, meta)
    finally:
        subprocess.call(["git", "-C", "/repo", "worktree", "remove", "--force", wt])


def finish(res, src, name, prop, meta):
    print(json.dumps(res, indent=1))
    if res.get("ok"):
        dst = os.path.join(VERIF, "seeded", name)
        shutil.rmtree(dst, ignore_errors=True)
        os.makedirs(dst)
        for f in os.listdir(src):
            if f.startswith("out.") or f.endswith(".so"):
                continue
            p = os.path.join(src, f)
            if os.path.isfile(p) and os.path.getsize(p) < 200000:
                shutil.copy(p, dst)
        meta["property"] = prop
        meta["confirmed"] = res
        json.dump(meta, open(os.path.join(dst, "meta.json"), "w"), indent=1)
        print("filed under", dst)
        return 0
    return 1


if __name__ == "__main__":
    sys.exit(main())
