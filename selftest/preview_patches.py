"""Detection preview on sub-agent output that is not yet confirmed: preview_patches.py <prefix>  (reads /tmp/wt/<prefix>*-out/N/patch.diff)."""
import sys, os, json, glob
sys.path.insert(0, '/verif')
from concurrent.futures import ThreadPoolExecutor
from selftest import sensitivity
jobs=[]
for d in sorted(glob.glob("/tmp/wt/%s*-out/*/" % sys.argv[1])):
    d=d.rstrip('/')
    if not os.path.exists(d+'/patch.diff') or not os.path.exists(d+'/meta.json'): continue
    name=os.path.basename(os.path.dirname(d)).replace('-out','')+'-'+os.path.basename(d)
    pid=json.load(open(d+'/meta.json')).get('property') or ('C'+name[1:3])
    jobs.append((name,pid,d+'/patch.diff'))
def run(j,i):
    name,pid,pp=j
    return name,pid,sensitivity._patch("seeded",name,pp,pid,i%6)
with ThreadPoolExecutor(6) as ex:
    futs=[ex.submit(run,j,i) for i,j in enumerate(jobs)]
    for f in futs:
        name,pid,r=f.result()
        print(("DETECTED" if r.get('rc')==1 else ("MISSED  " if r.get('rc')==0 else "ERROR   ")), name, pid, (r.get('lines') or [r.get('why','')])[0][:200])
