#!/bin/bash
# confirm every sub-agent output under /tmp/wt/c*-out/* that is not yet filed (sequential; slow)
cd /verif
for d in /tmp/wt/${1:-c}*-out/*/; do
  d=${d%/}
  [ -f "$d/patch.diff" ] && [ -f "$d/meta.json" ] || continue
  id=$(basename $(dirname $d) | sed 's/-out//')
  n=$(basename $d)
  name="$id-$n"
  [ -d "seeded/$name" ] && continue
  [ -f "/tmp/confirm/$name.done" ] && continue
  echo "=== $name"
  python3 selftest/confirm_seed.py "$d" "$name" > /tmp/confirm/$name.log 2>&1
  echo "rc=$?" ; tail -3 /tmp/confirm/$name.log
  touch /tmp/confirm/$name.done
done
