#!/usr/bin/env python3
"""Regenerate the table of section 9.1 of DESIGN.md from a run of `run_seeded.py --json <file>`:
   seed_table.py <file>    (rewrites the text between the seeded-table markers)"""
import json
import os
import re
import sys

VERIF = os.path.dirname(os.path.dirname(os.path.abspath(__file__)))


def main():
    data = json.load(open(sys.argv[1]))
    rows = ["| seed | property | reported | by rule(s) | what the change does |", "|---|---|---|---|---|"]
    det = 0
    for d in sorted(data, key=lambda x: x["name"]):
        pid = d["property"]
        out = (d.get("out") or {}).get(pid) or {}
        rules = []
        for l in out.get("lines") or []:
            m = re.search(r"(C\d\d\.[\w-]+)\[", l)
            if m and m.group(1) not in rules:
                rules.append(m.group(1))
        hit = pid in (d.get("hit") or [])
        det += hit
        try:
            summ = json.load(open(os.path.join(VERIF, "seeded", d["name"], "meta.json"))).get("summary", "")
        except OSError:
            summ = ""
        summ = " ".join(str(summ).split()).replace("|", "/")
        if len(summ) > 150:
            summ = summ[:147] + "..."
        rows.append("| %s | %s | %s | %s | %s |" % (d["name"], pid, "yes" if hit else "NO", ", ".join(rules[:3]), summ))
    text = "\n".join(rows) + "\n\n%d of %d reported.\n" % (det, len(data))
    p = os.path.join(VERIF, "DESIGN.md")
    s = open(p).read()
    a, b = "<!-- seeded-table-begin -->\n", "<!-- seeded-table-end -->"
    i, j = s.index(a) + len(a), s.index(b)
    open(p, "w").write(s[:i] + text + s[j:])
    print("%d / %d" % (det, len(data)))


if __name__ == "__main__":
    main()
