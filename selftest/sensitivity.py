#!/usr/bin/env python3
"""Checker self-test used by the thorough tier: for one property, apply every breakage known for it (own one-instance
mutants of selftest/mutants.json, confirmed seeded changes of seeded/<id>-N, own negative controls) to a scratch copy
of the CURRENT tree and run the property's quick check against the copy.  Patches that no longer apply to the
current tree are skipped (and counted).  Returns a dict for the evidence file."""
import json
import os
import shutil
import subprocess
import sys
from concurrent.futures import ThreadPoolExecutor

VERIF = os.path.dirname(os.path.dirname(os.path.abspath(__file__)))
sys.path.insert(0, VERIF)
from selftest.mutate import copy_repo, SCRATCH  # noqa: E402


def _check(pid, d, worker):
    env = dict(os.environ, GSA_REPO=d, GSA_EVIDENCE_DIR=os.path.join(d, "evidence"), GSA_TARGET=os.path.join(VERIF, ".cache", "target-w%d" % worker),
               VERIF_TIER="quick")
    r = subprocess.run([sys.executable, os.path.join(VERIF, "checks", "run.py"), pid, "--tier", "quick"], env=env, stdout=subprocess.PIPE, stderr=subprocess.STDOUT, text=True)
    lines = [l.strip() for l in r.stdout.splitlines() if l.startswith("  ")]
    return r.returncode, lines[:3]


def _own(m, pid, worker):
    d = os.path.join(SCRATCH, "t%d-%d" % (os.getpid(), worker), m["name"])
    shutil.rmtree(d, ignore_errors=True)
    try:
        copy_repo(d)
        edits = m.get("edits") or [{"file": m["file"], "old": m["old"], "new": m["new"]}]
        for e in edits:
            p = os.path.join(d, e["file"])
            s = open(p).read() if os.path.exists(p) else ""
            if s.count(e["old"]) != 1:
                return {"name": m["name"], "kind": "control" if m.get("control") else "own", "status": "skipped", "why": "pattern not found in the current tree"}
            open(p, "w").write(s.replace(e["old"], e["new"]))
        rc, lines = _check(pid, d, worker)
        return {"name": m["name"], "kind": "control" if m.get("control") else "own", "rc": rc, "lines": lines}
    finally:
        shutil.rmtree(d, ignore_errors=True)


def _patch(kind, name, path, pid, worker):
    d = os.path.join(SCRATCH, "t%d-%d" % (os.getpid(), worker), name)
    shutil.rmtree(d, ignore_errors=True)
    try:
        copy_repo(d)
        genv = dict(os.environ, GIT_CEILING_DIRECTORIES=os.path.dirname(d), GIT_DIR="/nonexistent")
        p = subprocess.run(["git", "apply", "--unsafe-paths", "--verbose", path], cwd=d, env=genv, stdout=subprocess.PIPE, stderr=subprocess.STDOUT, text=True)
        if p.returncode != 0 or "Applied patch" not in p.stdout:
            return {"name": name, "kind": kind, "status": "skipped", "why": "patch does not apply to the current tree"}
        rc, lines = _check(pid, d, worker)
        return {"name": name, "kind": kind, "rc": rc, "lines": lines}
    finally:
        shutil.rmtree(d, ignore_errors=True)


def touches(patch_path, files):
    try:
        s = open(patch_path).read()
    except OSError:
        return False
    return any(("b/" + f) in s for f in files)


def run(pid, anchor_files=(), jobs=8, max_controls=8):
    jobs_l = []
    mpath = os.path.join(VERIF, "selftest", "mutants.json")
    if os.path.exists(mpath):
        for m in json.load(open(mpath)):
            if pid in m["props"]:
                jobs_l.append(("own", m))
    sd = os.path.join(VERIF, "seeded")
    for n in sorted(os.listdir(sd)) if os.path.isdir(sd) else []:
        mp = os.path.join(sd, n, "meta.json")
        pp = os.path.join(sd, n, "patch.diff")
        if os.path.exists(mp) and os.path.exists(pp) and json.load(open(mp)).get("property") == pid:
            jobs_l.append(("seeded", n, pp))
    cd = os.path.join(VERIF, "selftest", "controls")
    nc = 0
    for n in sorted(os.listdir(cd)) if os.path.isdir(cd) else []:
        pp = os.path.join(cd, n, "patch.diff")
        if os.path.exists(pp) and touches(pp, anchor_files) and nc < max_controls:
            nc += 1
            jobs_l.append(("refactoring", n, pp))
    res = []
    with ThreadPoolExecutor(max_workers=jobs) as ex:
        futs = []
        for i, j in enumerate(jobs_l):
            if j[0] == "own":
                futs.append(ex.submit(_own, j[1], pid, i % jobs))
            else:
                futs.append(ex.submit(_patch, j[0], j[1], j[2], pid, i % jobs))
        for f in futs:
            try:
                res.append(f.result())
            except Exception as e:  # the self-test never decides the property
                res.append({"name": "?", "kind": "error", "status": "error", "why": str(e)[:200]})
    shutil.rmtree(os.path.join(SCRATCH), ignore_errors=True) if not os.listdir(SCRATCH) else None
    breaks = [r for r in res if r["kind"] in ("own", "seeded") and "rc" in r]
    ctrls = [r for r in res if r["kind"] in ("control", "refactoring") and "rc" in r]
    return {
        "breakages_run": len(breaks),
        "breakages_detected": sum(1 for r in breaks if r["rc"] == 1),
        "breakages_missed": [r["name"] for r in breaks if r["rc"] == 0],
        "checker_errors": [r["name"] for r in res if r.get("rc") not in (None, 0, 1)],
        "controls_run": len(ctrls),
        "controls_silent": sum(1 for r in ctrls if r["rc"] == 0),
        "controls_alarmed": [r["name"] for r in ctrls if r["rc"] != 0],
        "skipped": [(r["name"], r.get("why")) for r in res if r.get("status") == "skipped"],
        "detail": [{k: v for k, v in r.items() if k != "lines"} | {"first": (r.get("lines") or [""])[0][:200]} for r in res],
    }


if __name__ == "__main__":
    print(json.dumps(run(sys.argv[1], tuple(sys.argv[2:])), indent=1))
