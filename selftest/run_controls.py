#!/usr/bin/env python3
"""Negative controls: behaviour-preserving refactorings (selftest/controls/*/patch.diff) must not raise any alarm.
Each patch is applied to a scratch copy of /repo, every registered check is run against the copy.
usage: run_controls.py [--only name,..] [--jobs N] [--verify-tests]"""
import argparse
import json
import os
import shutil
import subprocess
import sys
from concurrent.futures import ThreadPoolExecutor

VERIF = os.path.dirname(os.path.dirname(os.path.abspath(__file__)))
sys.path.insert(0, VERIF)
from selftest.mutate import copy_repo, SCRATCH  # noqa: E402


def run_one(name, worker, props, verify):
    sd = os.path.join(VERIF, "selftest", "controls", name)
    d = os.path.join(SCRATCH, "c%d" % worker, name)
    shutil.rmtree(d, ignore_errors=True)
    copy_repo(d)
    res = {"name": name}
    try:
        genv = dict(os.environ, GIT_CEILING_DIRECTORIES=os.path.dirname(d), GIT_DIR="/nonexistent")
        p = subprocess.run(["git", "apply", "--unsafe-paths", "--verbose", os.path.join(sd, "patch.diff")], cwd=d, env=genv,
                           stdout=subprocess.PIPE, stderr=subprocess.STDOUT, text=True)
        if p.returncode != 0 or "Applied patch" not in p.stdout:
            res["error"] = "patch does not apply: " + p.stdout[-300:]
            return res
        env = dict(os.environ, GSA_REPO=d, GSA_EVIDENCE_DIR=os.path.join(d, "evidence"), GSA_TARGET=os.path.join(VERIF, ".cache", "target-w%d" % worker))
        if verify:
            t = subprocess.run("cargo test --offline --lib 2>&1 | grep -E '^test result'", shell=True, cwd=d,
                               env=dict(env, CARGO_TARGET_DIR=os.path.join(VERIF, ".cache", "test-target-w%d" % worker)), stdout=subprocess.PIPE, text=True)
            res["tests"] = t.stdout.strip()
        alarms = {}
        for pid in props:
            r = subprocess.run([sys.executable, os.path.join(VERIF, "checks", "run.py"), pid], env=env, stdout=subprocess.PIPE, stderr=subprocess.STDOUT, text=True)
            if r.returncode != 0:
                alarms[pid] = {"rc": r.returncode, "lines": [l.strip() for l in r.stdout.splitlines() if l.startswith("  ")][:6], "tail": r.stdout[-400:] if r.returncode not in (0, 1) else ""}
        res["alarms"] = alarms
    finally:
        shutil.rmtree(d, ignore_errors=True)
    return res


def main():
    ap = argparse.ArgumentParser()
    ap.add_argument("--only", default="")
    ap.add_argument("--jobs", type=int, default=6)
    ap.add_argument("--verify-tests", action="store_true")
    a = ap.parse_args()
    from gsa.props import PROPS
    names = sorted(n for n in os.listdir(os.path.join(VERIF, "selftest", "controls")) if os.path.exists(os.path.join(VERIF, "selftest", "controls", n, "patch.diff")))
    if a.only:
        w = a.only.split(",")
        names = [n for n in names if any(n.startswith(x) for x in w)]
    bad = 0
    with ThreadPoolExecutor(max_workers=a.jobs) as ex:
        futs = [ex.submit(run_one, n, i % a.jobs, sorted(PROPS), a.verify_tests) for i, n in enumerate(names)]
        for f in futs:
            r = f.result()
            if r.get("error"):
                print("ERR    %-10s %s" % (r["name"], r["error"]))
                bad += 1
                continue
            if r["alarms"]:
                bad += 1
                print("ALARM  %-10s %s %s" % (r["name"], sorted(r["alarms"]), r.get("tests", "")))
                for pid, o in r["alarms"].items():
                    for l in o["lines"][:3]:
                        print("          ", pid, l[:230])
                    if o["tail"]:
                        print("          ", pid, "BROKEN:", o["tail"][-300:])
            else:
                print("silent %-10s %s" % (r["name"], r.get("tests", "")))
    print("%d/%d silent" % (len(names) - bad, len(names)))
    return 1 if bad else 0


if __name__ == "__main__":
    sys.exit(main())
