#!/usr/bin/env python3
"""Self-validation: apply one-instance breakages (selftest/mutants.json) to a scratch copy of /repo,
run the named checks against the copy and require a VIOLATION; negative controls must stay silent.

usage: mutate.py [--only NAME[,NAME]] [--jobs N] [--verify-tests] [--json out.json]
A mutant is {name, file, old, new, props:[ids], expect: substring of the reported key (optional),
control: bool (true = behaviour-preserving edit that must NOT be reported)}."""
import argparse
import json
import os
import shutil
import subprocess
import sys
import tempfile
from concurrent.futures import ThreadPoolExecutor

VERIF = os.path.dirname(os.path.dirname(os.path.abspath(__file__)))
REPO = os.environ.get("GSA_REPO", "/repo")
# scratch copies of the repository live outside /repo and /verif and are removed after each use
SCRATCH = os.environ.get("GSA_SCRATCH") or os.path.join(tempfile.gettempdir(), "gsa-scratch-%d" % os.getuid())


def copy_repo(dst):
    os.makedirs(dst)
    shutil.copytree(os.path.join(REPO, "src"), os.path.join(dst, "src"))
    for f in ("Cargo.toml", "Cargo.lock"):
        shutil.copy(os.path.join(REPO, f), dst)
    if os.path.isdir(os.path.join(REPO, "benches")):
        shutil.copytree(os.path.join(REPO, "benches"), os.path.join(dst, "benches"))


def run_one(m, worker, verify_tests):
    name = m["name"]
    d = os.path.join(SCRATCH, "w%d" % worker, name)
    shutil.rmtree(d, ignore_errors=True)
    copy_repo(d)
    res = {"name": name, "props": m["props"], "control": bool(m.get("control"))}
    try:
        edits = m.get("edits") or [{"file": m["file"], "old": m["old"], "new": m["new"]}]
        for e in edits:
            p = os.path.join(d, e["file"])
            s = open(p).read()
            if s.count(e["old"]) != 1:
                res["error"] = "pattern occurs %d times in %s" % (s.count(e["old"]), e["file"])
                return res
            open(p, "w").write(s.replace(e["old"], e["new"]))
        env = dict(os.environ, GSA_REPO=d, GSA_EVIDENCE_DIR=os.path.join(d, "evidence"),
                   GSA_TARGET=os.path.join(VERIF, ".cache", "target-w%d" % worker))
        if verify_tests:
            t = subprocess.run(["cargo", "test", "--offline", "--lib"], cwd=d, env=dict(env, CARGO_TARGET_DIR=os.path.join(VERIF, ".cache", "test-target-w%d" % worker)),
                               stdout=subprocess.PIPE, stderr=subprocess.STDOUT, text=True)
            res["tests_pass"] = t.returncode == 0
            if t.returncode != 0:
                res["tests_tail"] = t.stdout[-800:]
        out = {}
        for pid in m["props"]:
            p = subprocess.run([sys.executable, os.path.join(VERIF, "checks", "run.py"), pid], env=env,
                               stdout=subprocess.PIPE, stderr=subprocess.STDOUT, text=True)
            lines = [l for l in p.stdout.splitlines() if l.startswith("  ") or l.startswith("VIOLATION")]
            out[pid] = {"rc": p.returncode, "lines": lines[:12]}
            if p.returncode not in (0, 1):
                out[pid]["tail"] = p.stdout[-1500:]
        res["out"] = out
        if m.get("control"):
            res["ok"] = all(o["rc"] == 0 for o in out.values())
        else:
            hit = [pid for pid, o in out.items() if o["rc"] == 1 and (not m.get("expect") or any(m["expect"] in l for l in o["lines"]))]
            res["ok"] = bool(hit)
            res["hit"] = hit
    finally:
        shutil.rmtree(d, ignore_errors=True)
    return res


def main():
    ap = argparse.ArgumentParser()
    ap.add_argument("--only", default="")
    ap.add_argument("--jobs", type=int, default=8)
    ap.add_argument("--verify-tests", action="store_true")
    ap.add_argument("--json", default="")
    ap.add_argument("--file", default=os.path.join(VERIF, "selftest", "mutants.json"))
    a = ap.parse_args()
    ms = json.load(open(a.file))
    if a.only:
        want = set(a.only.split(","))
        ms = [m for m in ms if m["name"] in want or any(m["name"].startswith(w) for w in want)]
    results = []
    with ThreadPoolExecutor(max_workers=a.jobs) as ex:
        futs = [ex.submit(run_one, m, i % a.jobs, a.verify_tests) for i, m in enumerate(ms)]
        # NB: two mutants on the same worker share a target dir; the extractor serialises on its lock
        for f in futs:
            r = f.result()
            results.append(r)
            status = "OK  " if r.get("ok") else "MISS"
            if r.get("error"):
                status = "ERR "
            extra = ""
            if "tests_pass" in r:
                extra = " tests=%s" % ("pass" if r["tests_pass"] else "FAIL")
            print("%s %-40s %s%s" % (status, r["name"], "control" if r["control"] else ",".join(r.get("hit", [])), extra))
            if not r.get("ok"):
                print("     ", json.dumps(r.get("error") or r.get("out"))[:600])
    if a.json:
        json.dump(results, open(a.json, "w"), indent=1)
    bad = [r for r in results if not r.get("ok")]
    print("%d/%d as expected" % (len(results) - len(bad), len(results)))
    return 1 if bad else 0


if __name__ == "__main__":
    sys.exit(main())
