#!/usr/bin/env python3
"""Run the registered checks against every confirmed seeded change in /verif/seeded/*/patch.diff.

Each patch is applied to a scratch copy of /repo's working tree (never to /repo itself), the check of
the property named in meta.json is run (plus --all: every registered property), and the scratch copy
is removed.  Prints one line per seed: DETECTED <props that raised VIOLATION> / MISSED.
usage: run_seeded.py [--only name,name] [--all] [--jobs N] [--json out]"""
import argparse
import json
import os
import shutil
import subprocess
import sys
from concurrent.futures import ThreadPoolExecutor

VERIF = os.path.dirname(os.path.dirname(os.path.abspath(__file__)))
sys.path.insert(0, VERIF)
from selftest.mutate import copy_repo, SCRATCH  # noqa: E402


def run_one(name, worker, all_props, props_avail):
    sd = os.path.join(VERIF, "seeded", name)
    meta = json.load(open(os.path.join(sd, "meta.json")))
    d = os.path.join(SCRATCH, "s%d" % worker, name)
    shutil.rmtree(d, ignore_errors=True)
    copy_repo(d)
    res = {"name": name, "property": meta.get("property")}
    try:
        # the scratch copy lives inside /verif's git repository: stop git from discovering it, or it
        # silently skips paths "outside the current subdirectory"
        genv = dict(os.environ, GIT_CEILING_DIRECTORIES=os.path.dirname(d), GIT_DIR="/nonexistent")
        p = subprocess.run(["git", "apply", "--unsafe-paths", "--verbose", os.path.join(sd, "patch.diff")], cwd=d, env=genv,
                           stdout=subprocess.PIPE, stderr=subprocess.STDOUT, text=True)
        if p.returncode == 0 and "Applied patch" not in p.stdout:
            p.returncode = 1
        if p.returncode != 0:
            res["error"] = "patch does not apply: " + p.stdout[-300:]
            return res
        env = dict(os.environ, GSA_REPO=d, GSA_EVIDENCE_DIR=os.path.join(d, "evidence"),
                   GSA_TARGET=os.path.join(VERIF, ".cache", "target-w%d" % worker))
        props = [meta["property"]] if meta.get("property") in props_avail else []
        if all_props:
            props = props + [p for p in props_avail if p not in props]
        out = {}
        for pid in props:
            r = subprocess.run([sys.executable, os.path.join(VERIF, "checks", "run.py"), pid], env=env,
                               stdout=subprocess.PIPE, stderr=subprocess.STDOUT, text=True)
            lines = [l.strip() for l in r.stdout.splitlines() if l.startswith("  ")]
            out[pid] = {"rc": r.returncode, "lines": lines[:6]}
            if r.returncode not in (0, 1):
                out[pid]["tail"] = r.stdout[-800:]
        res["out"] = out
        res["hit"] = [p for p, o in out.items() if o["rc"] == 1]
        res["broken"] = [p for p, o in out.items() if o["rc"] not in (0, 1)]
    finally:
        shutil.rmtree(d, ignore_errors=True)
    return res


def main():
    ap = argparse.ArgumentParser()
    ap.add_argument("--only", default="")
    ap.add_argument("--all", action="store_true")
    ap.add_argument("--jobs", type=int, default=6)
    ap.add_argument("--json", default="")
    a = ap.parse_args()
    from gsa.props import PROPS
    names = sorted(n for n in os.listdir(os.path.join(VERIF, "seeded")) if os.path.exists(os.path.join(VERIF, "seeded", n, "patch.diff")))
    if a.only:
        w = a.only.split(",")
        names = [n for n in names if any(n.startswith(x) for x in w)]
    results = []
    with ThreadPoolExecutor(max_workers=a.jobs) as ex:
        futs = [ex.submit(run_one, n, i % a.jobs, a.all, sorted(PROPS)) for i, n in enumerate(names)]
        for f in futs:
            r = f.result()
            results.append(r)
            if r.get("error"):
                print("ERR      %-12s %s" % (r["name"], r["error"]))
                continue
            own = r["property"] in r.get("hit", [])
            st = "DETECTED" if own else ("detected*" if r.get("hit") else "MISSED  ")
            print("%s %-12s %s hit=%s%s" % (st, r["name"], r["property"], ",".join(r.get("hit", [])), (" BROKEN=" + ",".join(r["broken"])) if r.get("broken") else ""))
            for pid in r.get("hit", [])[:2]:
                for l in r["out"][pid]["lines"][:2]:
                    print("           ", l[:200])
    if a.json:
        json.dump(results, open(a.json, "w"), indent=1)
    return 0


if __name__ == "__main__":
    sys.exit(main())
