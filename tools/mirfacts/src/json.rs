// Minimal JSON value + serializer (no dependencies).
use std::fmt::Write;

#[derive(Clone, Debug)]
pub enum J {
    Null,
    Bool(bool),
    Int(i128),
    Str(String),
    Arr(Vec<J>),
    Obj(Vec<(String, J)>),
}

impl J {
    pub fn s<T: Into<String>>(v: T) -> J {
        J::Str(v.into())
    }
    pub fn obj() -> ObjB {
        ObjB(Vec::new())
    }
    pub fn write(&self, out: &mut String) {
        match self {
            J::Null => out.push_str("null"),
            J::Bool(b) => out.push_str(if *b { "true" } else { "false" }),
            J::Int(i) => {
                // Integers that do not fit in i64/u64 range comfortably are emitted as strings.
                if *i > (i64::MAX as i128) || *i < (i64::MIN as i128) {
                    let _ = write!(out, "\"{}\"", i);
                } else {
                    let _ = write!(out, "{}", i);
                }
            }
            J::Str(s) => write_str(s, out),
            J::Arr(a) => {
                out.push('[');
                for (n, v) in a.iter().enumerate() {
                    if n > 0 {
                        out.push(',');
                    }
                    v.write(out);
                }
                out.push(']');
            }
            J::Obj(o) => {
                out.push('{');
                for (n, (k, v)) in o.iter().enumerate() {
                    if n > 0 {
                        out.push(',');
                    }
                    write_str(k, out);
                    out.push(':');
                    v.write(out);
                }
                out.push('}');
            }
        }
    }
}

fn write_str(s: &str, out: &mut String) {
    out.push('"');
    for c in s.chars() {
        match c {
            '"' => out.push_str("\\\""),
            '\\' => out.push_str("\\\\"),
            '\n' => out.push_str("\\n"),
            '\r' => out.push_str("\\r"),
            '\t' => out.push_str("\\t"),
            c if (c as u32) < 0x20 => {
                let _ = write!(out, "\\u{:04x}", c as u32);
            }
            c => out.push(c),
        }
    }
    out.push('"');
}

pub struct ObjB(Vec<(String, J)>);

impl ObjB {
    pub fn f<T: Into<String>>(mut self, k: T, v: J) -> Self {
        self.0.push((k.into(), v));
        self
    }
    pub fn done(self) -> J {
        J::Obj(self.0)
    }
}
