// mirfacts: rustc_private driver that dumps MIR facts of the workspace crate as JSON.
//
// Invoked as RUSTC_WORKSPACE_WRAPPER: argv = [mirfacts, <rustc>, <rustc args...>].
// Writes one JSON document to $MIRFACTS_OUT for the crate named $MIRFACTS_CRATE
// (default gufo_snmp); every other invocation behaves like plain rustc.
#![feature(rustc_private)]
#![allow(rustc::internal)]

extern crate rustc_abi;
extern crate rustc_driver;
extern crate rustc_hir;
extern crate rustc_interface;
extern crate rustc_middle;
extern crate rustc_session;
extern crate rustc_span;

mod json;
use json::J;

use rustc_driver::Compilation;
use rustc_hir::def::DefKind;
use rustc_hir::def_id::{DefId, LOCAL_CRATE};
use rustc_middle::mir::interpret::{GlobalAlloc, Scalar};
use rustc_middle::mir::{
    self, AggregateKind, AssertKind, BasicBlockData, Body, Const, ConstValue, Operand, Place,
    ProjectionElem, Rvalue, StatementKind, TerminatorKind,
};
use rustc_middle::ty::{self, GenericArgsRef, Instance, Ty, TyCtxt, TypingEnv};
use rustc_span::Span;
use std::collections::HashMap;

struct Cb;

impl rustc_driver::Callbacks for Cb {
    fn after_analysis<'tcx>(
        &mut self,
        _c: &rustc_interface::interface::Compiler,
        tcx: TyCtxt<'tcx>,
    ) -> Compilation {
        let want = std::env::var("MIRFACTS_CRATE").unwrap_or_else(|_| "gufo_snmp".to_string());
        let name = tcx.crate_name(LOCAL_CRATE).to_string();
        if name != want {
            return Compilation::Continue;
        }
        let out = match std::env::var("MIRFACTS_OUT") {
            Ok(p) => p,
            Err(_) => return Compilation::Continue,
        };
        let mut d = Dumper::new(tcx);
        let doc = d.dump_crate();
        let mut s = String::with_capacity(1 << 24);
        doc.write(&mut s);
        // One write per process.
        let tmp = format!("{}.tmp.{}", out, std::process::id());
        std::fs::write(&tmp, s).expect("mirfacts: cannot write facts");
        std::fs::rename(&tmp, &out).expect("mirfacts: cannot rename facts");
        Compilation::Continue
    }
}

fn main() {
    let mut args: Vec<String> = std::env::args().collect();
    // Wrapper mode: argv[1] is the path of the real rustc.
    if args.len() > 1 && (args[1].ends_with("rustc") || args[1].contains("/rustc")) {
        args.remove(1);
    }
    rustc_driver::run_compiler(&args, &mut Cb);
}

struct Dumper<'tcx> {
    tcx: TyCtxt<'tcx>,
    ty_ids: HashMap<Ty<'tcx>, usize>,
    ty_tab: Vec<J>,
}

impl<'tcx> Dumper<'tcx> {
    fn new(tcx: TyCtxt<'tcx>) -> Self {
        Dumper { tcx, ty_ids: HashMap::new(), ty_tab: Vec::new() }
    }

    fn path(&self, def_id: DefId) -> String {
        self.tcx.def_path_str(def_id)
    }

    fn span(&self, sp: Span) -> J {
        let sm = self.tcx.sess.source_map();
        let lo = sm.lookup_char_pos(sp.lo());
        let hi = sm.lookup_char_pos(sp.hi());
        let file = format!("{}", lo.file.name.prefer_local_unconditionally());
        J::obj()
            .f("file", J::s(file))
            .f("line", J::Int(lo.line as i128))
            .f("col", J::Int(lo.col.0 as i128))
            .f("line_hi", J::Int(hi.line as i128))
            .f("exp", J::Bool(sp.from_expansion()))
            .done()
    }

    // ---------------------------------------------------------------- types
    fn ty(&mut self, t: Ty<'tcx>) -> J {
        J::Int(self.ty_id(t) as i128)
    }

    fn ty_id(&mut self, t: Ty<'tcx>) -> usize {
        if let Some(&i) = self.ty_ids.get(&t) {
            return i;
        }
        let id = self.ty_tab.len();
        self.ty_ids.insert(t, id);
        self.ty_tab.push(J::Null);
        let desc = self.ty_desc(t);
        self.ty_tab[id] = desc;
        id
    }

    fn ty_desc(&mut self, t: Ty<'tcx>) -> J {
        let tcx = self.tcx;
        let s = format!("{}", t);
        let o = J::obj().f("s", J::s(s));
        match *t.kind() {
            ty::Bool => o.f("k", J::s("bool")).done(),
            ty::Char => o.f("k", J::s("char")).done(),
            ty::Int(it) => {
                let bits = it.bit_width().unwrap_or(64);
                o.f("k", J::s("int"))
                    .f("bits", J::Int(bits as i128))
                    .f("signed", J::Bool(true))
                    .f("ptr", J::Bool(it.bit_width().is_none()))
                    .done()
            }
            ty::Uint(ut) => {
                let bits = ut.bit_width().unwrap_or(64);
                o.f("k", J::s("int"))
                    .f("bits", J::Int(bits as i128))
                    .f("signed", J::Bool(false))
                    .f("ptr", J::Bool(ut.bit_width().is_none()))
                    .done()
            }
            ty::Float(_) => o.f("k", J::s("float")).done(),
            ty::Str => o.f("k", J::s("str")).done(),
            ty::Never => o.f("k", J::s("never")).done(),
            ty::Array(e, n) => {
                let len = match n.try_to_target_usize(tcx) {
                    Some(v) => J::Int(v as i128),
                    None => J::s(format!("{}", n)),
                };
                let e = self.ty(e);
                o.f("k", J::s("array")).f("elem", e).f("len", len).done()
            }
            ty::Slice(e) => {
                let e = self.ty(e);
                o.f("k", J::s("slice")).f("elem", e).done()
            }
            ty::RawPtr(p, m) => {
                let p = self.ty(p);
                o.f("k", J::s("rawptr")).f("to", p).f("mut", J::Bool(m.is_mut())).done()
            }
            ty::Ref(_, p, m) => {
                let p = self.ty(p);
                o.f("k", J::s("ref")).f("to", p).f("mut", J::Bool(m.is_mut())).done()
            }
            ty::Tuple(ts) => {
                let v: Vec<J> = ts.iter().map(|x| self.ty(x)).collect();
                o.f("k", J::s("tuple")).f("elems", J::Arr(v)).done()
            }
            ty::Adt(adt, args) => {
                let did = adt.did();
                let mut variants = Vec::new();
                let local = did.is_local();
                let p = self.path(did);
                let want_fields = local
                    || p == "std::option::Option"
                    || p == "std::result::Result"
                    || p == "nom::Err"
                    || p == "std::ops::ControlFlow"
                    || p == "std::borrow::Cow"
                    || p == "std::ops::Range";
                for (vi, v) in adt.variants().iter_enumerated() {
                    let discr = if adt.is_enum() {
                        let d = adt.discriminant_for_variant(tcx, vi);
                        let v = match d.ty.kind() {
                            ty::Int(ity) => {
                                let bits = ity.bit_width().unwrap_or(64) as u32;
                                if bits >= 128 {
                                    d.val as i128
                                } else {
                                    let m = 1u128 << bits;
                                    let x = d.val & (m - 1);
                                    if x >= (m >> 1) { (x as i128) - (m as i128) } else { x as i128 }
                                }
                            }
                            _ => d.val as i128,
                        };
                        J::Int(v)
                    } else {
                        J::Int(0)
                    };
                    let mut fields = Vec::new();
                    for f in v.fields.iter() {
                        let fo = J::obj().f("name", J::s(f.name.to_string()));
                        let fo = if want_fields {
                            let ft = f.ty(tcx, args);
                            let ftj = self.ty(ft);
                            fo.f("ty", ftj)
                        } else {
                            fo
                        };
                        fields.push(fo.done());
                    }
                    variants.push(
                        J::obj()
                            .f("name", J::s(v.name.to_string()))
                            .f("discr", discr)
                            .f("fields", J::Arr(fields))
                            .done(),
                    );
                }
                let ga = self.gargs(args);
                o.f("k", J::s("adt"))
                    .f("path", J::s(p))
                    .f("local", J::Bool(local))
                    .f("enum", J::Bool(adt.is_enum()))
                    .f("args", ga)
                    .f("variants", J::Arr(variants))
                    .done()
            }
            ty::FnDef(did, args) => {
                let ga = self.gargs(args);
                o.f("k", J::s("fndef")).f("path", J::s(self.path(did))).f("args", ga).done()
            }
            ty::Closure(did, _) => {
                o.f("k", J::s("closure")).f("path", J::s(self.path(did))).done()
            }
            ty::FnPtr(..) => o.f("k", J::s("fnptr")).done(),
            ty::Dynamic(..) => o.f("k", J::s("dyn")).done(),
            ty::Param(_) => o.f("k", J::s("param")).done(),
            ty::Alias(..) => o.f("k", J::s("alias")).done(),
            ty::Foreign(_) => o.f("k", J::s("foreign")).done(),
            _ => o.f("k", J::s("other")).done(),
        }
    }

    fn gargs(&mut self, args: GenericArgsRef<'tcx>) -> J {
        let mut v = Vec::new();
        for a in args.iter() {
            if let Some(t) = a.as_type() {
                let id = self.ty(t);
                v.push(J::obj().f("ty", id).f("s", J::s(format!("{}", t))).done());
            } else if let Some(c) = a.as_const() {
                let val = match c.try_to_target_usize(self.tcx) {
                    Some(x) => J::Int(x as i128),
                    None => J::Null,
                };
                v.push(J::obj().f("const", val).f("s", J::s(format!("{}", c))).done());
            }
            // lifetimes are skipped
        }
        J::Arr(v)
    }

    // ---------------------------------------------------------------- places / operands
    fn place(&mut self, body: &Body<'tcx>, p: &Place<'tcx>) -> J {
        let tcx = self.tcx;
        let mut proj = Vec::new();
        let mut pty = mir::PlaceTy::from_ty(body.local_decls[p.local].ty);
        for elem in p.projection.iter() {
            let j = match elem {
                ProjectionElem::Deref => J::s("deref"),
                ProjectionElem::Field(f, _) => {
                    let name = match pty.ty.kind() {
                        ty::Adt(adt, _) => {
                            let vi = pty.variant_index.unwrap_or(rustc_abi::FIRST_VARIANT);
                            adt.variant(vi).fields[f].name.to_string()
                        }
                        _ => format!("{}", f.as_usize()),
                    };
                    J::obj().f("field", J::Int(f.as_usize() as i128)).f("name", J::s(name)).done()
                }
                ProjectionElem::Index(l) => J::obj().f("index", J::Int(l.as_usize() as i128)).done(),
                ProjectionElem::ConstantIndex { offset, min_length, from_end } => J::obj()
                    .f("const_index", J::Int(offset as i128))
                    .f("min_length", J::Int(min_length as i128))
                    .f("from_end", J::Bool(from_end))
                    .done(),
                ProjectionElem::Subslice { from, to, from_end } => J::obj()
                    .f("subslice", J::Int(from as i128))
                    .f("to", J::Int(to as i128))
                    .f("from_end", J::Bool(from_end))
                    .done(),
                ProjectionElem::Downcast(name, vi) => J::obj()
                    .f("downcast", J::Int(vi.as_usize() as i128))
                    .f("name", J::s(name.map(|s| s.to_string()).unwrap_or_default()))
                    .done(),
                ProjectionElem::OpaqueCast(_) => J::s("opaque_cast"),
                ProjectionElem::UnwrapUnsafeBinder(_) => J::s("unwrap_binder"),
            };
            proj.push(j);
            pty = pty.projection_ty(tcx, elem);
        }
        let t = self.ty(pty.ty);
        J::obj()
            .f("l", J::Int(p.local.as_usize() as i128))
            .f("p", J::Arr(proj))
            .f("ty", t)
            .done()
    }

    fn scalar_json(&mut self, sc: Scalar, t: Ty<'tcx>) -> J {
        match sc {
            Scalar::Int(si) => {
                let size = si.size();
                let bits = si.to_bits_unchecked();
                let v: i128 = match t.kind() {
                    ty::Int(_) => si.to_int(size),
                    _ => bits as i128,
                };
                if matches!(t.kind(), ty::Bool) {
                    J::obj().f("bool", J::Bool(bits != 0)).done()
                } else if matches!(t.kind(), ty::Float(_)) {
                    J::obj().f("float_bits", J::s(format!("{}", bits))).done()
                } else {
                    J::obj().f("int", J::Int(v)).done()
                }
            }
            Scalar::Ptr(ptr, _) => {
                // pointer to a global allocation: try to show bytes
                let (prov, off) = ptr.into_raw_parts();
                let alloc_id = prov.alloc_id();
                match self.tcx.try_get_global_alloc(alloc_id) {
                    Some(GlobalAlloc::Memory(a)) => {
                        let a = a.inner();
                        let n = a.len();
                        let offb = off.bytes() as usize;
                        let end = n.min(offb + 256);
                        let bytes =
                            a.inspect_with_uninit_and_ptr_outside_interpreter(offb..end).to_vec();
                        J::obj()
                            .f("ptr_bytes", J::Arr(bytes.iter().map(|b| J::Int(*b as i128)).collect()))
                            .f("alloc_len", J::Int(n as i128))
                            .done()
                    }
                    Some(GlobalAlloc::Static(d)) => {
                        J::obj().f("ptr_static", J::s(self.path(d))).done()
                    }
                    Some(GlobalAlloc::Function { instance }) => {
                        J::obj().f("ptr_fn", J::s(self.path(instance.def_id()))).done()
                    }
                    _ => J::obj().f("ptr", J::s("other")).done(),
                }
            }
        }
    }

    fn const_value(&mut self, v: ConstValue, t: Ty<'tcx>) -> J {
        match v {
            ConstValue::Scalar(sc) => self.scalar_json(sc, t),
            ConstValue::ZeroSized => match t.kind() {
                ty::FnDef(did, args) => {
                    let ga = self.gargs(args);
                    J::obj().f("fn", J::s(self.path(*did))).f("args", ga).done()
                }
                _ => J::obj().f("zst", J::Bool(true)).done(),
            },
            ConstValue::Slice { alloc_id, meta } => {
                match self.tcx.try_get_global_alloc(alloc_id) {
                    Some(GlobalAlloc::Memory(a)) => {
                        let a = a.inner();
                        let n = (meta as usize).min(a.len());
                        let bytes = a.inspect_with_uninit_and_ptr_outside_interpreter(0..n).to_vec();
                        let is_str = matches!(t.kind(), ty::Ref(_, p, _) if p.is_str());
                        if is_str {
                            J::obj().f("str", J::s(String::from_utf8_lossy(&bytes).to_string())).done()
                        } else {
                            J::obj()
                                .f("bytes", J::Arr(bytes.iter().map(|b| J::Int(*b as i128)).collect()))
                                .done()
                        }
                    }
                    _ => J::obj().f("slice", J::s("other")).done(),
                }
            }
            ConstValue::Indirect { alloc_id, offset } => {
                match self.tcx.try_get_global_alloc(alloc_id) {
                    Some(GlobalAlloc::Memory(a)) => {
                        let a = a.inner();
                        let off = offset.bytes() as usize;
                        let n = a.len();
                        let end = n.min(off + 4096);
                        let bytes = a.inspect_with_uninit_and_ptr_outside_interpreter(off..end).to_vec();
                        J::obj()
                            .f("mem", J::Arr(bytes.iter().map(|b| J::Int(*b as i128)).collect()))
                            .f("alloc_len", J::Int(n as i128))
                            .done()
                    }
                    _ => J::obj().f("indirect", J::s("other")).done(),
                }
            }
        }
    }

    fn constant(&mut self, owner: DefId, c: &Const<'tcx>) -> J {
        let tcx = self.tcx;
        let t = c.ty();
        let tj = self.ty(t);
        let val = match c {
            Const::Val(v, t) => self.const_value(*v, *t),
            Const::Unevaluated(uv, t) => {
                if let Some(p) = uv.promoted {
                    J::obj().f("promoted", J::Int(p.as_usize() as i128)).done()
                } else {
                    let env = TypingEnv::post_analysis(tcx, owner);
                    match c.eval(tcx, env, rustc_span::DUMMY_SP) {
                        Ok(v) => {
                            let j = self.const_value(v, *t);
                            match j {
                                J::Obj(mut o) => {
                                    o.push(("of".to_string(), J::s(self.path(uv.def))));
                                    J::Obj(o)
                                }
                                other => other,
                            }
                        }
                        Err(_) => {
                            let ga = self.gargs(uv.args);
                            J::obj().f("uneval", J::s(self.path(uv.def))).f("args", ga).done()
                        }
                    }
                }
            }
            Const::Ty(t, ct) => {
                let env = TypingEnv::post_analysis(tcx, owner);
                match c.eval(tcx, env, rustc_span::DUMMY_SP) {
                    Ok(v) => self.const_value(v, *t),
                    Err(_) => J::obj().f("param", J::s(format!("{}", ct))).done(),
                }
            }
        };
        J::obj().f("ty", tj).f("v", val).done()
    }

    fn operand(&mut self, owner: DefId, body: &Body<'tcx>, op: &Operand<'tcx>) -> J {
        match op {
            Operand::Copy(p) => J::obj().f("copy", self.place(body, p)).done(),
            Operand::Move(p) => J::obj().f("move", self.place(body, p)).done(),
            Operand::Constant(c) => J::obj().f("const", self.constant(owner, &c.const_)).done(),
            Operand::RuntimeChecks(rc) => J::obj().f("runtime_checks", J::s(format!("{:?}", rc))).done(),
        }
    }

    // ---------------------------------------------------------------- rvalues
    fn rvalue(&mut self, owner: DefId, body: &Body<'tcx>, rv: &Rvalue<'tcx>) -> J {
        let tcx = self.tcx;
        match rv {
            Rvalue::Use(op, _) => J::obj().f("k", J::s("use")).f("op", self.operand(owner, body, op)).done(),
            Rvalue::Repeat(op, n) => {
                let len = match n.try_to_target_usize(tcx) {
                    Some(v) => J::Int(v as i128),
                    None => J::s(format!("{}", n)),
                };
                J::obj().f("k", J::s("repeat")).f("op", self.operand(owner, body, op)).f("n", len).done()
            }
            Rvalue::Ref(_, bk, p) => {
                let m = matches!(bk, mir::BorrowKind::Mut { .. });
                J::obj()
                    .f("k", J::s("ref"))
                    .f("mut", J::Bool(m))
                    .f("bk", J::s(format!("{:?}", bk)))
                    .f("place", self.place(body, p))
                    .done()
            }
            Rvalue::RawPtr(k, p) => J::obj()
                .f("k", J::s("rawptr"))
                .f("kind", J::s(format!("{:?}", k)))
                .f("place", self.place(body, p))
                .done(),
            Rvalue::ThreadLocalRef(d) => J::obj().f("k", J::s("tls")).f("path", J::s(self.path(*d))).done(),
            Rvalue::Cast(ck, op, t) => {
                let tj = self.ty(*t);
                let from = op.ty(&body.local_decls, tcx);
                let fj = self.ty(from);
                J::obj()
                    .f("k", J::s("cast"))
                    .f("ck", J::s(format!("{:?}", ck)))
                    .f("op", self.operand(owner, body, op))
                    .f("from", fj)
                    .f("to", tj)
                    .done()
            }
            Rvalue::BinaryOp(op, ab) => {
                let (a, b) = &**ab;
                J::obj()
                    .f("k", J::s("bin"))
                    .f("op", J::s(format!("{:?}", op)))
                    .f("a", self.operand(owner, body, a))
                    .f("b", self.operand(owner, body, b))
                    .done()
            }
            Rvalue::UnaryOp(op, a) => J::obj()
                .f("k", J::s("un"))
                .f("op", J::s(format!("{:?}", op)))
                .f("a", self.operand(owner, body, a))
                .done(),
            Rvalue::Discriminant(p) => J::obj().f("k", J::s("discr")).f("place", self.place(body, p)).done(),
            Rvalue::Aggregate(ak, ops) => {
                let opsj: Vec<J> = ops.iter().map(|o| self.operand(owner, body, o)).collect();
                let o = J::obj().f("k", J::s("agg"));
                let o = match &**ak {
                    AggregateKind::Array(t) => {
                        let tj = self.ty(*t);
                        o.f("ak", J::s("array")).f("elem", tj)
                    }
                    AggregateKind::Tuple => o.f("ak", J::s("tuple")),
                    AggregateKind::Adt(did, vi, args, _, active) => {
                        let adt = tcx.adt_def(*did);
                        let v = adt.variant(*vi);
                        let fnames: Vec<J> = v.fields.iter().map(|f| J::s(f.name.to_string())).collect();
                        let ga = self.gargs(args);
                        o.f("ak", J::s("adt"))
                            .f("path", J::s(self.path(*did)))
                            .f("variant", J::Int(vi.as_usize() as i128))
                            .f("vname", J::s(v.name.to_string()))
                            .f("fields", J::Arr(fnames))
                            .f("args", ga)
                            .f("union_field", match active { Some(f) => J::Int(f.as_usize() as i128), None => J::Null })
                    }
                    AggregateKind::Closure(did, _) => o.f("ak", J::s("closure")).f("path", J::s(self.path(*did))),
                    AggregateKind::Coroutine(did, _) => o.f("ak", J::s("coroutine")).f("path", J::s(self.path(*did))),
                    AggregateKind::CoroutineClosure(did, _) => {
                        o.f("ak", J::s("coroutine_closure")).f("path", J::s(self.path(*did)))
                    }
                    AggregateKind::RawPtr(t, m) => {
                        let tj = self.ty(*t);
                        o.f("ak", J::s("rawptr")).f("to", tj).f("mut", J::Bool(m.is_mut()))
                    }
                };
                o.f("ops", J::Arr(opsj)).done()
            }
            Rvalue::CopyForDeref(p) => J::obj().f("k", J::s("copy_for_deref")).f("place", self.place(body, p)).done(),
            Rvalue::WrapUnsafeBinder(op, _) => {
                J::obj().f("k", J::s("wrap_binder")).f("op", self.operand(owner, body, op)).done()
            }
        }
    }

    // ---------------------------------------------------------------- calls
    fn callee(&mut self, owner: DefId, body: &Body<'tcx>, func: &Operand<'tcx>) -> J {
        let tcx = self.tcx;
        let fty = func.ty(&body.local_decls, tcx);
        match *fty.kind() {
            ty::FnDef(did, args) => {
                let ga = self.gargs(args);
                let mut o = J::obj()
                    .f("path", J::s(self.path(did)))
                    .f("krate", J::s(tcx.crate_name(did.krate).to_string()))
                    .f("local", J::Bool(did.is_local()))
                    .f("args", ga)
                    .f("full", J::s(tcx.def_path_str_with_args(did, args)));
                if let Some(tr) = tcx.trait_of_assoc(did) {
                    o = o.f("trait", J::s(self.path(tr)));
                    o = o.f("method", J::s(tcx.item_name(did).to_string()));
                }
                if let Some(im) = tcx.impl_of_assoc(did) {
                    o = o.f("impl_self", J::s(format!("{}", tcx.type_of(im).instantiate_identity().skip_norm_wip())));
                }
                // resolution
                let env = TypingEnv::post_analysis(tcx, owner);
                let res = std::panic::catch_unwind(std::panic::AssertUnwindSafe(|| {
                    Instance::try_resolve(tcx, env, did, args)
                }));
                match res {
                    Ok(Ok(Some(inst))) => {
                        let rdid = inst.def_id();
                        let kind = match inst.def {
                            ty::InstanceKind::Item(_) => "item",
                            ty::InstanceKind::Intrinsic(_) => "intrinsic",
                            ty::InstanceKind::Virtual(..) => "virtual",
                            ty::InstanceKind::ClosureOnceShim { .. } => "closure_once_shim",
                            ty::InstanceKind::FnPtrShim(..) => "fnptr_shim",
                            ty::InstanceKind::DropGlue(..) => "drop_glue",
                            ty::InstanceKind::CloneShim(..) => "clone_shim",
                            _ => "other",
                        };
                        let rga = self.gargs(inst.args);
                        let r = J::obj()
                            .f("path", J::s(self.path(rdid)))
                            .f("local", J::Bool(rdid.is_local()))
                            .f("kind", J::s(kind))
                            .f("args", rga)
                            .done();
                        o = o.f("resolved", r);
                    }
                    _ => {
                        o = o.f("resolved", J::Null);
                    }
                }
                o.done()
            }
            _ => J::obj().f("indirect", J::s(format!("{}", fty))).done(),
        }
    }

    // ---------------------------------------------------------------- blocks
    fn block(&mut self, owner: DefId, body: &Body<'tcx>, bb: &BasicBlockData<'tcx>) -> J {
        if bb.is_cleanup {
            return J::obj().f("cleanup", J::Bool(true)).done();
        }
        let mut stmts = Vec::new();
        for st in &bb.statements {
            let j = match &st.kind {
                StatementKind::Assign(b) => {
                    let (p, rv) = &**b;
                    Some(
                        J::obj()
                            .f("k", J::s("assign"))
                            .f("place", self.place(body, p))
                            .f("rv", self.rvalue(owner, body, rv))
                            .f("line", J::Int(self.line(st.source_info.span)))
                            .done(),
                    )
                }
                StatementKind::SetDiscriminant { place, variant_index } => Some(
                    J::obj()
                        .f("k", J::s("set_discr"))
                        .f("place", self.place(body, place))
                        .f("variant", J::Int(variant_index.as_usize() as i128))
                        .done(),
                ),
                StatementKind::StorageLive(l) => {
                    Some(J::obj().f("k", J::s("live")).f("l", J::Int(l.as_usize() as i128)).done())
                }
                StatementKind::StorageDead(l) => {
                    Some(J::obj().f("k", J::s("dead")).f("l", J::Int(l.as_usize() as i128)).done())
                }
                StatementKind::Intrinsic(i) => {
                    Some(J::obj().f("k", J::s("intrinsic")).f("s", J::s(format!("{:?}", i))).done())
                }
                StatementKind::Nop
                | StatementKind::FakeRead(..)
                | StatementKind::PlaceMention(..)
                | StatementKind::AscribeUserType(..)
                | StatementKind::Coverage(..)
                | StatementKind::ConstEvalCounter
                | StatementKind::BackwardIncompatibleDropHint { .. } => None,
            };
            if let Some(j) = j {
                stmts.push(j);
            }
        }
        let term = bb.terminator();
        let line = self.line(term.source_info.span);
        let exp = term.source_info.span.from_expansion();
        let tj = match &term.kind {
            TerminatorKind::Goto { target } => {
                J::obj().f("k", J::s("goto")).f("target", J::Int(target.as_usize() as i128))
            }
            TerminatorKind::SwitchInt { discr, targets } => {
                let mut ts = Vec::new();
                for (v, t) in targets.iter() {
                    ts.push(J::Arr(vec![J::Int(v as i128), J::Int(t.as_usize() as i128)]));
                }
                let dty = discr.ty(&body.local_decls, self.tcx);
                let dtj = self.ty(dty);
                J::obj()
                    .f("k", J::s("switch"))
                    .f("discr", self.operand(owner, body, discr))
                    .f("dty", dtj)
                    .f("targets", J::Arr(ts))
                    .f("otherwise", J::Int(targets.otherwise().as_usize() as i128))
            }
            TerminatorKind::Return => J::obj().f("k", J::s("return")),
            TerminatorKind::Unreachable => J::obj().f("k", J::s("unreachable")),
            TerminatorKind::Drop { place, target, .. } => J::obj()
                .f("k", J::s("drop"))
                .f("place", self.place(body, place))
                .f("target", J::Int(target.as_usize() as i128)),
            TerminatorKind::Call { func, args, destination, target, fn_span, .. } => {
                let argsj: Vec<J> = args.iter().map(|a| self.operand(owner, body, &a.node)).collect();
                J::obj()
                    .f("k", J::s("call"))
                    .f("callee", self.callee(owner, body, func))
                    .f("args", J::Arr(argsj))
                    .f("dest", self.place(body, destination))
                    .f("target", match target { Some(t) => J::Int(t.as_usize() as i128), None => J::Null })
                    .f("fn_line", J::Int(self.line(*fn_span)))
            }
            TerminatorKind::Assert { cond, expected, msg, target, .. } => {
                let kind = match &**msg {
                    AssertKind::BoundsCheck { len, index } => J::obj()
                        .f("k", J::s("bounds"))
                        .f("len", self.operand(owner, body, len))
                        .f("index", self.operand(owner, body, index))
                        .done(),
                    AssertKind::Overflow(op, a, b) => J::obj()
                        .f("k", J::s("overflow"))
                        .f("op", J::s(format!("{:?}", op)))
                        .f("a", self.operand(owner, body, a))
                        .f("b", self.operand(owner, body, b))
                        .done(),
                    AssertKind::OverflowNeg(a) => {
                        J::obj().f("k", J::s("overflow_neg")).f("a", self.operand(owner, body, a)).done()
                    }
                    AssertKind::DivisionByZero(a) => {
                        J::obj().f("k", J::s("div_zero")).f("a", self.operand(owner, body, a)).done()
                    }
                    AssertKind::RemainderByZero(a) => {
                        J::obj().f("k", J::s("rem_zero")).f("a", self.operand(owner, body, a)).done()
                    }
                    other => J::obj().f("k", J::s("other")).f("s", J::s(format!("{:?}", other))).done(),
                };
                J::obj()
                    .f("k", J::s("assert"))
                    .f("cond", self.operand(owner, body, cond))
                    .f("expected", J::Bool(*expected))
                    .f("msg", kind)
                    .f("target", J::Int(target.as_usize() as i128))
            }
            TerminatorKind::FalseEdge { real_target, .. } => {
                J::obj().f("k", J::s("goto")).f("target", J::Int(real_target.as_usize() as i128))
            }
            TerminatorKind::FalseUnwind { real_target, .. } => {
                J::obj().f("k", J::s("goto")).f("target", J::Int(real_target.as_usize() as i128))
            }
            other => J::obj().f("k", J::s("other")).f("s", J::s(format!("{:?}", other))),
        };
        J::obj()
            .f("stmts", J::Arr(stmts))
            .f("term", tj.f("line", J::Int(line)).f("exp", J::Bool(exp)).done())
            .done()
    }

    fn line(&self, sp: Span) -> i128 {
        // line of the outermost call site in the user's source when the span comes from a macro
        let sp = sp.source_callsite();
        let sm = self.tcx.sess.source_map();
        sm.lookup_char_pos(sp.lo()).line as i128
    }

    fn body(&mut self, owner: DefId, body: &Body<'tcx>) -> J {
        let mut locals = Vec::new();
        for (_, d) in body.local_decls.iter_enumerated() {
            let t = self.ty(d.ty);
            locals.push(J::obj().f("ty", t).f("mut", J::Bool(d.mutability.is_mut())).done());
        }
        let mut names = Vec::new();
        for vdi in &body.var_debug_info {
            if let mir::VarDebugInfoContents::Place(p) = &vdi.value {
                names.push(
                    J::obj()
                        .f("name", J::s(vdi.name.to_string()))
                        .f("place", self.place(body, p))
                        .done(),
                );
            }
        }
        let mut blocks = Vec::new();
        for (_, bb) in body.basic_blocks.iter_enumerated() {
            blocks.push(self.block(owner, body, bb));
        }
        J::obj()
            .f("arg_count", J::Int(body.arg_count as i128))
            .f("locals", J::Arr(locals))
            .f("names", J::Arr(names))
            .f("blocks", J::Arr(blocks))
            .done()
    }

    // ---------------------------------------------------------------- crate
    fn dump_crate(&mut self) -> J {
        let tcx = self.tcx;
        let mut bodies = Vec::new();
        let mut consts = Vec::new();
        let owners: Vec<_> = tcx.hir_body_owners().collect();
        for ldid in owners {
            let did = ldid.to_def_id();
            let kind = tcx.def_kind(did);
            match kind {
                DefKind::Fn | DefKind::AssocFn | DefKind::Closure => {
                    let body = tcx.optimized_mir(did);
                    let mut o = J::obj()
                        .f("path", J::s(self.path(did)))
                        .f("kind", J::s(format!("{:?}", kind)))
                        .f("span", self.span(tcx.def_span(did)))
                        .f("body_span", self.span(body.span));
                    if matches!(kind, DefKind::Fn | DefKind::AssocFn) {
                        o = o.f("vis", J::s(format!("{:?}", tcx.visibility(did))));
                        let sig = tcx.fn_sig(did).instantiate_identity().skip_norm_wip();
                        o = o.f("unsafe", J::Bool(!sig.safety().is_safe()));
                        o = o.f("name", J::s(tcx.item_name(did).to_string()));
                    }
                    {
                        // names of the type/const generic parameters, in the order generic args are dumped
                        let gdid = if kind == DefKind::Closure { tcx.typeck_root_def_id(did) } else { did };
                        let g = tcx.generics_of(gdid);
                        let mut names = Vec::new();
                        for i in 0..g.count() {
                            let p = g.param_at(i, tcx);
                            if !matches!(p.kind, ty::GenericParamDefKind::Lifetime) {
                                names.push(J::s(p.name.to_string()));
                            }
                        }
                        o = o.f("generics", J::Arr(names));
                    }
                    if kind == DefKind::Closure {
                        let parent = tcx.typeck_root_def_id(did);
                        o = o.f("parent", J::s(self.path(parent)));
                    }
                    if let Some(im) = tcx.impl_of_assoc(did) {
                        let self_ty = tcx.type_of(im).instantiate_identity().skip_norm_wip();
                        let stj = self.ty(self_ty);
                        o = o.f("impl_self", J::s(format!("{}", self_ty))).f("impl_self_ty", stj);
                        if let Some(tr) = tcx.impl_opt_trait_ref(im) {
                            let tr = tr.instantiate_identity().skip_norm_wip();
                            let ga = self.gargs(tr.args);
                            o = o
                                .f("impl_trait", J::s(self.path(tr.def_id)))
                                .f("impl_trait_args", ga)
                                .f("impl_trait_full", J::s(format!("{}", tr)));
                        }
                    }
                    if let Some(tr) = tcx.trait_of_assoc(did) {
                        o = o.f("trait_default_of", J::s(self.path(tr)));
                    }
                    // uninhabited parameter => dead body
                    let mut dead = false;
                    for l in body.args_iter() {
                        let t = body.local_decls[l].ty;
                        if let ty::Adt(adt, _) = t.kind() {
                            if adt.is_enum() && adt.variants().is_empty() {
                                dead = true;
                            }
                        }
                        if t.is_never() {
                            dead = true;
                        }
                    }
                    o = o.f("dead", J::Bool(dead));
                    let bj = self.body(did, body);
                    o = o.f("mir", bj);
                    // promoted
                    let proms = tcx.promoted_mir(did);
                    let mut pv = Vec::new();
                    for (_, pb) in proms.iter_enumerated() {
                        pv.push(self.body(did, pb));
                    }
                    o = o.f("promoted", J::Arr(pv));
                    bodies.push(o.done());
                }
                DefKind::Const { .. } | DefKind::AssocConst { .. } | DefKind::Static { .. } => {
                    consts.push(self.const_item(did, kind));
                }
                _ => {}
            }
        }
        // impls, type aliases, traits
        let mut impls = Vec::new();
        let mut aliases = Vec::new();
        let mut adts = Vec::new();
        for id in tcx.hir_crate_items(()).definitions() {
            let did = id.to_def_id();
            match tcx.def_kind(did) {
                DefKind::Impl { of_trait } => {
                    let self_ty = tcx.type_of(did).instantiate_identity().skip_norm_wip();
                    let stj = self.ty(self_ty);
                    let mut o = J::obj()
                        .f("self", J::s(format!("{}", self_ty)))
                        .f("self_ty", stj)
                        .f("span", self.span(tcx.def_span(did)));
                    if of_trait {
                        if let Some(tr) = tcx.impl_opt_trait_ref(did) {
                            let tr = tr.instantiate_identity().skip_norm_wip();
                            let ga = self.gargs(tr.args);
                            o = o
                                .f("trait", J::s(self.path(tr.def_id)))
                                .f("trait_args", ga)
                                .f("trait_full", J::s(format!("{}", tr)));
                        }
                    }
                    let mut items = Vec::new();
                    for it in tcx.associated_items(did).in_definition_order() {
                        items.push(
                            J::obj()
                                .f("name", J::s(it.name().to_string()))
                                .f("path", J::s(self.path(it.def_id)))
                                .f("kind", J::s(format!("{:?}", tcx.def_kind(it.def_id))))
                                .done(),
                        );
                    }
                    impls.push(o.f("items", J::Arr(items)).done());
                }
                DefKind::TyAlias => {
                    let t = tcx.type_of(did).instantiate_identity().skip_norm_wip();
                    let tj = self.ty(t);
                    aliases.push(
                        J::obj()
                            .f("path", J::s(self.path(did)))
                            .f("s", J::s(format!("{}", t)))
                            .f("ty", tj)
                            .done(),
                    );
                }
                DefKind::Struct | DefKind::Enum => {
                    let t = tcx.type_of(did).instantiate_identity().skip_norm_wip();
                    let tj = self.ty(t);
                    adts.push(J::obj().f("path", J::s(self.path(did))).f("ty", tj).done());
                }
                _ => {}
            }
        }
        J::obj()
            .f("crate", J::s(tcx.crate_name(LOCAL_CRATE).to_string()))
            .f("bodies", J::Arr(bodies))
            .f("consts", J::Arr(consts))
            .f("impls", J::Arr(impls))
            .f("aliases", J::Arr(aliases))
            .f("adts", J::Arr(adts))
            .f("types", J::Arr(std::mem::take(&mut self.ty_tab)))
            .done()
    }

    fn const_item(&mut self, did: DefId, kind: DefKind) -> J {
        let tcx = self.tcx;
        let t = tcx.type_of(did).instantiate_identity().skip_norm_wip();
        let tj = self.ty(t);
        let mut o = J::obj()
            .f("path", J::s(self.path(did)))
            .f("kind", J::s(format!("{:?}", kind)))
            .f("ty", tj)
            .f("ty_s", J::s(format!("{}", t)))
            .f("span", self.span(tcx.def_span(did)));
        if let Some(im) = tcx.impl_of_assoc(did) {
            let self_ty = tcx.type_of(im).instantiate_identity().skip_norm_wip();
            o = o.f("impl_self", J::s(format!("{}", self_ty)));
            o = o.f("name", J::s(tcx.item_name(did).to_string()));
        }
        let generic = tcx.generics_of(did).requires_monomorphization(tcx);
        let val = if matches!(kind, DefKind::Static { .. }) {
            J::Null
        } else if generic {
            J::obj().f("generic", J::Bool(true)).done()
        } else {
            match tcx.const_eval_poly(did) {
                Ok(v) => self.const_value(v, t),
                Err(_) => J::obj().f("error", J::Bool(true)).done(),
            }
        };
        o.f("v", val).done()
    }
}
