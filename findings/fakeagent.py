"""
Minimal fake SNMPv3 agent used by the C10 demonstrations.

It answers every request received on a UDP socket bound to 127.0.0.1 with the
list of datagrams produced by a user-supplied responder.  All replies are
HMAC-MD5-96 signed with the correct localized key unless stated otherwise, so
that the only thing "wrong" with a forged reply is the field the demo is about.
"""

import hashlib
import hmac
import socket
import threading
from dataclasses import dataclass
from typing import Callable, List, Optional, Tuple

# ---------------------------------------------------------------- BER encode


def _len(n: int) -> bytes:
    if n < 0x80:
        return bytes([n])
    b = n.to_bytes((n.bit_length() + 7) // 8, "big")
    return bytes([0x80 | len(b)]) + b


def tlv(tag: int, content: bytes) -> bytes:
    return bytes([tag]) + _len(len(content)) + content


def ber_int(v: int) -> bytes:
    n = max(1, (v.bit_length() + 8) // 8)  # room for the sign bit
    return tlv(0x02, v.to_bytes(n, "big", signed=True))


def ber_str(v: bytes) -> bytes:
    return tlv(0x04, v)


def ber_oid(oid: str) -> bytes:
    parts = [int(x) for x in oid.split(".")]
    out = bytearray([parts[0] * 40 + parts[1]])
    for p in parts[2:]:
        chunk = [p & 0x7F]
        p >>= 7
        while p:
            chunk.append(0x80 | (p & 0x7F))
            p >>= 7
        out.extend(reversed(chunk))
    return tlv(0x06, bytes(out))


# ---------------------------------------------------------------- BER decode


def read_tlv(data: bytes, pos: int = 0) -> Tuple[int, bytes, int]:
    """Returns (tag, content, next position)."""
    tag = data[pos]
    ln = data[pos + 1]
    pos += 2
    if ln & 0x80:
        n = ln & 0x7F
        ln = int.from_bytes(data[pos : pos + n], "big")
        pos += n
    return tag, data[pos : pos + ln], pos + ln


def read_seq(data: bytes) -> List[Tuple[int, bytes]]:
    out = []
    pos = 0
    while pos < len(data):
        tag, content, pos = read_tlv(data, pos)
        out.append((tag, content))
    return out


def to_int(b: bytes) -> int:
    return int.from_bytes(b, "big", signed=True)


# ---------------------------------------------------------------- USM keys


def localized_md5_key(password: bytes, engine_id: bytes) -> bytes:
    """RFC 3414 A.2.1 password to key + localization."""
    n, rem = divmod(1_048_576, len(password))
    h = hashlib.md5()
    h.update(password * n + password[:rem])
    master = h.digest()
    return hashlib.md5(master + engine_id + master).digest()


# ---------------------------------------------------------------- messages


@dataclass
class Request:
    raw: bytes
    msg_id: int
    flags: int
    engine_id: bytes
    user_name: bytes
    pdu_tag: int
    request_id: int


def parse_request(data: bytes) -> Request:
    """Parse a plaintext (noPriv) SNMPv3 request."""
    _, body, _ = read_tlv(data)
    items = read_seq(body)  # version, header, secparams, scoped pdu
    header = read_seq(items[1][1])
    usm = read_seq(read_tlv(items[2][1])[1])
    scoped = read_seq(items[3][1])
    pdu_tag, pdu_body = scoped[2]
    pdu = read_seq(pdu_body)
    return Request(
        raw=data,
        msg_id=to_int(header[0][1]),
        flags=header[2][1][0],
        engine_id=usm[0][1],
        user_name=usm[3][1],
        pdu_tag=pdu_tag,
        request_id=to_int(pdu[0][1]),
    )


def build_reply(
    *,
    msg_id: int,
    request_id: int,
    engine_id: bytes,
    user_name: bytes,
    oid: str,
    value: bytes,
    auth_key: Optional[bytes],
    flags: int = 0x01,
    boots: int = 1,
    time: int = 100,
    pdu_tag: int = 0xA2,
    context_engine_id: Optional[bytes] = None,
) -> bytes:
    """
    Build an authNoPriv SNMPv3 message carrying a GetResponse with one
    OCTET STRING varbind.  When `auth_key` is given the message gets a valid
    HMAC-MD5-96 msgAuthenticationParameters.
    """
    placeholder = b"\x00" * 12 if auth_key else b""
    varbinds = tlv(0x30, tlv(0x30, ber_oid(oid) + ber_str(value)))
    pdu = tlv(pdu_tag, ber_int(request_id) + ber_int(0) + ber_int(0) + varbinds)
    ctx = engine_id if context_engine_id is None else context_engine_id
    scoped = tlv(0x30, ber_str(ctx) + ber_str(b"") + pdu)
    usm = tlv(
        0x30,
        ber_str(engine_id)
        + ber_int(boots)
        + ber_int(time)
        + ber_str(user_name)
        + ber_str(placeholder)
        + ber_str(b""),
    )
    header = tlv(
        0x30,
        ber_int(msg_id) + ber_int(2048) + ber_str(bytes([flags])) + ber_int(3),
    )
    msg = tlv(0x30, ber_int(3) + header + ber_str(usm) + scoped)
    if auth_key:
        mac = hmac.new(auth_key, msg, hashlib.md5).digest()[:12]
        idx = msg.index(b"\x04\x0c" + placeholder) + 2
        msg = msg[:idx] + mac + msg[idx + 12 :]
    return msg


# ---------------------------------------------------------------- agent


class FakeAgent(threading.Thread):
    """Replies to each request with the datagrams returned by `responder`."""

    def __init__(
        self, responder: Callable[[Request], List[bytes]], n_requests: int = 1
    ) -> None:
        super().__init__(daemon=True)
        self.sock = socket.socket(socket.AF_INET, socket.SOCK_DGRAM)
        self.sock.bind(("127.0.0.1", 0))
        self.sock.settimeout(3.0)
        self.port = self.sock.getsockname()[1]
        self.responder = responder
        self.n_requests = n_requests
        self.requests: List[Request] = []

    def run(self) -> None:
        try:
            for _ in range(self.n_requests):
                data, peer = self.sock.recvfrom(65535)
                req = parse_request(data)
                self.requests.append(req)
                for dgram in self.responder(req):
                    self.sock.sendto(dgram, peer)
        except socket.timeout:
            pass
        finally:
            self.sock.close()
