// Witness inputs for the defects repaired by the "fix:" commits in /repo.
//
// Not a registered check and not part of any verdict: this file documents, as
// executable tests, the concrete input that failed on the pinned tree for each
// repaired defect.  findings/run_witness.sh compiles it into a scratch copy of
// a given commit (as `#[cfg(test)] mod witness`) and runs it: every test fails
// (panics or asserts) on ed2c78c and passes on the repaired tree.
use crate::ber::{
    BerDecoder, BerEncoder, BerHeader, SnmpInt, SnmpOid, SnmpReal, SnmpRelativeOid,
};
use crate::buf::Buffer;
use crate::snmp::get::SnmpGet;
use crate::snmp::getresponse::SnmpGetResponse;
use crate::snmp::msg::v3::{ScopedPdu, UsmParameters};
use crate::snmp::pdu::SnmpPdu;
use crate::snmp::value::SnmpValue;

fn enc(v: i64) -> Vec<u8> {
    let mut buf = Buffer::default();
    let x: SnmpInt = v.into();
    x.push_ber(&mut buf).unwrap();
    buf.data().to_vec()
}

// D1: truncated headers
#[test]
fn d1_header_long_tag_truncated() {
    assert!(BerHeader::from_ber(&[0x1f, 0x80]).is_err());
}
#[test]
fn d1_header_length_octet_missing() {
    assert!(BerHeader::from_ber(&[0x1f, 0x01]).is_err());
}
#[test]
fn d1_header_long_length_truncated() {
    assert!(BerHeader::from_ber(&[0x04, 0x81]).is_err());
    assert!(BerHeader::from_ber(&[0x04, 0x82, 0x01]).is_err());
}

// D2: empty varbind
#[test]
fn d2_empty_varbind() {
    // request-id 1, error-status 0, error-index 0, varbinds { SEQUENCE {} }
    let pdu = [2u8, 1, 1, 2, 1, 0, 2, 1, 0, 0x30, 2, 0x30, 0];
    assert!(SnmpGetResponse::try_from(&pdu[..]).is_err());
}

// D3: relative OID after an absolute one
fn resp_with(vb2: &[u8]) -> Vec<u8> {
    // first varbind: 1.3.6 = NULL
    let mut vbs = vec![0x30u8, 6, 6, 2, 0x2b, 6, 5, 0];
    vbs.extend_from_slice(vb2);
    let mut pdu = vec![2u8, 1, 1, 2, 1, 0, 2, 1, 0, 0x30, vbs.len() as u8];
    pdu.extend_from_slice(&vbs);
    pdu
}
#[test]
fn d3_relative_oid_single_octet() {
    let pdu = resp_with(&[0x30, 5, 0x0d, 1, 7, 5, 0]);
    let _ = SnmpGetResponse::try_from(&pdu[..]);
}
#[test]
fn d3_relative_oid_u8_overflow() {
    let pdu = resp_with(&[0x30, 8, 0x0d, 4, 7, 7, 7, 7, 5, 0]);
    let _ = SnmpGetResponse::try_from(&pdu[..]);
}
#[test]
fn d3_relative_oid_after_empty_oid() {
    let vbs = [0x30u8, 4, 6, 0, 5, 0, 0x30, 5, 0x0d, 1, 7, 5, 0];
    let mut pdu = vec![2u8, 1, 1, 2, 1, 0, 2, 1, 0, 0x30, vbs.len() as u8];
    pdu.extend_from_slice(&vbs);
    let _ = SnmpGetResponse::try_from(&pdu[..]);
}

// D4: AES salt length
#[test]
fn d4_aes_short_salt() {
    use crate::privacy::{PrivKey, SnmpPriv};
    let mut pk = PrivKey::new(2).unwrap();
    pk.as_localized(&[7u8; 16]).unwrap();
    let usm = UsmParameters {
        engine_id: &[],
        engine_boots: 1,
        engine_time: 2,
        user_name: &[],
        auth_params: &[],
        privacy_params: &[1, 2, 3, 4, 5, 6, 7],
    };
    assert!(pk.decrypt(&[0u8; 16], &usm).is_err());
}

// D6: 8-octet negative INTEGER
#[test]
fn d6_int_decode_8_octets() {
    let data = [2u8, 8, 0xff, 0xff, 0xff, 0xff, 0xff, 0xff, 0xff, 0xfe];
    let (_, v) = SnmpInt::from_ber(&data).unwrap();
    assert_eq!(i64::from(v), -2);
    let data = [2u8, 8, 0x80, 0, 0, 0, 0, 0, 0, 0];
    let (_, v) = SnmpInt::from_ber(&data).unwrap();
    assert_eq!(i64::from(v), i64::MIN);
}

// D7: REAL
#[test]
fn d7_real_in_varbind() {
    let data = [9u8, 3, 1, 0x31, 0x32];
    let (tail, v) = SnmpValue::from_ber(&data).unwrap();
    assert!(tail.is_empty());
    match v {
        SnmpValue::Real(x) => assert_eq!(f64::from(x), 12.0),
        _ => panic!("real expected"),
    }
}
#[test]
fn d7_real_followed_by_other_element() {
    let data = [9u8, 3, 1, 0x31, 0x32, 5, 0];
    let (tail, v) = SnmpReal::from_ber(&data).unwrap();
    assert_eq!(tail, &[5u8, 0]);
    assert_eq!(f64::from(v), 12.0);
}
#[test]
fn d7_real_binary_truncated() {
    let data = [9u8, 1, 0x83];
    assert!(SnmpReal::from_ber(&data).is_err());
}

// D8: OID text
#[test]
fn d8_oid_second_arc_clamped() {
    match SnmpOid::try_from("1.40.1") {
        Err(_) => {}
        Ok(oid) => assert_ne!(oid.0.as_ref(), &[0x4fu8, 1][..]), // 0x4f 01 is 1.39.1
    }
}
#[test]
fn d8_oid_first_arc() {
    assert!(SnmpOid::try_from("6.39.1").is_err());
    assert!(SnmpOid::try_from("3.1.1").is_err());
}

// D9: second DES request of a session
#[test]
fn d9_des_second_encrypt() {
    use crate::privacy::{PrivKey, SnmpPriv};
    let mut pk = PrivKey::new(1).unwrap();
    pk.as_localized(&[7u8; 16]).unwrap();
    let mk = || ScopedPdu {
        engine_id: &[1, 2, 3],
        pdu: SnmpPdu::GetRequest(SnmpGet {
            request_id: 1,
            vars: vec![SnmpOid::try_from("1.3.6.1.2.1.1.5.0").unwrap()],
        }),
    };
    let n1 = pk.encrypt(&mk(), 1, 2).unwrap().0.len();
    let n2 = pk.encrypt(&mk(), 1, 2).unwrap().0.len();
    assert_eq!(n1, n2);
}

// D10: key material
#[test]
fn d10_empty_password() {
    use crate::auth::AuthKey;
    let mut k = AuthKey::new(1).unwrap();
    assert!(k.as_key_type(1, b"", b"engine").is_err());
}
#[test]
fn d10_short_localized_key() {
    use crate::auth::AuthKey;
    let mut k = AuthKey::new(1).unwrap();
    assert!(k.as_key_type(0x81, b"12345", b"engine").is_err());
}

// D11: negative INTEGER encoding
#[test]
fn d11_int_encode_negative() {
    assert_eq!(enc(-32767), vec![2u8, 2, 0x80, 0x01]);
    assert_eq!(enc(-129), vec![2u8, 2, 0xff, 0x7f]);
    assert_eq!(enc(-128), vec![2u8, 1, 0x80]);
    assert_eq!(enc(-1), vec![2u8, 1, 0xff]);
    assert_eq!(enc(-256), vec![2u8, 2, 0xff, 0x00]);
}
#[test]
fn d11_int_encode_min() {
    assert_eq!(enc(i64::MIN), vec![2u8, 8, 0x80, 0, 0, 0, 0, 0, 0, 0]);
}
#[test]
fn d11_int_roundtrip_neighbourhoods() {
    for k in 1..8u32 {
        for base in [-(1i64 << (8 * k - 1)), -(1i64 << (8 * k))] {
            for d in -300i64..300 {
                let v = base + d;
                let e = enc(v);
                let (_, x) = SnmpInt::from_ber(&e).unwrap();
                assert_eq!(i64::from(x), v, "value {}", v);
            }
        }
    }
}

// D12: walk monotonicity (GetIter is constructed through its Python
// constructor only, so the witness exercises the comparison it now relies on)
#[test]
fn d12_oid_order() {
    use std::cmp::Ordering;
    let a = SnmpOid::try_from("1.3.6.1.16383").unwrap();
    let b = SnmpOid::try_from("1.3.6.1.16384").unwrap();
    assert_eq!(a.cmp_arcs(&b), Ordering::Less);
    assert_eq!(b.cmp_arcs(&a), Ordering::Greater);
    assert_eq!(a.cmp_arcs(&a), Ordering::Equal);
    let p = SnmpOid::try_from("1.3.6.1").unwrap();
    assert_eq!(p.cmp_arcs(&a), Ordering::Less);
}

// helper used by d3 to keep SnmpRelativeOid imported on both trees
#[allow(dead_code)]
fn _touch(_: Option<SnmpRelativeOid>) {}

// D17: binary REAL (X.690 8.5.7): two's complement exponent, F = 0, mantissa wider than 32 bits
#[test]
fn d17_real_binary() {
    // 09 03 80 ff 01 : base 2, F=0, exponent -1, N=1 -> 0.5
    let (_, v) = SnmpReal::from_ber(&[9u8, 3, 0x80, 0xff, 0x01]).unwrap();
    assert_eq!(f64::from(v), 0.5);
    // 09 03 c0 01 03 : sign -, base 2, exponent 1, N=3 -> -6
    let (_, v) = SnmpReal::from_ber(&[9u8, 3, 0xc0, 0x01, 0x03]).unwrap();
    assert_eq!(f64::from(v), -6.0);
    // 09 07 80 00 01 00 00 00 00 : exponent 0, N = 2^32
    let (_, v) = SnmpReal::from_ber(&[9u8, 7, 0x80, 0x00, 0x01, 0, 0, 0, 0]).unwrap();
    assert_eq!(f64::from(v), 4294967296.0);
    // 09 04 83 01 02 05 : exponent length in the next octet (1), exponent 2, N = 5 -> 20
    let (_, v) = SnmpReal::from_ber(&[9u8, 4, 0x83, 0x01, 0x02, 0x05]).unwrap();
    assert_eq!(f64::from(v), 20.0);
}
