"""Witnesses for the recorded known findings (not a registered check; documentation only).

Run with the extension built from the tree under test:
    cd <tree> && cargo build --offline && cp target/debug/libgufo_snmp.so src/gufo/snmp/_fast.so
    PYTHONPATH=<tree>/src:/verif/findings python3 /verif/findings/demo_c10_c18.py
Each scenario prints FINDING when the library shows the recorded defect and OK when it does not.

  forged_mac           C10.mac   a reply with an all-zero MAC is delivered to an authenticated session
  noauth_flag          C10.flag  a reply flagged noAuthNoPriv (no MAC at all) is delivered to an authenticated session
  plaintext_with_priv  C10.priv  a plaintext reply is delivered to a session configured with a privacy key
  stray_datagrams      C18.deadline  non-matching datagrams every 0.2 s keep get(timeout=0.5) from timing out
"""
import socket
import sys
import threading
import time

from fakeagent import FakeAgent, Request, build_reply, localized_md5_key, read_seq, read_tlv, tlv, ber_int, ber_str, ber_oid, to_int
from usm_probe import V3Packet, aes_cfb_decrypt, children
from usm_probe import tlv as tlv2
from gufo.snmp import Aes128Key, Md5Key, User
from gufo.snmp.sync_client import SnmpSession
from gufo.snmp import SnmpVersion

ENGINE_ID = bytes.fromhex("8000b85c03aabbccddeeff")
USER = "user10"
PASSWORD = b"user10password"
PRIV_PASSWORD = b"user10privpass"
OID = "1.3.6.1.2.1.1.6.0"
KEY = localized_md5_key(PASSWORD, ENGINE_ID)
PRIV_KEY = localized_md5_key(PRIV_PASSWORD, ENGINE_ID)


def run(name, fn):
    try:
        r = fn()
    except Exception as e:  # noqa: BLE001
        r = "exception %r" % (e,)
    print("%-22s %s" % (name, r))
    return r


def forged_mac():
    def responder(req: Request):
        msg = build_reply(msg_id=req.msg_id, request_id=req.request_id, engine_id=ENGINE_ID, user_name=req.user_name, oid=OID,
                          value=b"FORGED", auth_key=KEY)
        # overwrite the valid MAC with zeros
        mac_at = msg.index(b"\x04\x0c", msg.index(req.user_name)) + 2
        return [msg[:mac_at] + b"\x00" * 12 + msg[mac_at + 12:]]
    agent = FakeAgent(responder)
    agent.start()
    s = SnmpSession("127.0.0.1", port=agent.port, engine_id=ENGINE_ID, user=User(USER, auth_key=Md5Key(PASSWORD)), timeout=1.0)
    try:
        v = s.get(OID)
    except TimeoutError:
        return "OK (dropped)"
    return "FINDING: get() returned %r from a reply whose MAC is all zeros" % (v,)


def noauth_flag():
    def responder(req: Request):
        return [build_reply(msg_id=req.msg_id, request_id=req.request_id, engine_id=ENGINE_ID, user_name=req.user_name, oid=OID,
                            value=b"FORGED", auth_key=None, flags=0x00)]
    agent = FakeAgent(responder)
    agent.start()
    s = SnmpSession("127.0.0.1", port=agent.port, engine_id=ENGINE_ID, user=User(USER, auth_key=Md5Key(PASSWORD)), timeout=1.0)
    try:
        v = s.get(OID)
    except TimeoutError:
        return "OK (dropped)"
    return "FINDING: get() returned %r from a reply flagged noAuthNoPriv with empty msgAuthenticationParameters" % (v,)


def plaintext_with_priv():
    out = {}

    class Agent(threading.Thread):
        def __init__(self):
            super().__init__(daemon=True)
            self.sock = socket.socket(socket.AF_INET, socket.SOCK_DGRAM)
            self.sock.bind(("127.0.0.1", 0))
            self.sock.settimeout(3.0)
            self.port = self.sock.getsockname()[1]

        def run(self):
            try:
                raw, peer = self.sock.recvfrom(65535)
            except socket.timeout:
                return
            pkt = V3Packet(raw)
            out["request_flags"] = pkt.flags
            pt = pkt.aes_plaintext(PRIV_KEY)  # the agent legitimately knows the keys
            _, body, _ = tlv2(pt)
            pdu = children(body)[2]
            rid = int.from_bytes(children(pdu[1])[0][1], "big", signed=True)
            reply = build_reply(msg_id=pkt.msg_id, request_id=rid, engine_id=ENGINE_ID, user_name=pkt.user, oid=OID, value=b"IN-CLEAR",
                                auth_key=KEY, flags=0x01)  # authNoPriv: scoped PDU in clear
            self.sock.sendto(reply, peer)
    agent = Agent()
    agent.start()
    s = SnmpSession("127.0.0.1", port=agent.port, engine_id=ENGINE_ID,
                    user=User(USER, auth_key=Md5Key(PASSWORD), priv_key=Aes128Key(PRIV_PASSWORD)), timeout=1.5)
    try:
        v = s.get(OID)
    except TimeoutError:
        return "OK (dropped)"
    return "FINDING: get() returned %r from a plaintext reply although the session uses AES privacy (request flags 0x%02x)" % (v, out.get("request_flags", 0))


def stray_datagrams():
    def v2c_reply(request_id, value):
        vb = tlv(0x30, tlv(0x30, ber_oid(OID) + ber_str(value)))
        pdu = tlv(0xA2, ber_int(request_id) + ber_int(0) + ber_int(0) + vb)
        return tlv(0x30, ber_int(1) + ber_str(b"public") + pdu)

    class Agent(threading.Thread):
        def __init__(self):
            super().__init__(daemon=True)
            self.sock = socket.socket(socket.AF_INET, socket.SOCK_DGRAM)
            self.sock.bind(("127.0.0.1", 0))
            self.sock.settimeout(3.0)
            self.port = self.sock.getsockname()[1]

        def run(self):
            try:
                raw, peer = self.sock.recvfrom(65535)
            except socket.timeout:
                return
            _, body, _ = read_tlv(raw)
            items = read_seq(body)
            rid = to_int(read_seq(items[2][1])[0][1])
            for _ in range(10):  # 2 seconds of stray replies, never the matching one
                time.sleep(0.2)
                self.sock.sendto(v2c_reply((rid + 1) & 0x7FFFFFFF, b"stray"), peer)
    agent = Agent()
    agent.start()
    s = SnmpSession("127.0.0.1", port=agent.port, community="public", version=SnmpVersion.v2c, timeout=0.5)
    t0 = time.monotonic()
    try:
        v = s.get(OID)
        what = "returned %r" % (v,)
    except TimeoutError:
        what = "raised TimeoutError"
    dt = time.monotonic() - t0
    if dt > 1.5:
        return "FINDING: get(timeout=0.5) %s only after %.2f s while stray datagrams arrived every 0.2 s" % (what, dt)
    return "OK (%s after %.2f s)" % (what, dt)


if __name__ == "__main__":
    rs = [run("forged_mac", forged_mac), run("noauth_flag", noauth_flag), run("plaintext_with_priv", plaintext_with_priv),
          run("stray_datagrams", stray_datagrams)]
    sys.exit(0)
