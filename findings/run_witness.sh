#!/bin/bash
# usage: run_witness.sh <commit-ish>   (documentation aid, not a registered check)
# Builds a scratch copy of /repo at <commit>, adds the witness module, runs its tests.
set -e
REV=${1:-HEAD}
D=$(mktemp -d /tmp/witness.XXXXXX)
git -C /repo archive "$REV" | tar -x -C "$D"
cp /verif/findings/witness.rs "$D/src/witness.rs"
printf '\n#[cfg(test)]\nmod witness;\n' >> "$D/src/lib.rs"
# d12 uses an API that exists only on the repaired tree
if ! grep -q cmp_arcs "$D/src/ber/objectid.rs"; then
  python3 - "$D/src/witness.rs" <<'PY'
import sys,re
p=sys.argv[1]; s=open(p).read()
i=s.index("// D12:"); j=s.index("// helper used by d3")
open(p,'w').write(s[:i]+s[j:])
PY
fi
(cd "$D" && CARGO_TARGET_DIR=/verif/.cache/witness-target cargo test --offline --lib witness:: 2>&1 | grep -E "^test witness|^test result|^error" )
rm -rf "$D"
