# Helper for the C12 demonstrations: an independent RFC 3414 reference,
# a tiny BER reader/writer, pure-python AES-128-CFB and a fake SNMPv3 agent
# that answers engine-id discovery and records every later datagram so that
# the keys actually used by the session can be checked from the wire.
import hashlib
import hmac
import socket
import threading

MEGABYTE = 1048576
HASH = {1: "md5", 2: "sha1"}  # library algorithm codes


# --- RFC 3414 A.2 reference ------------------------------------------------
def rfc_master(alg, password):
    h = hashlib.new(HASH[alg])
    idx = 0
    count = 0
    n = len(password)
    while count < MEGABYTE:  # 64-octet blocks, running index (RFC sample code)
        h.update(bytes(password[(idx + i) % n] for i in range(64)))
        idx += 64
        count += 64
    return h.digest()


def rfc_localize(alg, master, engine_id):
    return hashlib.new(HASH[alg], master + engine_id + master).digest()


# --- BER ---------------------------------------------------------------------
def tlv(data, pos=0):
    tag = data[pos]
    ln = data[pos + 1]
    pos += 2
    if ln & 0x80:
        k = ln & 0x7F
        ln = int.from_bytes(data[pos : pos + k], "big")
        pos += k
    return tag, data[pos : pos + ln], pos + ln


def children(data):
    r = []
    pos = 0
    while pos < len(data):
        tag, val, pos = tlv(data, pos)
        r.append((tag, val))
    return r


def enc(tag, value):
    n = len(value)
    if n < 0x80:
        return bytes([tag, n]) + value
    ln = n.to_bytes((n.bit_length() + 7) // 8, "big")
    return bytes([tag, 0x80 | len(ln)]) + ln + value


def enc_int(v):
    return enc(2, v.to_bytes(v.bit_length() // 8 + 1, "big", signed=True))


# --- AES-128 (encryption direction only, enough for CFB) ---------------------
def _xt(a):
    a <<= 1
    return (a ^ 0x11B) & 0xFF if a & 0x100 else a


def _mul(a, b):
    r = 0
    while b:
        if b & 1:
            r ^= a
        a = _xt(a)
        b >>= 1
    return r


def _sbox():
    inv = [0] * 256
    for a in range(1, 256):
        for b in range(1, 256):
            if _mul(a, b) == 1:
                inv[a] = b
                break
    box = []
    for a in range(256):
        x = inv[a]
        y = x
        for _ in range(4):
            y = ((y << 1) | (y >> 7)) & 0xFF
            x ^= y
        box.append(x ^ 0x63)
    return box


SBOX = _sbox()


def _expand(key):
    w = [list(key[i : i + 4]) for i in range(0, 16, 4)]
    rc = 1
    for i in range(4, 44):
        t = list(w[i - 1])
        if i % 4 == 0:
            t = [SBOX[b] for b in t[1:] + t[:1]]
            t[0] ^= rc
            rc = _xt(rc)
        w.append([a ^ b for a, b in zip(w[i - 4], t)])
    return [sum(w[r * 4 : r * 4 + 4], []) for r in range(11)]


def aes_encrypt_block(key, block):
    rk = _expand(key)
    s = [a ^ b for a, b in zip(block, rk[0])]
    for r in range(1, 11):
        s = [SBOX[b] for b in s]
        s = [s[(i + 4 * (i % 4)) % 16] for i in range(16)]  # shift rows
        if r < 10:
            o = []
            for c in range(4):
                a = s[4 * c : 4 * c + 4]
                o += [
                    _mul(a[0], 2) ^ _mul(a[1], 3) ^ a[2] ^ a[3],
                    a[0] ^ _mul(a[1], 2) ^ _mul(a[2], 3) ^ a[3],
                    a[0] ^ a[1] ^ _mul(a[2], 2) ^ _mul(a[3], 3),
                    _mul(a[0], 3) ^ a[1] ^ a[2] ^ _mul(a[3], 2),
                ]
            s = o
        s = [a ^ b for a, b in zip(s, rk[r])]
    return bytes(s)


assert (
    aes_encrypt_block(
        bytes.fromhex("000102030405060708090a0b0c0d0e0f"),
        bytes.fromhex("00112233445566778899aabbccddeeff"),
    ).hex()
    == "69c4e0d86a7b0430d8cdb78070b4c55a"
)  # FIPS-197 C.1


def aes_cfb_decrypt(key, iv, data):
    out = b""
    prev = iv
    for i in range(0, len(data), 16):
        c = data[i : i + 16]
        ks = aes_encrypt_block(key, prev)
        out += bytes(a ^ b for a, b in zip(c, ks))
        prev = c
    return out


# --- SNMPv3 message inspection -----------------------------------------------
class V3Packet(object):
    def __init__(self, raw):
        self.raw = raw
        _, top, _ = tlv(raw)
        ver, hdr, sec, data = children(top)
        h = children(hdr[1])
        self.msg_id = int.from_bytes(h[0][1], "big", signed=True)
        self.flags = h[2][1][0]
        usm = children(children(sec[1])[0][1])
        self.engine_id = usm[0][1]
        self.boots = int.from_bytes(usm[1][1], "big")
        self.time = int.from_bytes(usm[2][1], "big")
        self.user = usm[3][1]
        self.auth_params = usm[4][1]
        self.priv_params = usm[5][1]
        self.data_tag, self.data = data

    @property
    def has_auth(self):
        return bool(self.flags & 1)

    @property
    def has_priv(self):
        return bool(self.flags & 2)

    def auth_ok(self, alg, localized_key):
        """Check HMAC-96 with an independently derived localized key."""
        zeroed = self.raw.replace(self.auth_params, b"\x00" * 12, 1)
        mac = hmac.new(localized_key, zeroed, HASH[alg]).digest()[:12]
        return mac == self.auth_params

    def aes_plaintext(self, localized_key):
        iv = (
            self.boots.to_bytes(4, "big")
            + self.time.to_bytes(4, "big")
            + self.priv_params
        )
        return aes_cfb_decrypt(localized_key[:16], iv, self.data)

    def aes_ok(self, localized_key):
        """Decrypted scoped PDU must be a SEQUENCE starting with our engine id."""
        pt = self.aes_plaintext(localized_key)
        if pt[0] != 0x30:
            return False
        try:
            _, body, _ = tlv(pt)
            return children(body)[0] == (4, self.engine_id)
        except Exception:
            return False


# --- Fake agent ----------------------------------------------------------------
class FakeAgent(threading.Thread):
    """Answers the unauthenticated discovery probe with a usmStatsUnknownEngineIDs
    Report carrying `engine_id`; records all authenticated datagrams."""

    def __init__(self, engine_id):
        super().__init__(daemon=True)
        self.engine_id = engine_id
        self.sock = socket.socket(socket.AF_INET, socket.SOCK_DGRAM)
        self.sock.bind(("127.0.0.1", 0))
        self.sock.settimeout(0.2)
        self.port = self.sock.getsockname()[1]
        self.captured = []
        self._halt = False

    def run(self):
        while not self._halt:
            try:
                raw, peer = self.sock.recvfrom(65535)
            except socket.timeout:
                continue
            pkt = V3Packet(raw)
            if pkt.has_auth:
                self.captured.append(pkt)
                continue  # never answered: the client simply times out
            self.sock.sendto(self._report(pkt), peer)

    def stop(self):
        self._halt = True
        self.join()
        self.sock.close()

    def _report(self, req):
        oid = bytes.fromhex("2b060106030f01010400")  # usmStatsUnknownEngineIDs.0
        vb = enc(0x30, enc(0x30, enc(6, oid) + enc(0x41, b"\x01")))
        pdu = enc(0xA8, enc_int(req.msg_id) + enc_int(0) + enc_int(0) + vb)
        scoped = enc(0x30, enc(4, self.engine_id) + enc(4, b"") + pdu)
        usm = enc(
            0x30,
            enc(4, self.engine_id)
            + enc_int(1)
            + enc_int(100)
            + enc(4, b"")
            + enc(4, b"")
            + enc(4, b""),
        )
        hdr = enc(
            0x30, enc_int(req.msg_id) + enc_int(2048) + enc(4, b"\x00") + enc_int(3)
        )
        return enc(0x30, enc_int(3) + hdr + enc(4, usm) + scoped)
