"""Assume/guarantee contracts for the `num` engine.  Every clause is checked on the side that must
establish it (requires: at each call site; ensures: at each return of each matching body; invariants:
at each exit of each function that could write the field) and only then assumed on the other side."""
import ast

from .lin import INF, Lin

# ---------------------------------------------------------------------------- specification
# clause syntax: python expressions over a1..aN (arguments, 1-based), ret, len(x), old(x), integer
# constants and the const generic parameters of the body (KS, SS); fields by name, tuple/positional
# fields as _0, _1; enum payloads by variant name (ret.Ok._0._1.length).
SPEC = [
    dict(fn="ber::header::BerHeader::from_ber",
         ensures_ok=["ret.Ok._0._1.length <= len(ret.Ok._0._0)", "len(ret.Ok._0._0) + 2 <= len(a1)"],
         why="the header parser checks the declared length against the input that is left and consumed at least two octets"),
    dict(trait="ber::BerDecoder", method="decode",
         requires=["a2.length <= len(a1)"],
         why="decoders index their contents by the declared length; every caller obtains (tail, hdr) from BerHeader::from_ber"),
    dict(trait="ber::BerDecoder", method="from_ber",
         ensures_ok=["len(ret.Ok._0._0) + 2 <= len(a1)"],
         why="progress: the remainder is shorter than the input (loop ranking of the varbind loops)"),
    dict(fn="snmp::value::SnmpValue::<'_>::from_ber",
         ensures_ok=["len(ret.Ok._0._0) + 2 <= len(a1)"], why="progress"),
    dict(fn="buf::buffer::Buffer::push_u8_unchecked", requires=["a1.pos >= 1"], ensures=["a1.pos <= old(a1.pos)"],
         why="callers reserve space with ensure_size / is_full first"),
    dict(fn="buf::buffer::Buffer::ensure_size", ensures_err=["a1.pos < a2"],
         why="a push is refused only when it does not fit: a request that fills the buffer exactly is accepted"),
    dict(fn="buf::buffer::Buffer::set_bookmark", requires=["a2 <= 4080"], why="delta is the header size of the auth parameters"),
    dict(fn="buf::buffer::Buffer::as_slice", requires=["a2 <= 4080"], why="len is the size returned by recv into this buffer"),
    dict(fn="buf::buffer::Buffer::get_bookmark", requires=["a1.bookmark >= a1.pos"],
         why="the bookmark is placed while serialising the auth parameters and the buffer only grows afterwards"),
    dict(fn="buf::buffer::Buffer::push", ensures=["a1.pos <= old(a1.pos)"], ensures_ok=["a1.pos + len(a2) == old(a1.pos)"],
         why="the buffer only grows; on success exactly the chunk was added"),
    dict(fn="buf::buffer::Buffer::push_u8", ensures=["a1.pos <= old(a1.pos)"], why="the buffer only grows"),
    dict(fn="buf::buffer::Buffer::push_tag_len", ensures=["a1.pos <= old(a1.pos)"], ensures_ok=["a1.pos + 2 <= old(a1.pos)"],
         why="the buffer only grows; a header is at least the identifier and one length octet"),
    dict(fn="buf::buffer::Buffer::push_tagged", ensures=["a1.pos <= old(a1.pos)"], ensures_ok=["a1.pos + len(a3) + 2 <= old(a1.pos)"],
         why="the buffer only grows; on success the contents and a header of at least two octets were added - also for empty contents (`04 00`)"),
    dict(trait="ber::BerEncoder", method="push_ber", ensures=["a2.pos <= old(a2.pos)"],
         why="encoders only push: buf.len() - start never underflows"),
    dict(trait="auth::SnmpAuth", method="password_to_master", requires=["len(a2) >= 1"],
         why="1 MiB is divided by the password length"),
    dict(trait="auth::SnmpAuth", method="as_password", requires=["len(a2) >= 1"], why="forwards to password_to_master"),
    dict(trait="auth::SnmpAuth", method="password_to_master", impl_prefix="auth::digest::DigestAuth", requires=["len(a3) == KS"],
         why="the digest prefix is copied with clone_from_slice"),
    dict(trait="auth::SnmpAuth", method="localize", impl_prefix="auth::digest::DigestAuth", requires=["len(a4) == KS"],
         why="the digest prefix is copied with clone_from_slice"),
    dict(trait="auth::SnmpAuth", method="as_localized", impl_prefix="auth::digest::DigestAuth", requires=["len(a2) == KS"],
         why="the key is copied with clone_from_slice"),
    dict(trait="auth::SnmpAuth", method="sign", impl_prefix="auth::digest::DigestAuth", requires=["a3 + SS <= len(a2)"],
         why="the MAC is written at the bookmark inside the serialised message"),
    dict(fn="<std::vec::Vec<u8> as ber::objectid::OidStorage>::store", ensures=["len(a1) == len(a2._0)"],
         why="store() replaces the remembered OID: afterwards it is exactly as long as the OID stored (a shorter OID must not keep the tail of a longer one)"),
    dict(fn="ber::relative_oid::SnmpRelativeOid::<'_>::subelements", ensures=["ret <= len(a1)"],
         why="counts octets of the data"),
    dict(fn="ber::relative_oid::SnmpRelativeOid::<'_>::find_subelement", ensures_some=["ret.Some._0 < len(a1)"],
         why="only offsets inside the data are returned"),
]

# type invariants: (adt path, field) -> (lo, hi)
INVARIANTS = {("buf::buffer::Buffer", "pos"): (0, 4080)}

# explicit inlining decisions (path prefix -> bool); default: loop-free bodies up to MAX_INLINE_BLOCKS
INLINE = {
    "buf::buffer::Buffer::push": False,
    "buf::buffer::Buffer::push_u8": False,
    "buf::buffer::Buffer::push_tag_len": False,
    "buf::buffer::Buffer::push_tagged": False,
    "ber::relative_oid::SnmpRelativeOid::<'_>::find_subelement": False,
    "ber::relative_oid::SnmpRelativeOid::<'_>::subelements": False,
}


class Cursor:
    """A position inside a value during clause evaluation."""
    __slots__ = ("val", "path", "ty")

    def __init__(self, val=None, path=None, ty=None):
        self.val = val
        self.path = path
        self.ty = ty


class Evaluator:
    def __init__(self, eng, st, fr, args, ret, olds, subst):
        self.eng = eng
        self.st = st
        self.fr = fr
        self.args = args   # list of Cursor (1-based via index-1)
        self.ret = ret     # Cursor or None
        self.olds = olds or {}
        self.subst = subst or {}

    def cond(self, text):
        node = ast.parse(text, mode="eval").body
        if not isinstance(node, ast.Compare) or len(node.ops) != 1:
            raise ValueError("clause must be a single comparison: " + text)
        a = self.lin(node.left)
        b = self.lin(node.comparators[0])
        if a is None or b is None:
            return None
        op = node.ops[0]
        if isinstance(op, ast.LtE):
            return ("le", a - b)
        if isinstance(op, ast.Lt):
            return ("le", a - b + 1)
        if isinstance(op, ast.GtE):
            return ("le", b - a)
        if isinstance(op, ast.Gt):
            return ("le", b - a + 1)
        if isinstance(op, ast.Eq):
            return ("eq", a - b)
        raise ValueError("unsupported operator in " + text)

    def lin(self, n):
        if isinstance(n, ast.Constant) and isinstance(n.value, int):
            return Lin.const(n.value)
        if isinstance(n, ast.BinOp) and isinstance(n.op, (ast.Add, ast.Sub)):
            a, b = self.lin(n.left), self.lin(n.right)
            if a is None or b is None:
                return None
            return a + b if isinstance(n.op, ast.Add) else a - b
        if isinstance(n, ast.Name) and n.id in self.subst and isinstance(self.subst[n.id], int):
            return Lin.const(self.subst[n.id])
        if isinstance(n, ast.Name) and n.id in ("KS", "SS"):
            return None
        if isinstance(n, ast.Call) and isinstance(n.func, ast.Name) and n.func.id == "old":
            key = ast.unparse(n.args[0])
            return self.olds.get(key)
        if isinstance(n, ast.Call) and isinstance(n.func, ast.Name) and n.func.id == "len":
            c = self.cursor(n.args[0])
            if c is None:
                return None
            v = self.value(c)
            if v is None:
                return None
            return self.eng.slice_len(self.st, self.fr, v, c.ty)
        c = self.cursor(n)
        if c is None:
            return None
        v = self.value(c)
        if v is None:
            return None
        return self.eng.as_lin(self.st, v)

    def value(self, c):
        if c.val is not None and c.val[0] != "agg":
            return c.val
        path = c.path if c.path is not None else (c.val[1] if c.val and c.val[0] == "agg" else None)
        if path is None:
            return None
        if self.eng.is_agg(c.ty):
            if c.ty.get("k") == "adt":
                return ("ptr", path)  # Vec/String/Cow-like: length lives under the path
            return None
        cont = getattr(c, "_container", None)
        return self.eng.read(self.st, path, c.ty, "spec", None)

    def cursor(self, n):
        if isinstance(n, ast.Name):
            if n.id == "ret":
                return self.ret
            if n.id[0] == "a" and n.id[1:].isdigit():
                i = int(n.id[1:]) - 1
                return self.args[i] if i < len(self.args) else None
            return None
        if isinstance(n, ast.Attribute):
            base = self.cursor(n.value)
            if base is None:
                return None
            return self.step(base, n.attr)
        return None

    def step(self, c, name):
        eng = self.eng
        ty = c.ty
        path = c.path
        val = c.val
        # auto-deref references
        while ty is not None and ty.get("k") in ("ref", "rawptr"):
            if val is None and path is not None:
                val = eng.read(self.st, path, ty, "spec")
            if val is None or val[0] != "ptr":
                return None
            path = val[1]
            ty = eng.ty(ty["to"])
            val = None
        if val is not None and val[0] == "agg":
            path = val[1]
        if path is None or ty is None:
            return None
        if ty.get("k") == "adt":
            vs = ty.get("variants", [])
            # variant name?
            if name[:1].isupper():
                for vi, v in enumerate(vs):
                    if v["name"] == name:
                        return Cursor(path=path + (("dc", vi),), ty=dict(ty, _variant=vi))
                return None
            vi = ty.get("_variant", 0)
            if vi >= len(vs):
                return None
            fields = vs[vi]["fields"]
            idx = None
            if name.startswith("_") and name[1:].isdigit():
                idx = int(name[1:])
            else:
                for j, f in enumerate(fields):
                    if f["name"] == name:
                        idx = j
            if idx is None or idx >= len(fields) or "ty" not in fields[idx]:
                return None
            fty = eng.ty(fields[idx]["ty"])
            np = path + (("f", idx),)
            cur = Cursor(path=np, ty=fty)
            inv = eng.invariants.get((ty.get("path"), fields[idx]["name"]))
            if inv and np not in self.st.env and fty.get("k") == "int":
                v = eng.read(self.st, np, fty, "spec", (ty.get("path"), fields[idx]["name"]))
            return cur
        if ty.get("k") == "tuple" and name.startswith("_") and name[1:].isdigit():
            idx = int(name[1:])
            if idx >= len(ty["elems"]):
                return None
            return Cursor(path=path + (("f", idx),), ty=eng.ty(ty["elems"][idx]))
        return None


class Contract:
    def __init__(self, specs, subst_names=None):
        self.specs = specs
        self.requires = [(c, s) for s in specs for c in s.get("requires", [])]
        self.ensures = [(c, s) for s in specs for c in s.get("ensures", [])]
        self.ensures_ok = [(c, s) for s in specs for c in s.get("ensures_ok", [])]
        self.ensures_some = [(c, s) for s in specs for c in s.get("ensures_some", [])]
        # necessity of a refusal: holds at every Err return (checked on the callee side only, never assumed by callers)
        self.ensures_err = [(c, s) for s in specs for c in s.get("ensures_err", [])]

    # ---- helpers
    def _old_exprs(self):
        out = []
        for c, _ in self.ensures + self.ensures_ok + self.ensures_some + self.ensures_err:
            for n in ast.walk(ast.parse(c, mode="eval")):
                if isinstance(n, ast.Call) and isinstance(n.func, ast.Name) and n.func.id == "old":
                    out.append(n.args[0])
        return out

    @staticmethod
    def _call_cursors(ctx):
        return [Cursor(val=v, ty=t) for v, t in zip(ctx.args, ctx.argtys)]

    @staticmethod
    def _callee_cursors(eng, fr, st):
        out = []
        body = fr.body
        for i in range(1, body.arg_count + 1):
            t = eng.ty(body.locals[i]["ty"])
            out.append(Cursor(path=(("L", fr.id, i),), ty=t))
        return out

    # ---- caller side
    def check_requires(self, ctx):
        if not self.requires:
            return
        ev = Evaluator(ctx.eng, ctx.st, ctx.fr, self._call_cursors(ctx), None, None, self._call_subst(ctx))
        for text, spec in self.requires:
            try:
                cond = ev.cond(text)
            except Exception:
                cond = None
            if cond is None:
                ctx.oblige(("const", False), "requires[%s]" % text, "contract", "cannot evaluate the precondition `%s` at this call" % text)
            else:
                ctx.oblige(cond, "requires[%s]" % text, "contract")
                ctx.eng.assume(ctx.st, cond, True)

    def _call_subst(self, ctx):
        callee_bodies = ctx.eng.facts.resolve_call(ctx.t)
        if callee_bodies:
            return ctx.eng.make_subst(callee_bodies[0], ctx.t["callee"], ctx.fr)
        return {}

    def snapshot(self, ctx):
        olds = {}
        exprs = self._old_exprs()
        if not exprs:
            return olds
        ev = Evaluator(ctx.eng, ctx.st, ctx.fr, self._call_cursors(ctx), None, None, {})
        for e in exprs:
            olds[ast.unparse(e)] = ev.lin(e)
        return olds

    def assume_ensures(self, ctx, olds):
        eng = ctx.eng
        st = ctx.st
        dp = ctx.dest_path(st)
        rc = Cursor(path=dp, ty=ctx.dty) if dp is not None else None
        sub = self._call_subst(ctx)
        for text, spec in self.ensures:
            ev = Evaluator(eng, st, ctx.fr, self._call_cursors(ctx), rc, olds, sub)
            try:
                cond = ev.cond(text)
            except Exception:
                cond = None
            if cond is not None:
                eng.assume(st, cond, True)
        variant_clauses = []
        if self.ensures_ok:
            variant_clauses.append(("Ok", self.ensures_ok))
        if self.ensures_some:
            variant_clauses.append(("Some", self.ensures_some))
        if not variant_clauses or dp is None:
            return [st]
        vname, clauses = variant_clauses[0]
        d_ok = ctx.variant_discr(ctx.dty, vname)
        others = [v["discr"] for v in ctx.dty.get("variants", []) if v["name"] != vname]
        if d_ok is None:
            return [st]
        a = st.copy()
        a.env[dp + ("#d",)] = ("int", Lin.const(d_ok))
        for text, spec in clauses:
            ev = Evaluator(eng, a, ctx.fr, self._call_cursors(ctx), Cursor(path=dp, ty=ctx.dty), olds, sub)
            try:
                cond = ev.cond(text)
            except Exception:
                cond = None
            if cond is not None:
                eng.assume(a, cond, True)
        out = [a]
        for d in others:
            b = st.copy()
            b.env[dp + ("#d",)] = ("int", Lin.const(d))
            out.append(b)
        return out

    # ---- callee side
    def assume_requires_in_callee(self, eng, fr, st):
        ev = Evaluator(eng, st, fr, self._callee_cursors(eng, fr, st), None, None, fr.subst)
        for text, spec in self.requires:
            try:
                cond = ev.cond(text)
            except Exception:
                cond = None
            if cond is not None:
                eng.assume(st, cond, True)

    def snapshot_callee(self, eng, fr, st):
        olds = {}
        ev = Evaluator(eng, st, fr, self._callee_cursors(eng, fr, st), None, None, fr.subst)
        for e in self._old_exprs():
            olds[ast.unparse(e)] = ev.lin(e)
        return olds

    def check_ensures_in_callee(self, eng, fr, exits):
        body = fr.body
        rt = eng.ty(body.locals[0]["ty"])
        rp = (("L", fr.id, 0),)
        for e in exits:
            if e.dead:
                continue
            for text, spec in self.ensures:
                ev = Evaluator(eng, e, fr, self._callee_cursors(eng, fr, e), Cursor(path=rp, ty=rt), fr.old, fr.subst)
                try:
                    cond = ev.cond(text)
                except Exception:
                    cond = None
                eng.oblige(e, fr, "ensures[%s]" % text, "ensures", body.line, cond if cond is not None else ("const", False), "contract",
                           "" if cond is not None else "cannot evaluate the postcondition `%s` at this return" % text)
            for vname, clauses in (("Ok", self.ensures_ok), ("Some", self.ensures_some), ("Err", self.ensures_err)):
                if not clauses:
                    continue
                d_ok = None
                for v in rt.get("variants", []):
                    if v["name"] == vname:
                        d_ok = v["discr"]
                if d_ok is None:
                    continue
                dv = e.env.get(rp + ("#d",))
                s2 = e
                if dv is not None and dv[0] == "int" and not dv[1].t:
                    if dv[1].c != d_ok:
                        continue
                else:
                    s2 = e.copy()
                    if dv is not None and dv[0] == "int":
                        s2.add_eq(dv[1] - d_ok)
                    if s2.dead:
                        continue
                for text, spec in clauses:
                    ev = Evaluator(eng, s2, fr, self._callee_cursors(eng, fr, s2), Cursor(path=rp, ty=rt), fr.old, fr.subst)
                    try:
                        cond = ev.cond(text)
                    except Exception:
                        cond = None
                    eng.oblige(s2, fr, "ensures_%s[%s]" % (vname.lower(), text), "ensures", body.line,
                               cond if cond is not None else ("const", False), "contract",
                               "" if cond is not None else "cannot evaluate the postcondition `%s` at this return" % text)


class Contracts:
    def __init__(self, spec=None, inline=None):
        self.spec = spec if spec is not None else SPEC
        self.inline = inline if inline is not None else INLINE
        self._cache = {}

    def _match_body(self, body):
        out = []
        for s in self.spec:
            if "fn" in s:
                if body.path == s["fn"]:
                    out.append(s)
            else:
                tr = body.impl_trait or body.trait_default_of
                if tr == s["trait"] and body.name == s["method"]:
                    if "impl_prefix" in s and not (body.impl_self or "").startswith(s["impl_prefix"]):
                        continue
                    out.append(s)
        return out

    def for_body(self, eng, body):
        k = body.path
        if k not in self._cache:
            specs = self._match_body(body)
            self._cache[k] = Contract(specs) if specs else None
        return self._cache[k]

    def for_call(self, eng, c, cands):
        if c.get("resolved") and cands:
            return self.for_body(eng, cands[0])
        # unresolved trait call: trait-level clauses only (no impl_prefix)
        tr, m = c.get("trait"), c.get("method")
        specs = [s for s in self.spec if s.get("trait") == tr and s.get("method") == m and "impl_prefix" not in s]
        if not specs and len(cands) == 1:
            return self.for_body(eng, cands[0])
        return Contract(specs) if specs else None

    def inline_policy(self, callee):
        for p, v in self.inline.items():
            if callee.path == p:
                return v
        return None

    def describe(self):
        out = []
        for s in self.spec:
            name = s.get("fn") or "%s::%s%s" % (s["trait"], s["method"], (" for " + s["impl_prefix"]) if "impl_prefix" in s else "")
            out.append({"item": name, "requires": s.get("requires", []), "ensures": s.get("ensures", []),
                        "ensures_ok": s.get("ensures_ok", []), "ensures_some": s.get("ensures_some", []), "why": s.get("why", "")})
        return out
