"""Registry: property id -> level, rules, explanation.  MANIFEST.json is generated from it
(checks/gen_manifest.py) so that the two cannot drift."""
from .rules import py, c04, c06, c07, v3, c18, numrules, codec, crypto, pol, bits  # noqa: F401

TRUSTED = [
    "rustc nightly 1.97 MIR construction (dev profile, -Zmir-opt-level=0) as a faithful account of the program",
    "tools/mirfacts serialisation of MIR, types, constants and call resolution",
    "the analyser in /verif/gsa (not mechanically verified)",
    "spec/models_std.json: panic/precondition model of external callees (core/alloc/std/nom/cipher/digest/rand/socket2/pyo3)",
    "allocation failure, stack overflow and failures inside CPython are out of scope",
]

PROPS = {}


def only(fn, *needles, pred=None):
    """A rule shared with another property, restricted to the instances that bear on that property: instances of this run
    whose key matches none of `needles` (or fails `pred`) are dropped, missing-anchor entries are kept."""
    def w(ctx, rep, rule):
        n0 = len(rep.insts)
        fn(ctx, rep, rule)

        def keep(i):
            if i.rule != rule or i.key.startswith("anchor:"):
                return True
            if pred is not None:
                return pred(i.key)
            return any(n in i.key for n in needles)
        rep.insts[n0:] = [i for i in rep.insts[n0:] if keep(i)]
    w.__name__ = fn.__name__ + "_only"
    w.__module__ = fn.__module__
    return w


_GETS = ("::get", "::send_get", "::recv_get", "::get_many", "::send_get_many", "::recv_get_many")
_WALKS = ("get_next", "get_bulk")


def prop(pid, level, explanation, rules, **kw):
    PROPS[pid] = dict(id=pid, level=level, explanation=explanation, rules=rules, trusted_base=TRUSTED, **kw)


prop("C19", "other",
     "Python-AST rules: every sender awaits the policer first (sync get/get_many/iterators, async _send through which "
     "every send_* goes), constructor validation raises ValueError for rps<=0 and for a zero interval, wait()/wait_sync() "
     "sleep delta/NS only for a positive delta taken from get_timeout(perf_counter_ns()), _prev is written only in "
     "get_timeout. The slot arithmetic is decided as an inductive invariant in linear integer arithmetic (gsa/rules/pol.py, "
     "exact simplex of gsa/lin): on every path of get_timeout feasible under the premises (monotonic clock, ts >= previous "
     "release >= slot) 0 <= delay <= interval, slot' <= release < slot' + interval and slot' >= slot + interval; these "
     "imply the rate bound by induction over histories. Floor division by the interval is modelled by its defining "
     "inequalities; an expression outside the linear fragment makes that rule inconclusive, never a violation. "
     "Assumes the sleep releases exactly at ts + delay. Added in rounds 6-7: the stored interval equals int(NS / rps) (linear arithmetic); no async def sleeps; a wait() inside a loop with a falling-through handler is a second slot for one request; a session without a limiter is built only when limit_rps is None or 0 (compound tests folded over sample rates). Round 8: no function waits for the limiter and then sends through _send(), which waits itself.",
     [("C19.guard", py.policer_guard), ("C19.core", py.policer_core), ("C19.slots", pol.invariant), ("C19.noblock", py.async_never_blocks), ("C19.interval", pol.interval), ("C19.once", py.wait_once)])

from .rules import c04  # noqa: E402

prop("C04", "other",
     "CFG path rules on resolved MIR: in each of the three unwrap_pdu, deleting the accepting edge of each required "
     "comparison (community / user name / engine id / msgID / request-id; operands pinned by provenance to message "
     "field vs. same-named session field) makes `return Some(pdu)` unreachable; SnmpPdu::check compares each variant's "
     "own request_id, RequestId::check is equality, the id is written only in get_next (masked to 31 bits) once per "
     "send before the PDU is built; in _recv_inner the None arm can only return through another recv_socket and a "
     "decode failure never re-enters the loop. Decides every structural clause; nothing numeric is involved "
     "(the 2^-31 id collision is outside any technique)."
     " Added in round 5: nothing after the Ok edge of recv() ends in Err (every received datagram reaches the decoder); the decode-error rows of the exception table.",
     [("C04.accept", c04.accept), ("C04.check", c04.pdu_check), ("C04.skip", c04.skip_loop),
      ("C04.single", c04.single_id), ("C04.report", c04.report_only_v3), ("C04.version", c04.version_check), ("C04.adopt", only(v3.adopt, "only-when")), ("C04.retry", only(py.timeouts, "async_client._recv")), ("C04.exc", only(c07.exc_table, "InvalidVersion", "TrailingData", "InvalidPdu", "InvalidTagFormat", "UnexpectedTag", "Incomplete")), ("C04.recv", only(c18.arm, "received-is-delivered")), ("C04.map", py.blocking_wrapped), ("C04.trailing", codec.trailing), ("C04.usmraw", crypto.usm_fields_raw)])

# properties not claimed (with the reason); kept current by hand
NOT_APPLICABLE = {}

from .rules import c07  # noqa: E402

prop("C07", "other",
     "Exhaustive decision tables extracted from MIR by abstract execution over finite cells: OpGet::to_python over "
     "(PDU variant x varbind-count class 0/1/>=2 x 17 value variants), OpGetMany::to_python over (PDU variant x value "
     "variant) with key/value provenance (dict[var.oid] = var.value of the same varbind), the SnmpError -> PyErr table "
     "(18 variants) against the documented classes and the create_exception! base classes; Python AST: every blocking "
     "socket call of the sync client maps BlockingIOError to TimeoutError. Every cell of the tables is decided; what is "
     "not decided is the identity of the Python objects pyo3 builds from the decoded values (see C02)."
     " Added in round 5: a data value is stored on every way through the get_many loop body (no way round set_item); relative-OID base is the preceding varbind.",
     [("C07.get", c07.get_table), ("C07.many", c07.many_table), ("C07.exc", c07.exc_table), ("C07.py", py.blocking_wrapped), ("C07.report", only(c04.pdu_check, "Report")), ("C07.sib", only(crypto.sockets_sibling, pred=lambda k: k.endswith(_GETS))), ("C07.reject", c04.only_listed_rejections), ("C07.pass", only(py.passthrough, "result passed through")), ("C07.async", only(py.timeouts, "only-BlockingIOError-retried")), ("C07.relbase", c07.relative_base), ("C07.skip", c04.skip_loop), ("C07.errprop", py.errors_propagate)])

from .rules import c06  # noqa: E402

prop("C06", "other",
     "CFG path rules and decision tables on MIR: in GetIter::set_next_oid the write of next_oid is reachable only across "
     "the true edge of start_oid.starts_with(oid) and of a strict-order test oid > next_oid (operands pinned by "
     "provenance; starts_with = argument.starts_with(receiver)); next_oid has no other writer; all 12 GETNEXT/GETBULK "
     "pymethods build the request from iter.get_next_oid(); the GetNext and GetBulk step tables (reply size x in/out of "
     "subtree x 17 value kinds) are extracted by abstract execution and compared with the property; a result tuple is "
     "built only past the accepting edge of set_next_oid for the same varbind; after the out-of-subtree marker the reply "
     "loop is not re-entered; Python: StopAsyncIteration -> StopIteration, None sentinel, empty list. Decides every "
     "clause but one: that cmp_arcs implements numeric OID order is only checked structurally (per sub-identifier)."
     " Added in round 5: the closure of split_inclusive in cmp_arcs equals `octet & 0x80 == 0` on all 256 octets; zero-copy decoders total. Added in round 7: with at least one varbind a getbulk reply ends the walk only behind a call that consumes the varbind list; the sync iterators handle only StopAsyncIteration and BlockingIOError.",
     [("C06.contain", c06.contain), ("C06.mono", c06.mono), ("C06.cont", c06.cont), ("C06.stop", c06.stop_tables),
      ("C06.py", py.stop_mapping), ("C06.pybuf", py.bulk_buffer), ("C06.itererr", py.iter_errors_propagate), ("C06.store", numrules.oid_store), ("C06.oidenc", codec.oid_text), ("C06.oidtext", codec.oid_print), ("C06.reject", c06.next_oid_rejections), ("C06.iter", py.passthrough), ("C06.sib", only(crypto.sockets_sibling, *_WALKS)), ("C06.total", codec.zero_copy_total)])

prop("C05", "other",
     "Client-side premises of the walk argument (given an RFC 3416 agent): containment and continuation rules of C06, "
     "the GetNext/GetBulk step tables agreeing cell by cell on (value kind x in/out of subtree), delivery in reply order "
     "(forward iteration and append in Rust; front pop, None sentinel, refill only when empty in Python, sync and async), "
     "async send_X/recv_X pairing with the same iterator context, fetch() choosing getbulk iff bulk is allowed and never "
     "on v1. Necessary conditions only: that the walk returns exactly the MIB entries below the base, each once, is a "
     "relation between agent and client histories and is NOT decided statically."
     " Added in round 5: zero-copy decoders total (an added OID validation ends a walk), literal INTEGER range of the GETBULK counters, session defaults set once. Added in rounds 6-7: bit-field composition; the sync iterators handle only StopAsyncIteration and BlockingIOError around the socket call.",
     [("C05.contain", c06.contain), ("C05.mono", c06.mono), ("C05.cont", c06.cont), ("C05.step", c06.stop_tables),
      ("C05.pybuf", py.bulk_buffer), ("C05.itererr", py.iter_errors_propagate), ("C05.pystop", py.stop_mapping), ("C05.async", py.async_pairs), ("C05.fetch", py.fetch), ("C05.store", numrules.oid_store), ("C05.oidenc", codec.oid_text), ("C05.oidtext", codec.oid_print), ("C05.reject", c06.next_oid_rejections), ("C05.iter", only(py.passthrough, "iter__")),
      ("C05.sib", only(crypto.sockets_sibling, *_WALKS)), ("C05.total", codec.zero_copy_total), ("C05.defaults", py.session_defaults), ("C05.intlit", crypto.literal_int_tlv), ("C05.hdr", codec.hdr_reject), ("C05.buf", only(numrules.c17_sites, "buf::buffer::Buffer::")), ("C05.bits", bits.compose)])

from .rules import v3, c18  # noqa: E402

prop("C13", "other",
     "Who-may-write, provenance and path rules on MIR plus Python AST ordering: engine_boots/engine_time/engine_id of the "
     "v3 socket are written only in unwrap_pdu, only past the accepting edges (user name, msgID, request-id), from "
     "msg.usm.* of the accepted message, boots/time on every accepted message and the engine id only while empty; push_pdu "
     "stamps USM and scoped PDU from the same-named session fields; new()/set_keys() localise both keys with the auth "
     "digest and the session engine id; OpRefresh is an empty GetRequest and flag_report is set exactly for it; both Python "
     "clients defer the user iff no engine id, run refresh -> set_keys(deferred user) -> clear -> refresh and call refresh() "
     "on context entry. Behaviour over multi-step agent histories beyond these premises is NOT decided. Added in round 7: a Report passes SnmpPdu::check whatever its request-id; unwrap_pdu drops a message only for the listed reasons (not for its security flags).",
     [("C13.adopt", v3.adopt), ("C13.stamp", v3.cred), ("C13.keys", v3.keys), ("C13.probe", v3.probe), ("C13.py", py.refresh_flow), ("C13.user", only(crypto.key_ffi, "User.")), ("C13.accept", c04.accept), ("C13.enccast", codec.encoder_casts), ("C13.errprop", py.errors_propagate), ("C13.report", only(c04.pdu_check, "Report")), ("C13.reject", c04.only_listed_rejections)])

prop("C10", "other",
     "Path rules on v3 unwrap_pdu/_recv_inner: delivery of a PDU must be guarded by a test of msg.usm.auth_params against "
     "a digest under self.auth_key (C10.mac), by msg.flag_auth (C10.flag), and a plaintext scoped PDU must be refused when "
     "privacy is configured (C10.priv); a failed decrypt never delivers and decrypt receives this message's data and USM "
     "(C10.dec). The first three mechanisms are absent from the code: they are recorded as known findings (a repair needs "
     "the raw datagram in unwrap_pdu and changes the SnmpSocket trait). MAC byte equality itself is not decided."
     " Added in round 5: NoPriv::decrypt has no Ok exit; engine id / boots / time are adopted only from a message that passed the header check. Added in rounds 6-7: the four USM OCTET STRING fields are the decoder's result on every alternative (none made up for a sequence that ended early); msgFlags has length 1; a Report in a walk step raises SnmpAuthError (never StopAsyncIteration). Round 8: a deferred user that is pending is installed on every path of refresh() that probes.",
     [("C10", v3.c10), ("C10.accept", c04.accept), ("C10.check", c04.pdu_check), ("C10.version", c04.version_check), ("C10.py", py.refresh_flow), ("C10.keys", only(v3.keys, "always localised", "every Ok installs", "store is final", "separate digest")), ("C10.adopt", v3.adopt), ("C10.nopriv", crypto.nopriv_refuses), ("C10.dispatch", crypto.key_dispatch), ("C10.usmraw", crypto.usm_fields_raw), ("C10.flags", crypto.msg_flags_decode), ("C10.report", only(c06.stop_tables, "|Report")), ("C10.exc", only(c07.exc_table, "AuthenticationFailed"))])

prop("C18", "other",
     "Mechanism premises only (wall-clock behaviour is NOT decided): get_socket arms SO_RCVTIMEO with "
     "Duration::from_nanos(timeout_ns) iff timeout_ns > 0 and non-blocking mode otherwise on every path; the constructors "
     "pass timeout_ns through; recv_socket maps WouldBlock, the error table maps it to BlockingIOError and every blocking "
     "call of the sync client maps that to TimeoutError; the async _recv wraps the whole retry loop in "
     "wait_for(self._timeout) and remaps the asyncio timeout; sync passes int(timeout*NS), async 0. The skip loop of "
     "_recv_inner tests no deadline (C18.deadline): recorded as a known finding."
     " Added in round 5: every received datagram reaches the decoder; _recv_inner is called only inside a closure handed to Python::allow_threads; session engine parameters are adopted only after the header check. Added in round 7: every await after loop.add_reader / add_writer stands under a try whose finally removes the registration; set_nonblocking with a constant is called by get_socket only.",
     [("C18.arm", c18.arm), ("C18.deadline", c18.deadline), ("C18.map", py.blocking_wrapped), ("C18.py", py.timeouts), ("C18.recv-once", c18.recv_loops), ("C18.skip", c04.skip_loop), ("C18.exc", only(c07.exc_table, "WouldBlock", "ConnectionRefused", "SocketError")), ("C18.adopt", only(v3.adopt, "only-when", "-source")), ("C18.gil", c18.gil_released), ("C18.reject", c04.only_listed_rejections), ("C18.core", only(py.policer_core, "BasePolicer.wait")), ("C18.pool", only(crypto.fresh_buffers, "drop", "pool", "BufferHandle")), ("C18.noblock", py.async_never_blocks), ("C18.errprop", py.errors_propagate), ("C18.release", py.readiness_released), ("C18.mode", c18.mode_owner)])

from .rules import numrules  # noqa: E402


def c01_term(ctx, rep, rule):
    """Every loop on the receive path has a progress witness (iterator-driven or a ranking function)."""
    from . import numrun
    res = numrun.run(ctx)
    scope = numrules.scope_closure(ctx, numrules.RECV_ROOTS)
    n = 0
    for d in res.data["bodies"]:
        if d["path"] not in scope:
            continue
        b = ctx.facts.bodies[d["path"]]
        for i, l in enumerate(d["loops"]):
            n += 1
            key = "%s|loop#%d" % (d["path"], i)
            if d["path"] == "socket::snmpsocket::SnmpSocket::_recv_inner" and l.get("witness") is None:
                rep.info(rule, key, "the skip loop of _recv_inner has no progress measure by design: it ends when a matching reply "
                         "arrives or recv fails (its timing is the subject of C18)", b.loc(l["line"]))
                continue
            rep.check(rule, key, l.get("witness") is not None, l.get("witness") or "",
                      "no progress witness for this loop: neither iterator-driven nor a strictly monotone bounded quantity; a datagram "
                      "may keep the receive path from returning %s" % l.get("why", ""), b.loc(l["line"]), obligation=True)
    if n < 8:
        rep.violation(rule, "floor", "only %d loops found on the receive path, floor is 8" % n)


prop("C01", "proof",
     "Abstract interpretation of MIR (engine `num`): every panic site on the receive path - the call-graph closure (resolved "
     "callees + class-hierarchy analysis for trait calls + closures + Drop impls) of _recv_inner/recv_reply: recv_socket, the "
     "three Message::try_from, unwrap_pdu incl. both privacy decrypts, the five to_python, value/OID conversion, error mapping, "
     "buffer pool - is an obligation: bounds checks, slice/array/Vec indexing, copy/clone_from_slice lengths, unwrap/expect, "
     "explicit panics, division, arithmetic and shift overflow (overflow-checks builds), unsafe pointer preconditions. Each is "
     "entailed by the abstract state (linear constraints decided by an exact LP; interval+octagon templates at joins; partitions "
     "by enum variant; checked contracts across calls) or listed as an audited site with a re-validated structural argument. "
     "Plus: variants reaching SnmpValue::into_pyobject exclude its todo!() arms at every call site; pool critical sections are "
     "panic-free; every loop on the path has a progress witness; SnmpError maps into the documented exception family.",
     [("C01.panic", numrules.c01_panic), ("C01.todo", numrules.todo_rule), ("C01.pool", numrules.pool_rule), ("C01.term", c01_term),
      ("C01.exc", c07.exc_table), ("C01.notimpl", codec.no_notimplemented_on_receive)],
     assumptions=["panics inside pyo3 / CPython / cipher / digest crates, allocation failure and stack overflow are out of scope",
                  "overflow-checks sites are obligations in both profiles: with zero reports no wrapped value exists in the release wheel either"])

from .rules import codec  # noqa: E402

prop("C16", "proof",
     "Abstract interpretation (`num`, extent mode): in each of the 17 BerDecoder::decode impls every read of the input slice - "
     "element reads, sub-slices handed to other code (from_utf8, parse_u32, iterators consumed by fold/reduce), slices stored in "
     "the result - is an obligation `offset + extent <= h.length`; BerHeader::from_ber guarantees (checked contract) "
     "`length <= len(tail)` and every decode call site satisfies `h.length <= len(i)`. Structural rules: each from_ber returns "
     "&tail[hdr.length..] of the same header parse; decode(tail, &hdr) pairs; all seven try_from (3 messages, USM, 3 PDUs) "
     "return Ok only across the empty-remainder edge of their enclosing SEQUENCE."
     " Added in rounds 4-5: BerHeader.length / .tag never depend on len(input); a function that parses a header itself never hands the uncut remainder to a nested parser; decrypt reserves exactly data.len() octets.",
     [("C16.extent", codec.extent), ("C16.hdr", codec.hdr_contract), ("C16.rest", codec.rest), ("C16.pair", codec.pair),
      ("C16.trailing", codec.trailing), ("C16.lists", codec.list_loops), ("C16.fresh", crypto.priv_fresh), ("C16.hdrext", codec.hdr_extent), ("C16.decrypt", only(crypto.priv_layout, "decrypt")), ("C16.children", codec.bounded_children), ("C01.children", codec.bounded_children), ("C16.recv", only(numrules.c17_sites, "recv_socket", "as_slice"))])

prop("C02", "other",
     "Necessary conditions only (numerical equality of decoded values with their X.690 denotation is NOT decided): the "
     "(constructed, class, tag) -> decoder/variant table of SnmpValue::from_ber extracted for all 256 cells against X.690 / RFC "
     "2578 / RFC 3416 and the decoders' TAG constants; decode(tail,&hdr) pairing; extent rule of C16 for all decoders; integer "
     "casts on the decode path are widening, stored field types and the Python conversion type match the SMI type; the six "
     "big-endian folds have the canonical step (acc << 8) | octet over take(h.length) (unknown shapes: inconclusive); "
     "IpAddress octet order; no overflow site in the decoders (shared with C01)."
     " Added in rounds 4-5: the zero-copy decoders (OID, RELATIVE-OID, OCTET STRING, Opaque, ObjectDescriptor, SEQUENCE, [n]) have no error exit; in each numeric decoder some read reaches h.length (cover observation of num); an overflow guard before `T << k` refuses only values that overflow; a RELATIVE-OID name is resolved against the preceding varbind. Added in rounds 6-7: bit fields of composed values do not overlap (bit occupancy on the MIR); the REAL decoder's first-octet table over all 256 octets; BOOLEAN / NULL / IpAddress are refused for their length only; the dispatcher itself refuses a supported (class, tag) only for lengths its decoder refuses too (cells over lengths 0..20); OCTET STRING / Opaque / ObjectDescriptor reach Python as the decoded slice, uncut. Round 8: the length octet of BerHeader::from_ber over all 256 values (short form iff n <= 127).",
     [("C02.dispatch", codec.dispatch), ("C02.displen", codec.dispatch_lengths), ("C02.hdrlen", codec.header_length_forms), ("C02.pyraw", codec.py_values_raw), ("C02.pair", codec.pair), ("C02.extent", codec.extent), ("C02.width", codec.width), ("C02.hdr", codec.hdr_reject), ("C02.oidtext", codec.oid_print), ("C02.decrypt", only(crypto.priv_layout, "decrypt")), ("C02.textreject", codec.oid_to_text_rejections),
      ("C02.fold", codec.fold), ("C02.ip", codec.ipaddr), ("C02.sites", codec.hdr_contract), ("C02.shiftguard", codec.shift_guards), ("C02.tail", codec.tail_cover), ("C02.total", codec.zero_copy_total), ("C02.relbase", c07.relative_base), ("C02.capacity", codec.capacity_exits), ("C02.lenonly", codec.length_only_rejections), ("C02.bits", bits.compose), ("C02.realforms", codec.real_forms)])

prop("C08", "other",
     "Structure and intervals of SnmpOid::try_from(&str): no value-altering call (min/max/clamp/saturating/wrapping/unwrap_or) "
     "between a parsed arc and the encoded octets; 40*first+second proven within 0..119 before the cast; the leading base-128 "
     "group of every arm proven within 1..127 (0..127 for one octet) from the engine's cast facts; parse errors propagate, two "
     "arcs mandatory; every panic site of both conversions discharged; OID text enters only through this conversion and a "
     "failure returns before the send. NOT decided: print(parse(s)) = s and the base-128 arithmetic of rewritten encoders."
     " Added in rounds 4-5: overflow guards exact; the OID decoder is total. Added in round 6: bit-field composition of sub-identifiers (occupancy of the two sides of every | / + with a shifted side is disjoint).",
     [("C08.text", codec.oid_text), ("C08.entry", codec.oid_entry), ("C08.sites", numrules.c08_sites), ("C08.print", codec.oid_print), ("C08.reject", codec.oid_text_rejections), ("C08.arcloop", codec.arc_loop_exits), ("C08.textreject", codec.oid_to_text_rejections), ("C08.handlen", crypto.hand_lengths), ("C08.shiftguard", codec.shift_guards), ("C08.total", codec.zero_copy_total), ("C08.capacity", codec.capacity_exits), ("C08.nested", crypto.nested_lengths), ("C08.bits", bits.compose)])

prop("C15", "other",
     "Necessary conditions only (round-trip equality over all i64 / OIDs is NOT decided): no undischarged overflow, negation or "
     "shift site in SnmpInt::push_ber/decode, the OID conversions and push_tag_len (engine `num`); the length-form table of "
     "push_tag_len (short / 0x81 / 0x82 with the octets in order and ensure_size covering them); the fixed encodings (ZERO_BER, "
     "NULL_BER, EMPTY_BER, version constants) are minimal TLVs; PDU tag tables of encoder and decoder agree with RFC 3416."
     " Added in rounds 4-5: decoded flag_* are bits 0/1/2 of the octet for all 256 values (mirror of the encoder's table); ensure_size refuses only what does not fit; push_tagged / push_tag_len write a header of at least two octets on success, also for empty contents; literal one-octet INTEGER range. Added in rounds 6-7: bit-field composition; encoder narrowing casts; capacity exits of value-consuming loops (unrolled iteration by iteration); a pooled buffer is reset before it returns to the pool; the request decoders refuse for structure only, never for a field's value. Round 8: an element pushed in a loop is measured from a mark taken in that loop; the zero-copy decoders are total.",
     [("C15.nowrap", numrules.c15_nowrap), ("C15.len", codec.length_forms), ("C15.hdr", codec.hdr_reject), ("C15.pdu", codec.pdu_tags), ("C15.oid", codec.oid_text), ("C15.nested", crypto.nested_lengths), ("C15.mirror", crypto.layout_mirror), ("C15.dec", only(codec.width, "SnmpInt")), ("C15.handlen", crypto.hand_lengths), ("C15.flags", crypto.msg_flags_decode), ("C15.msgflags", crypto.msg_flags), ("C15.tail", codec.tail_cover), ("C15.shiftguard", codec.shift_guards), ("C15.ensure", only(numrules.c17_sites, "ensure_size", "push_tag_len", "push_tagged")), ("C15.intlit", crypto.literal_int_tlv), ("C15.capacity", codec.capacity_exits), ("C15.op", crypto.op_tables), ("C15.oidtext", codec.oid_print), ("C15.enccast", codec.encoder_casts), ("C15.bits", bits.compose), ("C15.pool", only(crypto.fresh_buffers, "reset-before-return")), ("C15.reqdec", codec.request_decoder_rejections), ("C15.total", codec.zero_copy_total)])

from .rules import crypto  # noqa: E402


def py_version_default(ctx, rep, rule):
    """Both clients replace the protocol version only when the caller passed none (SnmpVersion.v1 is falsy: 0)."""
    for mod in py.CLIENTS:
        ps = py.paths(ctx, rep, rule, mod, "SnmpSession", "__init__")
        if not ps:
            continue
        seen = set()
        found = set()
        for p in ps:
            for e in p.events:
                if e.kind == "bind" and e.target == "version":
                    k = ("b", e.value, e.conds)
                    if k in seen:
                        continue
                    seen.add(k)
                    ok = ("eq(None,version)", True) in e.conds and e.value in ("SnmpVersion.v2c", "SnmpVersion.v3")
                    if ok:
                        ok = (e.value == "SnmpVersion.v2c") == (("eq(None,user)", True) in e.conds or ("user", False) in e.conds)
                    rep.check(rule, "%s.__init__|version default" % mod, ok, "autodetected only when version is None",
                              "the requested version is replaced by `%s` under %s: an explicit SnmpVersion.v1 (value 0) is treated as not given, or the default "
                              "does not follow the user argument" % (e.value, e.conds), py.loc(ctx, mod, e), obligation=True)
            ctor = {"SnmpV1ClientSocket": "eq(SnmpVersion.v1,version)", "SnmpV2cClientSocket": "eq(SnmpVersion.v2c,version)", "SnmpV3ClientSocket": "eq(SnmpVersion.v3,version)"}
            for name, cond in ctor.items():
                for i, e in py.calls(p, name):
                    found.add(name)
                    k = (name, (cond, True) in e.conds, tuple(e.args[:2]))
                    if k in seen:
                        continue
                    seen.add(k)
                    rep.check(rule, "%s.__init__|%s" % (mod, name), (cond, True) in e.conds, "built for its own version", "%s is built under %s" % (name, e.conds),
                              py.loc(ctx, mod, e), obligation=True)
                    if name != "SnmpV3ClientSocket":
                        rep.check(rule, "%s.__init__|%s community" % (mod, name), e.args[:2] == ["f'{addr}:{port}'", "community"], "address and community",
                                  "socket built from %s" % e.args[:2], py.loc(ctx, mod, e))
        if len(found) < 3:
            rep.missing(rule, mod + ".__init__: three socket constructors")


prop("C03", "other",
     "Structural rules (byte-for-byte equality with an independent encoder is NOT decided - see C15): buffers start empty "
     "(Buffer::default / reset set pos = MAX_SIZE; BufferHandle::drop crosses reset() on every path to pool.push; the pool Vec is "
     "used only in buf::pool; _send_inner hands the freshly acquired buffer to push_pdu, sends buf.data() of it and only across "
     "push_pdu's Ok edge; both ciphers reset their private buffer first); operation -> request PDU table (variant, non-repeaters "
     "0, max-repetitions from the caller, request-id, OIDs pushed in reverse into the back-to-front buffer, NULL values); PDU tag "
     "tables; credentials of all three push_pdu derive from the same-named session fields; request id masked to 31 bits and drawn "
     "once per send; length forms; the 39 pymethods bind to the right generic/op; Python: fetch()/bulk rules, version default; no "
     "undischarged panic site on the send path."
     " Added in round 5: a literal one-octet INTEGER `[02, 01, x as u8]` is reached only with x in 0..=127; OutOfBuffer is constructed by the buffer only; the per-session defaults (max_repetitions, allow_bulk, timeout) are stored in the constructor only. Added in rounds 6-7: no push_ber outside SnmpInt narrows an integer; boots / time / engine id are adopted only from a message that passed the msgID / request-id check.",
     [("C03.fresh", crypto.fresh_buffers), ("C03.priv-fresh", crypto.priv_fresh), ("C03.op", crypto.op_tables), ("C03.pdu", codec.pdu_tags),
      ("C03.cred", v3.cred), ("C03.priv", v3.priv_choice), ("C03.reqid", c04.single_id), ("C03.len", codec.length_forms), ("C03.sib", crypto.sockets_sibling),
      ("C03.keys", v3.keys), ("C03.fetch", py.fetch), ("C03.version", py_version_default), ("C03.nested", crypto.nested_lengths), ("C03.mirror", crypto.layout_mirror), ("C03.nopanic", numrules.c03_nopanic), ("C03.adopt", only(v3.adopt, "on-every-accept", "-source", "learnt-on-accept", "only-when")), ("C03.msgflags", crypto.msg_flags), ("C03.oidenc", codec.oid_text), ("C03.handlen", crypto.hand_lengths), ("C03.py", py.refresh_flow), ("C03.privlayout", crypto.priv_layout), ("C03.oob", crypto.out_of_buffer_owner), ("C03.defaults", py.session_defaults), ("C03.intlit", crypto.literal_int_tlv), ("C03.chain", crypto.key_chain), ("C03.enccast", codec.encoder_casts)])

prop("C17", "proof",
     "Abstract interpretation (`num`): the type invariant pos <= MAX_SIZE of Buffer is assumed at every read of pos and proved at "
     "every exit of every function holding a &mut Buffer and for every Buffer returned by value; every unsafe call's precondition "
     "(ptr::add, slice::from_raw_parts(_mut), copy_nonoverlapping, ptr::write, assume_init) is an obligation on a pointer value "
     "that carries its in-bounds extent; push_u8_unchecked requires pos >= 1 at each of its 11 call sites; bounds/overflow sites "
     "of buf::* and of the whole send path are obligations. Structural: pos/bookmark/data written only in buf::buffer, skip() "
     "only from the two decrypts (which fill the space before reading), as_slice(n) only from recv_socket with n = recv's result; "
     "no Result of a push is dropped; send only across push_pdu's Ok edge; OutOfBuffer -> SnmpEncodeError; length-form table."
     " Added in round 5: OutOfBuffer is raised by the buffer alone (no size estimate refuses a request). Added in rounds 6-7: capacity exits; a constructed element's length is measured (buf.len() - mark), never accumulated as contents + constant header size; the sync iterators let SnmpEncodeError through. Round 8: the Result of _send_inner is used at every call site.",
     [("C17.sites", numrules.c17_sites), ("C17.owner", crypto.buffer_owner), ("C17.err", crypto.buffer_err), ("C17.send", crypto.fresh_buffers),
      ("C17.len", codec.length_forms), ("C17.exc", only(c07.exc_table, "OutOfBuffer")), ("C17.itererr", py.iter_errors_propagate), ("C17.sendres", crypto.send_result_used), ("C17.priv-fresh", crypto.priv_fresh), ("C17.nested", crypto.nested_lengths), ("C17.handlen", crypto.hand_lengths), ("C17.padconst", crypto.pad_constants), ("C17.oob", crypto.out_of_buffer_owner), ("C17.privlayout", only(crypto.priv_layout, "decrypt"))])

prop("C09", "other",
     "HMAC byte equality is NOT decided. Decided: in v3 push_pdu sign runs on every Ok path of an authenticated session with no "
     "condition other than has_auth(), after msg.push_ber(buf), over buf.data_mut() (the whole message) at buf.get_bookmark(), and "
     "nothing touches the buffer afterwards; set_bookmark(2) directly follows push_tagged(auth_params) (validator of the audited "
     "offset obligation); flag_auth / auth_params derive from has_auth() / placeholder(); constants (ipad 0x36, opad 0x5c, block "
     "64, MAC 12, key size = digest size for both aliases); canonical HMAC shape of DigestAuth::sign (tolerant) and MAC placement "
     "data[offset..offset+SS] = d2[0..SS]; the two key installers refresh the same fields and sign reads only refreshed state; "
     "engine id / keys consistency rules of C13."
     " Added in round 5: the Python key classes store the key bytes as given (only aligned, never rewritten). Added in round 7: the inner hash is fed the message parameter itself - a sub-range that is not provably the whole (`[..]`, `[..len]`) is a violation, an extent re-derived from the message's own header is inconclusive. Round 8: the key installers are called with (key, engine id) in this order.",
     [("C09.order", crypto.sign_order), ("C09.const", crypto.hmac_consts), ("C09.shape", crypto.hmac_shape), ("C09.flag", v3.cred),
      ("C09.keys", v3.keys), ("C09.adopt", v3.adopt), ("C09.ktargs", only(crypto.key_type_rejections, "(key, engine id)")), ("C09.accept", c04.accept), ("C09.msgflags", crypto.msg_flags), ("C09.dispatch", only(crypto.key_dispatch, "auth::", "AuthKey")), ("C09.chain", crypto.key_chain), ("C09.py", py.refresh_flow), ("C09.user", only(crypto.key_ffi, "user.")), ("C09.errprop", py.errors_propagate)])

prop("C11", "other",
     "Ciphertext correctness is NOT decided. Decided: both ciphers reset their private buffer before every use (history "
     "independence); key / pre-IV / IV / salt layouts against RFC 3414 8.1.1.1 and RFC 3826 3.1.2.1 (DES key = Kul[0..8], pre-IV = "
     "Kul[8..16], IV = salt xor pre-IV, salt = boots|counter; AES key = Kul[0..16], IV = boots|time|salt64, salt sent = "
     "priv_params[8..]); decrypt builds its IV from the message's USM boots/time/salt with the same layout; the range encrypted in "
     "place equals the range returned (b[..padded_len]) and padded_len is proved in bounds (num); push_pdu passes the session's "
     "scoped PDU, boots and time in this order; the skipped buffer is parsed only after a successful decryption; key localisation "
     "chain (auth digest, session engine id, own key-type bits)."
     " Added in round 5: nested lengths of the encoders (the cipher pre-pushes padding into its private buffer); the adopted engine id is msgAuthoritativeEngineID.",
     [("C11.fresh", crypto.priv_fresh), ("C11.layout", crypto.priv_layout), ("C11.args", v3.cred), ("C11.keys", v3.keys), ("C11.choice", v3.priv_choice), ("C11.msgflags", crypto.msg_flags), ("C11.pad", numrules.des_padding), ("C11.scoped", only(crypto.key_size_guards, "ScopedPdu")), ("C11.padconst", crypto.pad_constants), ("C11.user", only(crypto.key_ffi, "User.")), ("C11.nested", crypto.nested_lengths), ("C11.adopt", only(v3.adopt, "-source", "only-when"))])

prop("C12", "other",
     "Digest equality with RFC 3414 A.2 is NOT decided. Decided: no undischarged panic site from SnmpV3ClientSocket::new, "
     "set_keys, get_master_key, get_localized_key (empty password, wrong-size keys refused); algorithm-code tables of AuthKey::new "
     "/ PrivKey::new for all 64 codes and key-type table of as_key_type; Python constants (AUTH_ALG, PRIV_ALG, KEY_LENGTH, KeyType, "
     "_mask = value << 6, get_*_alg/get_*_key, padding of aligned keys by the privacy key's own type) agree with the Rust side; "
     "as_password = password_to_master then as_master, as_master = localize then store; canonical shapes: localize hashes key, "
     "engine id, key; password_to_master feeds exactly MEGABYTE/len whole copies and then password[..MEGABYTE%len]; the privacy key "
     "is localised with the auth digest, the session engine id and its own key-type bits (new and set_keys). Added in rounds 6-7: key classes define no __len__ / __bool__ and privacy key classes take the key as given; the engine id keys are localised with is learnt from msgAuthoritativeEngineID; AuthKey::as_key_type refuses on type bits and key size only, never on the algorithm bits. Round 8: get_master_key / get_localized_key hand their own parameters to the extension.",
     [("C12.refuse", numrules.c12_refuse), ("C12.dispatch", crypto.key_dispatch), ("C12.ffi", crypto.key_ffi), ("C12.chain", crypto.key_chain),
      ("C12.keys", v3.keys), ("C12.const", crypto.hmac_consts), ("C12.sizes", only(crypto.key_size_guards, "util::")), ("C12.py", py.refresh_flow), ("C12.keycls", py.key_classes), ("C12.engine", only(v3.adopt, "-source")), ("C12.ktreject", crypto.key_type_rejections)])

prop("C14", "other",
     "Given the rules, uniqueness follows (+1 mod 2^w is injective over fewer than 2^w steps): salt_value is written only at key "
     "installation (from the RNG) and in encrypt as salt_value.wrapping_add(1); priv_params is written only in encrypt; no exit of "
     "encrypt lies between copying the salt into the message and advancing the counter; the transmitted parameters are 8 octets "
     "([u8; 8] / [u8; 16][8..]); flag_priv, the Encrypted/Plaintext choice and the encrypt call are governed by the same "
     "has_priv() and Encrypted carries encrypt()'s output. NOT decided: absence of plaintext octet runs in the ciphertext.",
     [("C14.counter", crypto.salt_counter), ("C14.flag", v3.priv_choice), ("C14.cred", v3.cred), ("C14.layout", crypto.priv_layout), ("C14.msgflags", crypto.msg_flags), ("C14.py", py.refresh_flow), ("C14.user", only(crypto.key_ffi, "User.__init__")), ("C14.keys", v3.keys), ("C14.dispatch", only(crypto.key_dispatch, "privacy::")), ("C14.keycls", py.key_classes)])
