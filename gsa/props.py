"""Registry: property id -> level, rules, explanation.  MANIFEST.json is generated from it
(checks/gen_manifest.py) so that the two cannot drift."""
from .rules import py

TRUSTED = [
    "rustc nightly 1.97 MIR construction (dev profile, -Zmir-opt-level=0) as a faithful account of the program",
    "tools/mirfacts serialisation of MIR, types, constants and call resolution",
    "the analyser in /verif/gsa (not mechanically verified)",
    "spec/models_std.json: panic/precondition model of external callees (core/alloc/std/nom/cipher/digest/rand/socket2/pyo3)",
    "allocation failure, stack overflow and failures inside CPython are out of scope",
]

PROPS = {}


def prop(pid, level, explanation, rules, **kw):
    PROPS[pid] = dict(id=pid, level=level, explanation=explanation, rules=rules, trusted_base=TRUSTED, **kw)


prop("C19", "other",
     "Python-AST rules: every sender awaits the policer first (sync get/get_many/iterators, async _send through which "
     "every send_* goes), constructor validation raises ValueError for rps<=0 and for a zero interval, wait()/wait_sync() "
     "sleep delta/NS only for a positive delta taken from get_timeout(perf_counter_ns()), _prev is written only in "
     "get_timeout, and get_timeout's (path condition -> update, return) rows are compared with the reference slot "
     "arithmetic. Decides the wiring and validation clauses; the slot arithmetic over histories (the rate bound itself) "
     "is NOT decided: a rewritten arithmetic is reported inconclusive, not as a violation.",
     [("C19.guard", py.policer_guard), ("C19.core", py.policer_core)])

from .rules import c04  # noqa: E402

prop("C04", "other",
     "CFG path rules on resolved MIR: in each of the three unwrap_pdu, deleting the accepting edge of each required "
     "comparison (community / user name / engine id / msgID / request-id; operands pinned by provenance to message "
     "field vs. same-named session field) makes `return Some(pdu)` unreachable; SnmpPdu::check compares each variant's "
     "own request_id, RequestId::check is equality, the id is written only in get_next (masked to 31 bits) once per "
     "send before the PDU is built; in _recv_inner the None arm can only return through another recv_socket and a "
     "decode failure never re-enters the loop. Decides every structural clause; nothing numeric is involved "
     "(the 2^-31 id collision is outside any technique).",
     [("C04.accept", c04.accept), ("C04.check", c04.pdu_check), ("C04.skip", c04.skip_loop),
      ("C04.single", c04.single_id), ("C04.report", c04.report_only_v3)])

# properties not claimed (with the reason); kept current by hand
NOT_APPLICABLE = {}
