"""Symbolic path enumeration for the Python layer (rule kind Y, second generation).

A function is unfolded into its paths.  Along a path local variables are substituted by the expression
they were assigned (copy propagation, tuple unpacking, conditional expressions split into cases), calls of
private helper methods of the same class are inlined (their paths are spliced in, parameters bound,
return value substituted), conditions are normalised into atoms with polarity (not / and / or / De Morgan,
`is None`, `== 0`).  Rules are then stated over events (calls, stores to self attributes, returns, raises)
with the atoms known at that point - independent of local names, helper extraction, if/elif/early-return
shape."""
import ast
import copy

MAX_PATHS = 4000


class Subst(ast.NodeTransformer):
    def __init__(self, env):
        self.env = env

    def visit(self, node):
        if getattr(node, "_ns", False):
            return node
        return super().visit(node)

    def visit_Attribute(self, node):
        if isinstance(node.ctx, ast.Load):
            v = self.env.get("@attr:" + ast.unparse(node))
            if isinstance(v, ast.AST):
                r = copy.deepcopy(v)
                r._ns = True
                r._bound = True
                return r
        self.generic_visit(node)
        return node

    def visit_Name(self, node):
        if isinstance(node.ctx, ast.Load) and node.id in self.env and isinstance(self.env[node.id], ast.AST):
            r = copy.deepcopy(self.env[node.id])
            r._ns = True
            return r
        return node


def subst(node, env):
    if node is None:
        return None
    return Subst(env).visit(copy.deepcopy(node))


def simplify(node):
    """Light canonicalisation of an expression tree."""
    if node is None:
        return None
    node = copy.deepcopy(node)

    class S(ast.NodeTransformer):
        def visit_IfExp(self, n):
            self.generic_visit(n)
            # x if x else y  ==  x or y
            if ast.dump(n.test) == ast.dump(n.body):
                return ast.BoolOp(op=ast.Or(), values=[n.body, n.orelse])
            return n

        def visit_UnaryOp(self, n):
            self.generic_visit(n)
            if isinstance(n.op, ast.Not) and isinstance(n.operand, ast.UnaryOp) and isinstance(n.operand.op, ast.Not):
                return n.operand.operand
            return n

        def visit_Compare(self, n):
            self.generic_visit(n)
            if len(n.ops) == 1:
                l, r = n.left, n.comparators[0]
                cl, cr = _const(l), _const(r)
                if cl is not _NC and cr is not _NC:
                    v = _cmp_const(n.ops[0], cl, cr)
                    if v is not None:
                        return ast.Constant(value=v)
                # `<non-None expression> is None`
                if isinstance(n.ops[0], (ast.Is, ast.IsNot)) and cr is None and _never_none(l):
                    return ast.Constant(value=isinstance(n.ops[0], ast.IsNot))
            return n
    return S().visit(node)


class _NCType:
    pass


_NC = _NCType()


def _const(n):
    if isinstance(n, ast.Constant):
        return n.value
    return _NC


def _cmp_const(op, a, b):
    try:
        if isinstance(op, ast.Is):
            return a is b
        if isinstance(op, ast.IsNot):
            return a is not b
        if isinstance(op, ast.Eq):
            return a == b
        if isinstance(op, ast.NotEq):
            return a != b
    except Exception:
        return None
    return None


def _never_none(n):
    return isinstance(n, (ast.BinOp, ast.JoinedStr, ast.Tuple, ast.List, ast.Dict)) or \
        (isinstance(n, ast.Constant) and n.value is not None) or \
        (isinstance(n, ast.Call) and isinstance(n.func, ast.Name) and n.func.id in ("float", "int", "str", "bytes", "list", "bool"))


def text(node):
    return ast.unparse(simplify(node)) if node is not None else "None"


def atom_text(node):
    """Canonical text of an atomic condition; == / is are symmetric."""
    if isinstance(node, ast.Compare) and len(node.ops) == 1:
        a, b = text(node.left), text(node.comparators[0])
        op = node.ops[0]
        if isinstance(op, (ast.Eq, ast.Is)):
            if b in ("0", "0.0") or a in ("0", "0.0"):
                other = a if b in ("0", "0.0") else b
                return (other, False)  # x == 0  ~  not x (numbers)
            return ("eq(%s,%s)" % tuple(sorted((a, b))), True)
        if isinstance(op, (ast.NotEq, ast.IsNot)):
            if b in ("0", "0.0") or a in ("0", "0.0"):
                other = a if b in ("0", "0.0") else b
                return (other, True)
            return ("eq(%s,%s)" % tuple(sorted((a, b))), False)
        if isinstance(op, ast.Lt):
            return ("%s < %s" % (a, b), True)
        if isinstance(op, ast.GtE):
            return ("%s < %s" % (a, b), False)
        if isinstance(op, ast.Gt):
            return ("%s < %s" % (b, a), True)
        if isinstance(op, ast.LtE):
            return ("%s < %s" % (b, a), False)
    return (text(node), True)


def atoms(test, pol):
    """Atoms [(text, polarity)] known to hold when `test` evaluates to `pol`; [] when nothing atomic follows."""
    test = simplify(test)
    if isinstance(test, ast.Constant):
        return []
    if isinstance(test, ast.UnaryOp) and isinstance(test.op, ast.Not):
        return atoms(test.operand, not pol)
    if isinstance(test, ast.Call) and isinstance(test.func, ast.Name) and test.func.id == "bool" and len(test.args) == 1 and not test.keywords:
        return atoms(test.args[0], pol)      # bool(x) in a test is the truth of x
    if isinstance(test, ast.BoolOp):
        if (isinstance(test.op, ast.And) and pol) or (isinstance(test.op, ast.Or) and not pol):
            out = []
            for v in test.values:
                out += atoms(v, pol)
            return out
        return [(text(test), pol)]
    t, p = atom_text(test)
    return [(t, p if pol else not p)]


def propagate(conds):
    """Unit propagation over the atoms of a path: `(A or B)` known true with A known false gives B; `(A and B)` known
    false with A known true gives not B.  Returns the extended tuple."""
    conds = list(conds)
    for _ in range(4):
        known = {}
        for t, p in conds:
            known.setdefault(t, p)
        added = False
        for t, p in list(conds):
            if " or " not in t and " and " not in t:
                continue
            try:
                n = ast.parse(t, mode="eval").body
            except SyntaxError:
                continue
            if not isinstance(n, ast.BoolOp):
                continue
            want_or = isinstance(n.op, ast.Or) and p is True
            want_and = isinstance(n.op, ast.And) and p is False
            if not (want_or or want_and):
                continue
            open_ = []
            for v in n.values:
                at = atoms(v, True)
                val = None
                if len(at) == 1 and at[0][0] in known:
                    val = known[at[0][0]] == at[0][1]
                elif len(at) > 1 and all(a[0] in known and known[a[0]] == a[1] for a in at):
                    val = True
                if want_or and val is True or want_and and val is False:
                    open_ = None   # already satisfied
                    break
                if val is None:
                    open_.append(v)
            if open_ is not None and len(open_) == 1:
                for a in atoms(open_[0], True if want_or else False):
                    if a not in conds:
                        conds.append(a)
                        added = True
        if not added:
            break
    return tuple(conds)


def const_truth(test):
    """True/False when the (simplified) test is a constant, else None."""
    t = simplify(test)
    if isinstance(t, ast.Constant):
        return bool(t.value)
    if isinstance(t, ast.UnaryOp) and isinstance(t.op, ast.Not):
        v = const_truth(t.operand)
        return None if v is None else not v
    return None


class Event:
    __slots__ = ("kind", "func", "args", "target", "value", "conds", "handlers", "excepts", "loops", "awaited", "node", "origin")

    def __init__(self, kind, **kw):
        self.kind = kind
        self.func = kw.get("func")
        self.args = kw.get("args", [])
        self.target = kw.get("target")
        self.value = kw.get("value")
        self.conds = kw.get("conds", ())
        self.handlers = kw.get("handlers", ())
        self.excepts = kw.get("excepts", ())
        self.loops = kw.get("loops", 0)
        self.awaited = kw.get("awaited", False)
        self.node = kw.get("node")
        self.origin = kw.get("origin")

    def has(self, t, pol=True):
        return (t, pol) in self.conds

    def __repr__(self):
        if self.kind == "call":
            return "call %s(%s)" % (self.func, ", ".join(self.args))
        return "%s %s %s" % (self.kind, self.target or "", self.value or "")


class PState:
    __slots__ = ("env", "conds", "events", "done", "ret", "raised")

    def __init__(self):
        self.env = {}
        self.conds = ()
        self.events = []
        self.done = None   # None | 'return' | 'raise'
        self.ret = None
        self.raised = None

    def fork(self):
        s = PState()
        s.env = dict(self.env)
        s.conds = self.conds
        s.events = list(self.events)
        s.done = self.done
        s.ret = self.ret
        s.raised = self.raised
        return s


def _pos_args(call):
    """Positional arguments with `*(a, b, c)` / `*[a, b]` literals spliced in (after a tuple-returning helper was inlined)."""
    out = []
    for a in call.args:
        if isinstance(a, ast.Starred) and isinstance(a.value, (ast.Tuple, ast.List)):
            out += list(a.value.elts)
        else:
            out.append(a)
    return out


class Unfolder:
    def __init__(self, classes, module_funcs=None, inline=True):
        self.classes = classes          # class name -> {method name: ast.FunctionDef}
        self.module_funcs = module_funcs or {}
        self.inline = inline
        self.stack = []
        self.rebound_params = set()

    def paths(self, cls, fn, args=None, depth=0):
        """All paths of method `fn` (ast node) of class `cls`."""
        st = PState()
        if args:
            st.env.update(args)
        params = {a.arg for a in fn.args.posonlyargs + fn.args.args + fn.args.kwonlyargs}
        self.rebound_params = set()
        for n in ast.walk(fn):
            if isinstance(n, ast.Name) and isinstance(n.ctx, ast.Store) and n.id in params:
                self.rebound_params.add(n.id)
        self.stack.append((cls, fn.name))
        try:
            outs = self.block(fn.body, [st], cls, fn, {"handlers": (), "excepts": (), "loops": 0}, depth)
        finally:
            self.stack.pop()
        return outs

    # ------------------------------------------------------------------ statements
    def block(self, stmts, states, cls, fn, ctx, depth):
        for s in stmts:
            live = [x for x in states if x.done is None]
            deadp = [x for x in states if x.done is not None]
            if not live:
                break
            if len(live) > MAX_PATHS:
                live = live[:MAX_PATHS]
            states = deadp + self.stmt(s, live, cls, fn, ctx, depth)
        return states

    def stmt(self, s, states, cls, fn, ctx, depth):
        if isinstance(s, (ast.FunctionDef, ast.AsyncFunctionDef)):
            for st in states:
                st.env[s.name] = None
                st.env["@def:" + s.name] = s
            return states
        if isinstance(s, ast.Expr):
            if isinstance(s.value, ast.Constant):
                return states
            out = []
            for st in states:
                out += self.eval_effects(s.value, st, cls, fn, ctx, depth, want_value=False)[0]
            return out
        if isinstance(s, (ast.Assign, ast.AnnAssign)):
            targets = s.targets if isinstance(s, ast.Assign) else [s.target]
            value = s.value
            if value is None:
                return states
            out = []
            for st in states:
                for st2, v in self.eval_cases(value, st, cls, fn, ctx, depth):
                    if st2.done is None:
                        for t in targets:
                            self.assign(st2, t, v, ctx, s)
                    out.append(st2)
            return out
        if isinstance(s, ast.AugAssign):
            out = []
            for st in states:
                # the current value of a local is what it was bound to (the target node itself is a Store and is not substituted)
                cur = subst(ast.Name(id=s.target.id, ctx=ast.Load()), st.env) if isinstance(s.target, ast.Name) else s.target
                v = ast.BinOp(left=copy.deepcopy(cur), op=s.op, right=subst(s.value, st.env))
                self.assign(st, s.target, v, ctx, s)
                out.append(st)
            return out
        if isinstance(s, ast.Return):
            out = []
            for st in states:
                if s.value is None:
                    st.done, st.ret = "return", None
                    st.events.append(Event("return", value="None", conds=st.conds, node=s, **self._c(ctx)))
                    out.append(st)
                    continue
                for st2, v in self.eval_cases(s.value, st, cls, fn, ctx, depth):
                    if st2.done is not None:
                        out.append(st2)
                        continue
                    st2.done, st2.ret = "return", v
                    st2.events.append(Event("return", value=text(v), conds=st2.conds, node=s, **self._c(ctx)))
                    out.append(st2)
            return out
        if isinstance(s, ast.Raise):
            for st in states:
                exc = subst(s.exc, st.env) if s.exc is not None else None
                name = text(exc).split("(")[0] if exc is not None else "re-raise"
                st.done, st.raised = "raise", name
                st.events.append(Event("raise", value=name, conds=st.conds, node=s, **self._c(ctx)))
            return states
        if isinstance(s, ast.If):
            out = []
            for st in states:
                test = subst(s.test, st.env)
                pre = self.eval_effects(test, st, cls, fn, ctx, depth, want_value=False, record_only=True)[0]
                for st1 in pre:
                    test1 = subst(s.test, st1.env)
                    ct = const_truth(test1)
                    branches = []
                    if ct is not False:
                        a = st1.fork()
                        a.conds = propagate(a.conds + tuple(atoms(test1, True)))
                        if not _contradiction(a.conds):
                            branches += self.block(s.body, [a], cls, fn, ctx, depth)
                    if ct is not True:
                        b = st1.fork()
                        b.conds = propagate(b.conds + tuple(atoms(test1, False)))
                        if not _contradiction(b.conds):
                            branches += self.block(s.orelse, [b], cls, fn, ctx, depth)
                    out += branches
            return out
        if isinstance(s, ast.Try):
            hs = []
            for h in s.handlers:
                names = ["BaseException"] if h.type is None else ([ast.unparse(e) for e in h.type.elts] if isinstance(h.type, ast.Tuple) else [ast.unparse(h.type)])
                raised = None
                for x in h.body:
                    if isinstance(x, ast.Raise) and x.exc is not None:
                        raised = ast.unparse(x.exc).split("(")[0]
                    if isinstance(x, ast.Continue):
                        raised = raised or "@continue"
                for n in names:
                    hs.append((n, raised))
            ctx2 = dict(ctx, handlers=ctx["handlers"] + tuple(hs))
            out = self.block(s.body, states, cls, fn, ctx2, depth)
            # a raise inside the body caught by a handler continues after the handler (handler effects recorded)
            res = []
            for st in out:
                if st.done == "raise" and any(st.raised == n or n in ("Exception", "BaseException") for n, _ in hs):
                    h = [h for h in s.handlers if h.type is None or st.raised in ast.unparse(h.type) or ast.unparse(h.type) in ("Exception", "BaseException")][0]
                    st.done, st.raised = None, None
                    ht = ast.unparse(h.type) if h.type is not None else "BaseException"
                    res += self.block(h.body, [st], cls, fn, dict(ctx, excepts=ctx["excepts"] + (ht,)), depth)
                else:
                    res.append(st)
            live = [x for x in res if x.done is None]
            deadp = [x for x in res if x.done is not None]
            if s.orelse:
                live = self.block(s.orelse, live, cls, fn, ctx, depth)
            if s.finalbody:
                live = self.block(s.finalbody, live, cls, fn, ctx, depth)
            return deadp + live
        if isinstance(s, (ast.While, ast.For, ast.AsyncFor)):
            ctx2 = dict(ctx, loops=ctx["loops"] + 1)
            out = []
            for st in states:
                once = st.fork()
                flag_loop = isinstance(s, ast.While) and const_truth(s.test) is None
                entry_truth = const_truth(subst(s.test, st.env)) if flag_loop else None
                if isinstance(s, ast.While):
                    test = subst(s.test, once.env)
                    if entry_truth is None:
                        once.conds = once.conds + tuple(atoms(test, True))
                else:
                    for e in self.eval_effects(subst(s.iter, once.env), once, cls, fn, ctx, depth, want_value=False, record_only=True)[0][:1]:
                        once = e
                    self._kill_target(once, s.target)
                body = self.block(s.body, [once], cls, fn, ctx2, depth) if entry_truth is not False else []
                for b in body:
                    # `continue`/loop end: one more iteration is not unfolded.  A loop run by a flag (`pending = True; while
                    # pending: ..`) whose flag is still known to be set at the end of the iteration does not leave here: that
                    # way out does not exist (the iterations that follow repeat the paths already unfolded)
                    if flag_loop and not b.done and const_truth(subst(s.test, b.env)) is True:
                        continue
                    out.append(b)
                if not (isinstance(s, ast.While) and const_truth(s.test) is True) and entry_truth is not True:
                    skip = st.fork()
                    out.append(skip)
            return out
        if isinstance(s, (ast.With, ast.AsyncWith)):
            return self.block(s.body, states, cls, fn, ctx, depth)
        if isinstance(s, ast.Delete):
            for st in states:
                for tg in s.targets:
                    st.events.append(Event("delete", target=text(subst(tg, st.env)), conds=st.conds, node=s, **self._c(ctx)))
            return states
        if isinstance(s, (ast.Continue, ast.Break, ast.Pass, ast.Import, ast.ImportFrom, ast.Global, ast.Nonlocal)):
            return states
        # anything else: record calls
        out = []
        for st in states:
            for n in ast.iter_child_nodes(s):
                if isinstance(n, ast.expr):
                    self.eval_effects(n, st, cls, fn, ctx, depth, want_value=False, record_only=True)
            out.append(st)
        return out

    def _c(self, ctx):
        return {"handlers": ctx["handlers"], "excepts": ctx["excepts"], "loops": ctx["loops"]}

    def _kill_target(self, st, t):
        for n in ast.walk(t):
            if isinstance(n, ast.Name):
                st.env[n.id] = None

    def assign(self, st, target, value, ctx, node):
        if isinstance(target, ast.Name):
            if target.id in self.rebound_params:
                # a re-bound parameter merges caller value and default: kept opaque, the binding is an event
                st.events.append(Event("bind", target=target.id, value=text(value), conds=st.conds, node=node, **self._c(ctx)))
                st.env[target.id] = None
                _age(st, target.id, word=True)
                return
            v = simplify(value)
            if isinstance(v, ast.AST):
                v._bound = True
            st.env[target.id] = v
            return
        if isinstance(target, (ast.Tuple, ast.List)):
            if isinstance(value, (ast.Tuple, ast.List)) and len(value.elts) == len(target.elts):
                for t, v in zip(target.elts, value.elts):
                    self.assign(st, t, v, ctx, node)
            else:
                self._kill_target(st, target)
            return
        tt = text(subst(target, st.env))
        st.events.append(Event("store", target=tt, value=text(value), conds=st.conds, node=node, **self._c(ctx)))
        _age(st, tt)
        if isinstance(target, ast.Attribute) and _pure(value):
            st.env["@attr:" + tt] = simplify(value)
        else:
            st.env.pop("@attr:" + tt, None)

    # ------------------------------------------------------------------ expressions
    def eval_cases(self, expr, st, cls, fn, ctx, depth):
        """[(state, value expr)]: conditional expressions are split into cases, helper calls (private methods of the
        module's classes, nested functions) are inlined wherever they occur in the expression."""
        expr = subst(expr, st.env)
        if isinstance(expr, ast.IfExp):
            out = []
            ct = const_truth(expr.test)
            for pol, sub in ((True, expr.body), (False, expr.orelse)):
                if ct is (not pol):
                    continue
                a = st.fork()
                a.conds = propagate(a.conds + tuple(atoms(expr.test, pol)))
                if not _contradiction(a.conds):
                    out += self.eval_cases(sub, a, cls, fn, ctx, depth)
            return out
        hit = self._find_inlineable(expr, cls, st) if (self.inline and depth < 5) else None
        if hit is None:
            self._record_calls(expr, st, ctx)
            return [(st, expr)]
        call, parent, field, idx, helper = hit
        hcls, hfn, recv = helper
        # arguments are evaluated first
        for a in call.args:
            self._record_calls(a, st, ctx)
            a._bound = True
        for k in call.keywords:
            self._record_calls(k.value, st, ctx)
            k.value._bound = True
        params = [a.arg for a in hfn.args.posonlyargs + hfn.args.args]
        env = {}
        awaited = isinstance(parent, ast.Await)
        st.events.append(Event("call", func=text(call.func), args=[text(a) for a in _pos_args(call)] + ["%s=%s" % (k.arg, text(k.value)) for k in call.keywords],
                               conds=st.conds, awaited=awaited, node=call, origin=("@inlined",), **self._c(ctx)))
        closure = recv is None
        if closure:
            env.update(st.env.get("@closure:" + call.func.id) or st.env)
        elif recv == "@module":
            pass
        elif params and params[0] in ("self", "cls"):
            if recv != "self":
                env["self"] = ast.parse(recv, mode="eval").body
            params = params[1:]
        defaults = hfn.args.defaults
        for p, d in zip(params[len(params) - len(defaults):], defaults):
            env[p] = d
        for p, a in zip(params, _pos_args(call)):
            env[p] = a
            if isinstance(a, ast.Lambda) and not a.args.vararg and not a.args.kwarg:
                # a lambda handed to the helper is a nested function with a single return, closed over the caller's state
                d = ast.FunctionDef(name=p, args=a.args, body=[ast.Return(value=a.body)], decorator_list=[], returns=None, type_comment=None)
                ast.copy_location(d, a)
                ast.fix_missing_locations(d)
                env["@def:" + p] = d
                env["@closure:" + p] = dict(st.env)
                env[p] = None
                continue
            if isinstance(a, ast.Name) and ("@def:" + a.id) in st.env:
                env["@def:" + p] = st.env["@def:" + a.id]
                env["@closure:" + p] = st.env.get("@closure:" + a.id) or dict(st.env)
                env[p] = None
        for kw in call.keywords:
            if kw.arg:
                env[kw.arg] = kw.value
        sub = Unfolder(self.classes, self.module_funcs, self.inline)
        sub.stack = list(self.stack)
        hpaths = sub.paths(hcls, hfn, env, depth + 1)
        out = []
        for hp in hpaths[:128]:
            s2 = st.fork()
            # what the caller knew about an attribute the helper stores to speaks about the old value from there on
            for e in hp.events:
                if e.kind == "store" and e.target:
                    _age(s2, e.target)
            aged = s2.conds
            s2.conds = s2.conds + tuple(c for c in hp.conds if c not in s2.conds)
            if _contradiction(s2.conds):
                continue
            base = tuple(st.conds)
            for e in hp.events:
                if e.kind == "return":
                    continue
                e2 = copy.copy(e)
                e2.conds = base + tuple(c for c in e.conds if c not in base)
                if e.kind == "store" and e.target:
                    base = aged
                e2.handlers = ctx["handlers"] + e.handlers
                e2.excepts = ctx["excepts"] + e.excepts
                e2.loops = ctx["loops"] + e.loops
                e2.origin = (hfn.name,) + tuple(x for x in (e.origin or ()) if x != "@inlined")
                s2.events.append(e2)
            if closure:
                # stores of the nested function to enclosing state are attribute stores only (no nonlocal here)
                pass
            if hp.done == "raise":
                s2.done, s2.raised = "raise", hp.raised
                out.append((s2, None))
                continue
            rv = copy.deepcopy(hp.ret) if hp.ret is not None else ast.Constant(value=None)
            if isinstance(hfn, ast.AsyncFunctionDef) and not awaited:
                rv = ast.Name(id="coro(%s)" % hfn.name, ctx=ast.Load())
            rv._bound = True
            rv._ns = True
            new_expr = _replace(expr, call, rv)
            out += self.eval_cases(new_expr, s2, cls, fn, ctx, depth)
        return out

    def eval_effects(self, expr, st, cls, fn, ctx, depth, want_value=True, record_only=False):
        """Record the calls of an expression.  Returns ([states], [values])."""
        if record_only:
            self._record_calls(subst(expr, st.env), st, ctx)
            return [st], [expr]
        res = self.eval_cases(expr, st, cls, fn, ctx, depth)
        return [r[0] for r in res], [r[1] for r in res]

    def _find_inlineable(self, expr, cls, st):
        """First (innermost, left to right) call of a helper inside expr: (call, parent, field, index, helper)."""
        found = []

        def walk(n, parent, field, idx):
            if getattr(n, "_bound", False):
                return
            for f, v in ast.iter_fields(n):
                if isinstance(v, ast.AST):
                    walk(v, n, f, None)
                elif isinstance(v, list):
                    for i, x in enumerate(v):
                        if isinstance(x, ast.AST):
                            walk(x, n, f, i)
            if isinstance(n, ast.Call) and not found:
                h = self._helper(n, cls, st)
                if h is not None and (h[0], h[1].name) not in self.stack:
                    found.append((n, parent, field, idx, h))
        if isinstance(expr, ast.Lambda):
            return None
        walk(expr, None, None, None)
        return found[0] if found else None

    def _helper(self, call, cls, st):
        f = call.func
        if isinstance(f, ast.Attribute) and f.attr.startswith("_") and not f.attr.startswith("__"):
            recv = ast.unparse(f.value)
            if recv == "self" and cls in self.classes and f.attr in self.classes[cls]:
                return (cls, self.classes[cls][f.attr], "self")
            if recv.startswith("self") or recv == "cls":
                owners = [c for c, ms in self.classes.items() if f.attr in ms]
                if len(owners) == 1:
                    return (owners[0], self.classes[owners[0]][f.attr], recv if recv != "cls" else "self")
        if isinstance(f, ast.Name):
            d = st.env.get("@def:" + f.id)
            if d is not None:
                return (cls, d, None)
            d = self.module_funcs.get(f.id)
            if d is not None and f.id not in st.env:
                return (cls, d, "@module")
        return None

    def _record_calls(self, expr, st, ctx, awaited_top=False):
        calls = []

        def walk(n, aw):
            if getattr(n, "_bound", False):
                return
            if isinstance(n, ast.Await):
                walk(n.value, True)
                return
            if isinstance(n, ast.Lambda):
                return
            for c in ast.iter_child_nodes(n):
                if isinstance(c, (ast.expr, ast.keyword)):
                    walk(c, False)
            if isinstance(n, ast.Call):
                calls.append((n, aw))
        if expr is None:
            return
        walk(expr, awaited_top)
        for c, aw in calls:
            args = [text(a) for a in _pos_args(c)] + ["%s=%s" % (k.arg, text(k.value)) for k in c.keywords]
            st.events.append(Event("call", func=text(c.func), args=args, conds=st.conds, awaited=aw, node=c, **self._c(ctx)))
            c._bound = True


def _replace(root, old, new):
    """Replace node `old` (or the Await wrapping it) inside root by `new`; returns the new root."""
    if root is old:
        return new
    if isinstance(root, ast.Await) and root.value is old:
        return new
    for n in ast.walk(root):
        for f, v in ast.iter_fields(n):
            if v is old:
                setattr(n, f, new)
                return _unwrap_await(root, new)
            if isinstance(v, list):
                for i, x in enumerate(v):
                    if x is old:
                        v[i] = new
                        return _unwrap_await(root, new)
    return root


def _unwrap_await(root, new):
    if isinstance(root, ast.Await) and root.value is new:
        return new
    for n in ast.walk(root):
        for f, v in ast.iter_fields(n):
            if isinstance(v, ast.Await) and v.value is new:
                setattr(n, f, new)
            elif isinstance(v, list):
                for i, x in enumerate(v):
                    if isinstance(x, ast.Await) and x.value is new:
                        v[i] = new
    return root


class _Old(ast.NodeTransformer):
    def __init__(self, t):
        self.t = t

    def visit_Attribute(self, n):
        if isinstance(n.ctx, ast.Load) and ast.unparse(n) == self.t:
            r = ast.Name(id="old(%s)" % self.t, ctx=ast.Load())
            return r
        self.generic_visit(n)
        return n

    visit_Subscript = visit_Attribute

    def visit_Name(self, n):
        if isinstance(n.ctx, ast.Load) and n.id == self.t:
            return ast.Name(id="old(%s)" % self.t, ctx=ast.Load())
        return n


def _pure(v):
    for n in ast.walk(v):
        if isinstance(n, (ast.Await, ast.Yield, ast.YieldFrom)):
            return False
        if isinstance(n, ast.Call) and not (isinstance(n.func, ast.Name) and n.func.id in ("int", "float", "bool", "len", "str", "bytes")):
            return False
    return True


def _age(st, t, word=False):
    """After a store to attribute/subscript `t` (or the re-binding of parameter `t`), earlier knowledge mentioning `t`
    speaks about its old value."""
    import re
    pat = re.compile((r"(?<![\w.(])%s(?![\w])" if word else r"(?<![\w(])%s(?![\w])") % re.escape(t))
    for k, v in list(st.env.items()):
        if isinstance(v, ast.AST) and not k.startswith("@def:") and pat.search(ast.unparse(v)):
            b = getattr(v, "_bound", False)
            v2 = _Old(t).visit(copy.deepcopy(v))
            if b:
                v2._bound = True
            st.env[k] = v2
    st.conds = tuple((pat.sub("old(%s)" % t, c), p) for c, p in st.conds)


def reduce(expr, conds):
    """Evaluate an expression under the atoms known on a path: sub-expressions whose truth is known are folded
    (`x or y` -> x when x is known truthy, y when known falsy; `a and b`; `not`; `t if c else e`).  Returns text."""
    if isinstance(expr, str):
        expr = ast.parse(expr, mode="eval").body
    known = {}
    for t, p in conds:
        known[t] = p

    def truth(n):
        ct = const_truth(n)
        if ct is not None:
            return ct
        if isinstance(n, ast.BoolOp):
            return None
        at = atoms(n, True)
        if len(at) == 1:
            t, p = at[0]
            if t in known:
                return known[t] == p
        return None

    def boolish(n):
        return isinstance(n, ast.Compare) or (isinstance(n, ast.UnaryOp) and isinstance(n.op, ast.Not))

    def ev(n):
        if isinstance(n, ast.BoolOp):
            vals = [ev(v) for v in n.values]
            keep = []
            for i, v in enumerate(vals):
                t = truth(v)
                last = i == len(vals) - 1
                if isinstance(n.op, ast.Or):
                    if t is True:
                        keep.append(ast.Constant(value=True) if boolish(v) else v)
                        break
                    if t is False and not last:
                        continue
                else:
                    if t is False:
                        return ast.Constant(value=False)
                    if t is True:
                        continue
                keep.append(v)
            if not keep:
                return vals[-1] if isinstance(n.op, ast.Or) else ast.Constant(value=True)
            return _mk(n.op, keep)
        if isinstance(n, ast.UnaryOp) and isinstance(n.op, ast.Not):
            o = ev(n.operand)
            t = truth(o)
            if t is not None:
                return ast.Constant(value=not t)
            return ast.UnaryOp(op=ast.Not(), operand=o)
        if isinstance(n, ast.IfExp):
            c = ev(n.test)
            t = truth(c)
            if t is True:
                return ev(n.body)
            if t is False:
                return ev(n.orelse)
            return ast.IfExp(test=c, body=ev(n.body), orelse=ev(n.orelse))
        if isinstance(n, ast.Compare):
            t = truth(n)
            if t is not None:
                return ast.Constant(value=t)
            return n
        if isinstance(n, ast.Call):
            n2 = copy.deepcopy(n)
            n2.args = [ev(a) for a in n2.args]
            return n2
        return n
    r = ev(copy.deepcopy(expr))
    if boolish(r) or isinstance(r, ast.Name) or isinstance(r, ast.Attribute):
        t = truth(r)
        if t is not None and boolish(r):
            return str(t)
    return text(r)


def _mk(op, vals):
    if len(vals) == 1:
        return vals[0]
    return ast.BoolOp(op=op, values=vals)


def _contradiction(conds):
    s = set(conds)
    for t, p in s:
        if (t, not p) in s:
            return True
    return False


class PyModel:
    """Paths of the methods of the analysed modules, on demand."""

    def __init__(self, pyfacts):
        self.py = pyfacts
        self.classes = {}   # module -> class -> {name: node}
        self.funcs = {}
        for mod, tree in pyfacts.modules.items():
            cl = {}
            for n in tree.body:
                if isinstance(n, ast.ClassDef):
                    cl[n.name] = {m.name: m for m in n.body if isinstance(m, (ast.FunctionDef, ast.AsyncFunctionDef))}
            self.classes[mod] = cl
            # module-level private helpers (def _name(..)) are inlined like private methods
            self.funcs[mod] = {n.name: n for n in tree.body if isinstance(n, (ast.FunctionDef, ast.AsyncFunctionDef))
                               and n.name.startswith("_") and not n.name.startswith("__")}
        self._cache = {}

    def paths(self, mod, cls, meth, inline=True):
        k = (mod, cls, meth, inline)
        if k not in self._cache:
            c = self.classes.get(mod, {}).get(cls, {})
            fn = c.get(meth)
            if fn is None:
                self._cache[k] = None
            else:
                u = Unfolder(self.classes.get(mod, {}), self.funcs.get(mod, {}), inline=inline)
                self._cache[k] = u.paths(cls, fn)
        return self._cache[k]

    def events(self, mod, cls, meth, kind=None, pred=None):
        ps = self.paths(mod, cls, meth)
        out = []
        if ps is None:
            return None
        for pi, p in enumerate(ps):
            for ei, e in enumerate(p.events):
                if kind and e.kind != kind:
                    continue
                if pred and not pred(e):
                    continue
                out.append((pi, ei, e))
        return out
