"""Rule-instance bookkeeping, known findings, evidence and replay files."""
import json
import os
import re
import time

VERIF = os.path.dirname(os.path.dirname(os.path.abspath(__file__)))
EVDIR = os.environ.get("GSA_EVIDENCE_DIR", os.path.join(VERIF, "evidence"))


class Inst:
    __slots__ = ("rule", "key", "status", "detail", "loc", "extra")

    def __init__(self, rule, key, status, detail="", loc="", extra=None):
        self.rule = rule
        self.key = key
        self.status = status
        self.detail = detail
        self.loc = loc
        self.extra = extra or {}

    @property
    def full_key(self):
        return "%s[%s]" % (self.rule, self.key)

    def as_json(self):
        d = {"rule": self.rule, "key": self.key, "status": self.status, "detail": self.detail, "loc": self.loc}
        if self.extra:
            d["extra"] = self.extra
        return d


class Report:
    def __init__(self, prop):
        self.prop = prop
        self.insts = []
        self.assumptions = []
        self.analysed = {}
        self.notes = []
        self.t0 = time.time()

    # --- recording
    def add(self, rule, key, status, detail="", loc="", **extra):
        i = Inst(rule, key, status, detail, loc, extra)
        self.insts.append(i)
        return i

    def ok(self, rule, key, detail="", loc="", **extra):
        return self.add(rule, key, "ok", detail, loc, **extra)

    def violation(self, rule, key, detail="", loc="", **extra):
        return self.add(rule, key, "violation", detail, loc, **extra)

    def inconclusive(self, rule, key, detail="", loc="", **extra):
        return self.add(rule, key, "inconclusive", detail, loc, **extra)

    def audited(self, rule, key, detail="", loc="", **extra):
        return self.add(rule, key, "audited", detail, loc, **extra)

    def info(self, rule, key, detail="", loc="", **extra):
        return self.add(rule, key, "info", detail, loc, **extra)

    def check(self, rule, key, cond, detail_ok="", detail_bad="", loc="", **extra):
        if cond:
            return self.ok(rule, key, detail_ok, loc, **extra)
        return self.violation(rule, key, detail_bad or detail_ok, loc, **extra)

    def floor(self, rule, floor, what=""):
        """Fail closed when a rule matched fewer instances than confirmed by hand."""
        n = sum(1 for i in self.insts if i.rule == rule and i.status != "info")
        if n < floor:
            self.violation(rule, "floor", "rule matched %d instance(s), floor is %d %s: an anchor is missing "
                           "or the rule became vacuous" % (n, floor, what))
        return n

    def missing(self, rule, what):
        self.violation(rule, "anchor:" + what, "anchor not found: %s (failing closed)" % what)

    def assume(self, text):
        if text not in self.assumptions:
            self.assumptions.append(text)

    def note_analysed(self, kind, items):
        s = self.analysed.setdefault(kind, [])
        for it in items:
            if it not in s:
                s.append(it)

    # --- verdict
    def violations(self):
        return [i for i in self.insts if i.status == "violation"]


def load_known():
    p = os.path.join(VERIF, "known_findings.json")
    if not os.path.exists(p):
        return {"findings": [], "fixed": []}
    with open(p) as fh:
        return json.load(fh)


def safe_name(s):
    return re.sub(r"[^A-Za-z0-9_.-]+", "_", s)[:150]


def finish(report, meta, tier, seed, extra=None):
    """Print the verdict lines, write evidence and replay files, return the exit code."""
    known = load_known()
    known_keys = {f["key"]: f for f in known.get("findings", []) if f["property"] == report.prop}
    viol = report.violations()
    new = [v for v in viol if v.full_key not in known_keys]
    listed = [v for v in viol if v.full_key in known_keys]
    vdir = os.path.join(EVDIR, "violations", report.prop)
    # clean old replay files of this property
    if os.path.isdir(vdir):
        for f in os.listdir(vdir):
            try:
                os.unlink(os.path.join(vdir, f))
            except OSError:
                pass
    for v in listed:
        print("KNOWN-FINDING: property=%s %s %s" % (report.prop, v.full_key, known_keys[v.full_key].get("what", v.detail)))
    for v in new:
        os.makedirs(vdir, exist_ok=True)
        path = os.path.join(vdir, safe_name(v.full_key) + ".json")
        with open(path, "w") as fh:
            json.dump({"property": report.prop, **v.as_json()}, fh, indent=1)
        print("  %s %s: %s" % (v.loc or "-", v.full_key, v.detail))
        print("VIOLATION property=%s replay=%s" % (report.prop, path))
    write_evidence(report, meta, tier, seed, len(new), len(listed), extra)
    return 1 if new else 0


def write_evidence(report, meta, tier, seed, n_new, n_known, extra=None):
    insts = [i for i in report.insts if i.status != "info"]
    by_status = {}
    for i in insts:
        by_status[i.status] = by_status.get(i.status, 0) + 1
    distinct = len({i.full_key for i in insts if i.status in ("ok", "violation", "audited")})
    rules = {}
    for i in insts:
        r = rules.setdefault(i.rule, {"instances": 0, "ok": 0, "violation": 0, "inconclusive": 0, "audited": 0})
        r["instances"] += 1
        r[i.status] = r.get(i.status, 0) + 1
    samples = []
    seen_rules = set()
    for i in insts:
        if i.rule not in seen_rules or len(samples) < 12:
            if sum(1 for s in samples if s["rule"] == i.rule) < 3:
                samples.append(i.as_json())
                seen_rules.add(i.rule)
    samples = samples[:60]
    level = meta["level"]
    cov = {
        "evaluations": len(insts),
        "distinct_nontrivial": distinct,
        "rule": "one evaluation per rule instance (rule id + function/operand key); an instance is non-trivial when "
                "its anchor was found in the current MIR/AST and a verdict ok/violation/audited was computed for it; "
                "inconclusive instances are counted in evaluations only",
        "samples": samples,
        "by_status": by_status,
        "rules": rules,
        "analysed": report.analysed,
        "inconclusive": [i.as_json() for i in insts if i.status == "inconclusive"][:40],
        "audited_sites": [i.as_json() for i in insts if i.status == "audited"],
        "known_findings_reported": n_known,
        "explanation": meta.get("explanation", ""),
        "exhaustive": False,
    }
    if extra:
        cov.update(extra)
    if level == "proof":
        obl = [i for i in insts if i.status in ("ok", "violation") and i.extra.get("obligation")]
        cov["obligations"] = len(obl)
        cov["discharged"] = sum(1 for i in obl if i.status == "ok")
        cov["checker_cmd"] = "python3 checks/run.py %s --tier %s" % (report.prop, tier)
        cov["trusted_base"] = meta.get("trusted_base", [])
    ev = {
        "property_id": report.prop,
        "tier": tier,
        "seed": seed,
        "level": level,
        "coverage": cov,
        "assumptions": report.assumptions,
        "wall_s": round(time.time() - report.t0, 3),
        "violations": n_new,
    }
    os.makedirs(EVDIR, exist_ok=True)
    p = os.path.join(EVDIR, report.prop + ".json")
    tmp = p + ".tmp.%d" % os.getpid()
    with open(tmp, "w") as fh:
        json.dump(ev, fh, indent=1)
    os.replace(tmp, p)
