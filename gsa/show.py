"""Readable dump of a body (development aid): python3 -m gsa.show <path-suffix>"""
import sys

from .facts import callee_path


def s_place(body, pl):
    s = body.local_name(pl["l"]) if not pl["p"] else "_%d" % pl["l"]
    if pl["p"]:
        nm = body.names.get((pl["l"], ()))
        if nm:
            s = "%s/*%s*/" % (s, nm)
    for e in pl["p"]:
        if e == "deref":
            s = "(*%s)" % s
        elif isinstance(e, str):
            s = "%s.<%s>" % (s, e)
        elif "field" in e:
            s = "%s.%s" % (s, e["name"])
        elif "index" in e:
            s = "%s[_%d]" % (s, e["index"])
        elif "const_index" in e:
            s = "%s[%s%d]" % (s, "-" if e["from_end"] else "", e["const_index"])
        elif "subslice" in e:
            s = "%s[%d..%s%d]" % (s, e["subslice"], "-" if e["from_end"] else "", e["to"])
        elif "downcast" in e:
            s = "(%s as %s)" % (s, e["name"] or e["downcast"])
    return s


def s_const(c):
    v = c["v"]
    if v is None:
        return "const?"
    for k in ("int", "bool", "str"):
        if k in v:
            return repr(v[k]) if k == "str" else str(v[k])
    if "fn" in v:
        return "fn " + v["fn"]
    if "zst" in v:
        return "()"
    if "promoted" in v:
        return "promoted[%d]" % v["promoted"]
    if "mem" in v:
        return "mem%s" % (v["mem"][:8],)
    if "bytes" in v:
        return "bytes%s" % (v["bytes"][:8],)
    if "uneval" in v:
        return "uneval(%s)" % v["uneval"]
    return str(v)[:60]


def s_op(body, op):
    if "copy" in op:
        return s_place(body, op["copy"])
    if "move" in op:
        return "move " + s_place(body, op["move"])
    if "const" in op:
        return s_const(op["const"])
    return str(op)[:40]


def s_rv(body, rv):
    k = rv["k"]
    if k == "use":
        return s_op(body, rv["op"])
    if k == "ref":
        return "&%s%s" % ("mut " if rv["mut"] else "", s_place(body, rv["place"]))
    if k == "rawptr":
        return "&raw %s" % s_place(body, rv["place"])
    if k == "cast":
        return "%s as %s (%s)" % (s_op(body, rv["op"]), body.facts.types[rv["to"]]["s"], rv["ck"])
    if k == "bin":
        return "%s(%s, %s)" % (rv["op"], s_op(body, rv["a"]), s_op(body, rv["b"]))
    if k == "un":
        return "%s(%s)" % (rv["op"], s_op(body, rv["a"]))
    if k == "discr":
        return "discriminant(%s)" % s_place(body, rv["place"])
    if k == "agg":
        ops = ", ".join(s_op(body, o) for o in rv["ops"])
        if rv["ak"] == "adt":
            return "%s::%s{%s}" % (rv["path"], rv["vname"], ops)
        return "%s(%s)" % (rv["ak"], ops)
    if k == "repeat":
        return "[%s; %s]" % (s_op(body, rv["op"]), rv["n"])
    if k == "copy_for_deref":
        return "deref_copy " + s_place(body, rv["place"])
    return str(rv)[:80]


def show(body, out=sys.stdout):
    w = out.write
    w("fn %s  [%s:%d] args=%d\n" % (body.path, body.file, body.line, body.arg_count))
    for i, l in enumerate(body.locals):
        nm = body.names.get((i, ()), "")
        w("  let _%d: %s %s\n" % (i, body.facts.types[l["ty"]]["s"], ("// " + nm) if nm else ""))
    for b in body.blocks:
        if b.cleanup:
            continue
        w("bb%d:\n" % b.idx)
        for st in b.stmts:
            if st["k"] == "assign":
                w("    %s = %s   // L%d\n" % (s_place(body, st["place"]), s_rv(body, st["rv"]), st["line"]))
            elif st["k"] in ("live", "dead"):
                pass
            else:
                w("    %s\n" % str(st)[:100])
        t = b.term
        k = t["k"]
        if k == "goto":
            w("    goto bb%d\n" % t["target"])
        elif k == "switch":
            w("    switch %s -> %s, otherwise bb%d   // L%d\n" % (s_op(body, t["discr"]), ["%s:bb%d" % (v, g) for v, g in t["targets"]], t["otherwise"], t["line"]))
        elif k == "call":
            w("    %s = %s(%s) -> %s   // L%d%s\n" % (s_place(body, t["dest"]), callee_path(t) or "<indirect>",
                                                    ", ".join(s_op(body, a) for a in t["args"]),
                                                    "bb%s" % t["target"] if t["target"] is not None else "!", t["line"],
                                                    "" if t["callee"].get("resolved") else " [unresolved]"))
        elif k == "assert":
            m = t["msg"]
            w("    assert(%s == %s, %s) -> bb%d   // L%d\n" % (s_op(body, t["cond"]), t["expected"], m["k"] + (":" + m["op"] if "op" in m else ""), t["target"], t["line"]))
        elif k == "drop":
            w("    drop(%s) -> bb%d\n" % (s_place(body, t["place"]), t["target"]))
        else:
            w("    %s\n" % k)


if __name__ == "__main__":
    from .context import Context
    ctx = Context()
    for suffix in sys.argv[1:]:
        bs = [b for b in ctx.facts.body_list if suffix in b.path]
        for b in bs:
            show(b)
            print()
