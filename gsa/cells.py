"""Decision-table extraction (rule kind T): abstract execution of one body over a finite input cell.

A cell is a function `ev(term) -> int | ("range", lo, hi) | None` giving the abstract value of
provenance terms (discriminants, lengths, call results).  Execution follows a switchInt edge only when
the cell does not exclude it; the result is the set of blocks feasible under the cell, from which the
caller reads outcome tags (calls made, aggregates built)."""
from . import flow
from .facts import callee_path, const_int

INF = float("inf")


def eval_term(t, ev, depth=0):
    """Abstract value of a term: int, ("range", lo, hi) or None (unknown)."""
    if depth > 30:
        return None
    v = ev(t)
    if v is not None:
        return v
    k = t[0]
    if k == "const":
        if isinstance(t[1], bool):
            return 1 if t[1] else 0
        if isinstance(t[1], int):
            return t[1]
        return None
    if k == "cast":
        return eval_term(t[1], ev, depth + 1)
    if k == "un" and t[1] == "Not":
        x = eval_term(t[2], ev, depth + 1)
        if isinstance(x, int):
            return 0 if x else 1
        return None
    if k == "bin":
        a = eval_term(t[2], ev, depth + 1)
        b = eval_term(t[3], ev, depth + 1)
        if isinstance(a, int) and isinstance(b, int) and t[1] in _ARITH:
            try:
                return _ARITH[t[1]](a, b)
            except (ValueError, OverflowError, ZeroDivisionError):
                return None
        return _cmp(t[1], a, b)
    if k == "call":
        p = t[1] or ""
        if p.endswith("::is_empty") and len(t[2]) == 1:
            n = eval_term(("call", "len", (t[2][0],)), ev, depth + 1)
            return _cmp("Eq", n, 0)
        if p.split("::")[-1] in ("rem_euclid", "div_euclid") and p.startswith("core::num::") and len(t[2]) == 2:
            a = eval_term(t[2][0], ev, depth + 1)
            b = eval_term(t[2][1], ev, depth + 1)
            if isinstance(a, int) and isinstance(b, int) and b > 0:
                return a % b if p.endswith("rem_euclid") else a // b
            return None
        # (lo..=hi).contains(&x) / (lo..hi).contains(&x) with constant bounds
        if p.split("::")[-1] == "contains" and len(t[2]) == 2 and ("ops::Range" in p):
            r_ = t[2][0]
            while r_[0] in ("promoted", "cast"):
                r_ = r_[1]
            lo = hi = None
            if r_[0] == "call" and (r_[1] or "").endswith("RangeInclusive::<Idx>::new") and len(r_[2]) == 2:
                lo, hi = eval_term(r_[2][0], ev, depth + 1), eval_term(r_[2][1], ev, depth + 1)
            elif r_[0] == "agg" and (r_[1] or "").endswith("ops::Range") and len(r_) > 3:
                fs = dict(r_[3])
                if "start" in fs and "end" in fs:
                    lo, hi = eval_term(fs["start"], ev, depth + 1), eval_term(fs["end"], ev, depth + 1)
                    hi = hi - 1 if isinstance(hi, int) else None
            x = eval_term(t[2][1], ev, depth + 1)
            if isinstance(lo, int) and isinstance(hi, int) and isinstance(x, int):
                return 1 if lo <= x <= hi else 0
            return None
        # operator traits on (references to) integers: `c & 0x80` with c: &u8 is a call of <&u8 as BitAnd<u8>>::bitand
        opm = {"bitand": "BitAnd", "bitor": "BitOr", "bitxor": "BitXor", "add": "Add", "sub": "Sub", "mul": "Mul", "shl": "Shl", "shr": "Shr"}
        last = p.split("::")[-1]
        if last in opm and " as std::ops::" in p and len(t[2]) == 2:
            a = eval_term(t[2][0], ev, depth + 1)
            b = eval_term(t[2][1], ev, depth + 1)
            if isinstance(a, int) and isinstance(b, int):
                try:
                    return _ARITH[opm[last]](a, b)
                except (ValueError, OverflowError, ZeroDivisionError):
                    return None
            return None
        if last in ("lt", "le", "gt", "ge") and ("PartialOrd" in p) and len(t[2]) == 2:
            a = eval_term(t[2][0], ev, depth + 1)
            b = eval_term(t[2][1], ev, depth + 1)
            return _cmp({"lt": "Lt", "le": "Le", "gt": "Gt", "ge": "Ge"}[last], a, b)
        if (p.endswith("::eq") or p.endswith("::ne")) and len(t[2]) == 2:
            a = eval_term(t[2][0], ev, depth + 1)
            b = eval_term(t[2][1], ev, depth + 1)
            return _cmp("Eq" if p.endswith("::eq") else "Ne", a, b)
    if k == "phi":
        vals = [eval_term(x, ev, depth + 1) for x in t[1]]
        if vals and all(isinstance(v, int) for v in vals) and len(set(vals)) == 1:
            return vals[0]
    return None


_ARITH = {
    "BitOr": lambda a, b: a | b, "BitAnd": lambda a, b: a & b, "BitXor": lambda a, b: a ^ b,
    "Add": lambda a, b: a + b, "Sub": lambda a, b: a - b, "Mul": lambda a, b: a * b,
    "Shl": lambda a, b: a << b if 0 <= b < 128 else None, "Shr": lambda a, b: a >> b if 0 <= b < 128 else None,
    "AddWithOverflow": lambda a, b: a + b, "SubWithOverflow": lambda a, b: a - b, "MulWithOverflow": lambda a, b: a * b,
    # Rust `/` and `%` truncate towards zero
    "Div": lambda a, b: (abs(a) // abs(b)) * (1 if (a >= 0) == (b >= 0) else -1) if b else None,
    "Rem": lambda a, b: (abs(a) % abs(b)) * (1 if a >= 0 else -1) if b else None,
}


def _rng(x):
    if isinstance(x, int):
        return (x, x)
    if isinstance(x, tuple) and x and x[0] == "range":
        return (x[1], x[2])
    return None


def _cmp(op, a, b):
    ra, rb = _rng(a), _rng(b)
    if ra is None or rb is None:
        return None
    (al, ah), (bl, bh) = ra, rb
    if op == "Eq":
        if al == ah == bl == bh:
            return 1
        if ah < bl or bh < al:
            return 0
        return None
    if op == "Ne":
        r = _cmp("Eq", a, b)
        return None if r is None else 1 - r
    if op == "Lt":
        return 1 if ah < bl else (0 if al >= bh else None)
    if op == "Le":
        return 1 if ah <= bl else (0 if al > bh else None)
    if op == "Gt":
        return _cmp("Lt", b, a)
    if op == "Ge":
        return _cmp("Le", b, a)
    return None


def feasible(body, prov, ev, start=0, cut=None):
    """Blocks reachable from `start` when switches are resolved by the cell `ev`.  The provenance of the switch operands is
    then re-derived from the definitions inside the feasible blocks only (a flag set on several arms denotes the value of
    the arms the cell can reach) and the computation repeated until the set is stable."""
    seen, decided = _feasible_once(body, prov, ev, start, cut)
    if start != 0:
        return seen, decided
    for _ in range(4):
        p2 = flow.Prov(body, transparent=prov.transparent, only_blocks=seen)
        s2, d2 = _feasible_once(body, p2, ev, start, cut)
        if s2 == seen:
            return s2, d2
        seen, decided = s2, d2
    return seen, decided


def _feasible_once(body, prov, ev, start=0, cut=None):
    seen = set()
    work = [start]
    decided = {}
    while work:
        bi = work.pop()
        if bi in seen:
            continue
        seen.add(bi)
        b = body.blocks[bi]
        t = b.term
        if t is None or b.cleanup:
            continue
        if t["k"] == "switch":
            term = prov.operand(t["discr"])
            v = eval_term(term, ev)
            r = _rng(v)
            cases = [c for c, _ in t["targets"]]
            nxt = []
            if r is None:
                nxt = [tg for _, tg in t["targets"]] + [t["otherwise"]]
            else:
                lo, hi = r
                for c, tg in t["targets"]:
                    if lo <= c <= hi:
                        nxt.append(tg)
                # otherwise edge is feasible when some value of the range is not an explicit case
                if hi == INF or any(x not in cases for x in range(int(lo), int(hi) + 1)):
                    nxt.append(t["otherwise"])
                decided[bi] = v
            for s in nxt:
                if cut and (bi, s) in cut:
                    continue
                work.append(s)
        else:
            for s in b.succs():
                if cut and (bi, s) in cut:
                    continue
                work.append(s)
    return seen, decided


def tags(body, blocks, prov=None):
    """Outcome tags of a set of blocks: ('call', path), ('agg', adt, variant)."""
    out = set()
    for bi in blocks:
        b = body.blocks[bi]
        if b.cleanup:
            continue
        for st in b.stmts:
            if st["k"] == "assign" and st["rv"]["k"] == "agg" and st["rv"]["ak"] == "adt":
                out.add(("agg", st["rv"]["path"], st["rv"]["vname"]))
        t = b.term
        if t and t["k"] == "call":
            p = callee_path(t)
            out.add(("call", p))
            c = t["callee"]
            if c.get("path") and c.get("path") != p:
                out.add(("call", c["path"]))
    return out


def has_call(tg, suffix):
    return any(x[0] == "call" and x[1] and x[1].endswith(suffix) for x in tg)


def has_agg(tg, adt, variant):
    return ("agg", adt, variant) in tg


def closure_verdict(facts, closure_term, ev):
    """Value (0/1) a bool-returning closure yields for items of the cell `ev`, or None."""
    cl = [x for x in flow.subterms(closure_term) if x[0] == "agg" and x[1] == "closure"]
    if not cl:
        return None
    cb = facts.body(cl[0][2])
    if cb is None:
        return None
    blocks, _ = feasible(cb, flow.Prov(cb), ev)
    v = eval_term(flow.Prov(cb, only_blocks=blocks).local(0), lambda t: None)
    return v if v in (0, 1) else None


def filter_verdict_of(facts, term, ev):
    """`term` describes where items come from (e.g. the receiver of a loop or of try_for_each).  When it draws them through
    Iterator::filter(.., closure): True = the closure keeps items of the cell `ev`, False = it drops them; None: no filter
    on the way or not decided."""
    verdicts = []
    for x in flow.subterms(term):
        if x[0] == "call" and ((x[1] or "").endswith("Iterator::filter") or (x[1] or "").endswith("::filter")) and len(x[2]) >= 2:
            v = closure_verdict(facts, x[2][1], ev)
            if v is None:
                return None
            verdicts.append(bool(v))
    if not verdicts:
        return None
    return all(verdicts)


def filter_verdict(facts, body, prov, ev):
    """All Iterator::filter calls of `body` (see filter_verdict_of)."""
    verdicts = []
    for blk in body.calls():
        cp = callee_path(blk.term) or ""
        if (cp.endswith("Iterator::filter") or cp.endswith("::filter")) and len(blk.term["args"]) >= 2:
            v = closure_verdict(facts, prov.operand(blk.term["args"][1]), ev)
            if v is None:
                return None
            verdicts.append(bool(v))
    if not verdicts:
        return None
    return all(verdicts)


def closure_feed(facts, closure_body):
    """For a closure handed to an iterator consumer (for_each, try_for_each, map, ...): (parent body, its Prov, the call
    block, the term of the receiver the items come from); None when the closure is not passed to a call of its parent."""
    # the lexical parent: for a closure nested in a closure that is the enclosing closure (its path minus the last segment)
    lex = closure_body.path.rsplit("::{closure#", 1)[0] if "::{closure#" in closure_body.path else None
    parent = facts.body(lex) if lex else None
    if parent is None:
        parent = facts.body(closure_body.parent) if closure_body.parent else None
    if parent is None:
        return None
    prov = flow.Prov(parent)
    for blk in parent.calls():
        for ai, a in enumerate(blk.term["args"]):
            t = prov.operand(a)
            if any(x[0] == "agg" and x[1] == "closure" and x[2] == closure_body.path for x in flow.subterms(t)):
                if ai == 0:
                    continue
                return parent, prov, blk, prov.operand(blk.term["args"][0])
    return None


def _ancestors(body, starts):
    preds = body.preds()
    seen = set()
    work = list(starts)
    while work:
        b = work.pop()
        for p in preds.get(b, []):
            if p not in seen:
                seen.add(p)
                work.append(p)
    return seen


def feasible_from(body, starts, ev=None):
    """Blocks that can execute after control reached one of `starts`: switches are resolved with the values the blocks on
    the way define (definitions in blocks that neither lead to nor follow `starts` are not reaching definitions there), with
    discriminants of freshly built aggregates known: `match` on an Ok/Err/Some/None just constructed, `?` on it."""
    from . import cfg
    facts = body.facts
    anc = _ancestors(body, starts)
    only = cfg.reachable(body, list(starts)) | anc | set(starts)

    def variant_no(path, vname):
        v = flow.enum_variants(facts, path)
        if not v:
            return None
        for dno, name in v.items():
            if name == vname:
                return dno
        return None

    def ev2(t):
        if ev is not None:
            r = ev(t)
            if r is not None:
                return r
        if t[0] == "discr":
            x = t[1]
            if x[0] == "agg" and x[1] not in ("closure", "tuple", "array") and x[2]:
                return variant_no(x[1], x[2])
            if x[0] == "call" and (x[1] or "").endswith("::branch") and x[2]:
                y = flow.through_adapters(x[2][0])
                if y[0] == "agg" and y[2] in ("Err", "None"):
                    return 1   # ControlFlow::Break
                if y[0] == "agg" and y[2] in ("Ok", "Some"):
                    return 0   # ControlFlow::Continue
                if y[0] == "call" and (y[1] or "").endswith("::from_residual"):
                    return 1   # an error being propagated (`?` in an inlined helper) stays an error at the caller's `?`
        return None
    seen = set()
    for _ in range(5):
        prov = flow.Prov(body, only_blocks=only)
        cur = set()
        for s0 in starts:
            s1, _d = _feasible_once(body, prov, ev2, s0, None)
            cur |= s1
        if cur == seen:
            break
        seen = cur
        only = seen | anc
    return seen


def run_cell(body, ev, watch, max_steps=2000):
    """Forward abstract execution of one fully decided cell: follows the single path the cell determines from the entry,
    keeping the integer values of locals that are determined (constants, values given by `ev`, arithmetic on them; an
    accumulator updated along the path is followed exactly).  `watch(block)` selects call blocks whose argument values
    are recorded.  Stops at a return, at a switch the cell does not decide, or after max_steps.
    Returns [(block idx, [arg values or None])]."""
    prov = flow.Prov(body)
    env = {}
    out = []

    def val_op(op):
        if "const" in op:
            return const_int(op)
        pl = op.get("copy") or op.get("move")
        if pl is None:
            return None
        if not pl["p"] and pl["l"] in env:
            return env[pl["l"]]
        if not pl["p"] and pl["l"] > body.arg_count:
            return None if pl["l"] in assigned else eval_term(prov.operand(op), ev)
        return eval_term(prov.operand(op), ev)
    assigned = set()
    bi = 0
    steps = 0
    while steps < max_steps:
        steps += 1
        b = body.blocks[bi]
        for st in b.stmts:
            if st["k"] != "assign":
                continue
            pl = st["place"]
            if pl["p"]:
                continue
            rv = st["rv"]
            v = None
            if rv["k"] == "use":
                v = val_op(rv["op"])
            elif rv["k"] == "bin":
                a, c = val_op(rv["a"]), val_op(rv["b"])
                if isinstance(a, int) and isinstance(c, int):
                    op = rv["op"].replace("WithOverflow", "")
                    if op in _ARITH:
                        try:
                            v = _ARITH[op](a, c)
                        except Exception:
                            v = None
                    else:
                        v = _cmp(op, a, c)
            elif rv["k"] == "un" and rv["op"] == "Not":
                a = val_op(rv["a"])
                v = (0 if a else 1) if isinstance(a, int) else None
            elif rv["k"] == "cast":
                v = val_op(rv["op"])
            assigned.add(pl["l"])
            if isinstance(v, int):
                env[pl["l"]] = v
            else:
                env.pop(pl["l"], None)
        t = b.term
        if t is None or t["k"] in ("return", "unreachable"):
            break
        if t["k"] == "switch":
            v = val_op(t["discr"])
            if not isinstance(v, int):
                v = eval_term(prov.operand(t["discr"]), ev)
            if not isinstance(v, int):
                break
            nxt = t["otherwise"]
            for c, tg in t["targets"]:
                if c == v:
                    nxt = tg
            bi = nxt
            continue
        if t["k"] == "call":
            if watch(b):
                out.append((b.idx, [val_op(a) for a in t["args"]]))
            d = t["dest"]
            if not d["p"]:
                assigned.add(d["l"])
                v = eval_term(prov.call_term(t), ev)
                if isinstance(v, int):
                    env[d["l"]] = v
                else:
                    env.pop(d["l"], None)
            if t.get("target") is None:
                break
            bi = t["target"]
            continue
        nx = b.succs()
        if len(nx) != 1:
            break
        bi = nx[0]
    return out


def path_within(body, blocks, goals, cut, start=0):
    """A path start -> goal that stays inside `blocks` (the blocks feasible under a cell) and avoids the `cut` edges, or None."""
    goals = set(goals)
    seen = {start}
    work = [(start, [start])]
    while work:
        b, path = work.pop()
        if b in goals:
            return path
        for s_ in body.blocks[b].succs():
            if s_ in seen or s_ not in blocks or (b, s_) in cut or body.blocks[s_].cleanup:
                continue
            seen.add(s_)
            work.append((s_, path + [s_]))
    return None


def edge_guards_goals(body, accept_edge, reject_edge, goals):
    """Every way to `goals` takes `accept_edge`: the test block dominates the goals and nothing that can execute after
    `reject_edge` reaches them (errors built on the rejecting side stay errors through `?` of callers and inlined helpers)."""
    from . import cfg
    dom = cfg.dominators(body)
    blk = accept_edge[0]
    if not all(blk in dom.get(g, ()) for g in goals):
        return False
    return not (feasible_from(body, [reject_edge[1]]) & set(goals))


_VARIANT_ADTS = ("std::result::Result", "std::option::Option", "std::ops::ControlFlow")


def variant_reach(body, starts=(0,), cut=frozenset(), limit=40000, within=None):
    """Blocks reachable from `starts` without crossing `cut` edges, exploring (block, known variants) states: the variant
    of every Result / Option / ControlFlow local is tracked along each path (aggregate construction, moves, `?`'s
    Try::branch and from_residual) and a switch on the discriminant of a local whose variant is known takes that arm
    only.  This is what makes `Err(e)?`, early returns inside inlined helpers and desugared adaptors precise where plain
    graph reachability merges the Ok and the Err path at the helper's return."""
    facts = body.facts

    def vname_of_discr(pl_ty, d):
        t = facts.types[pl_ty] if isinstance(pl_ty, int) else {}
        for v in t.get("variants", []) or []:
            if v["discr"] == d:
                return v["name"]
        return None
    seen = set()
    out = set()
    work = [(s, frozenset()) for s in starts]
    n = 0
    while work and n < limit:
        n += 1
        bi, envf = work.pop()
        if (bi, envf) in seen:
            continue
        seen.add((bi, envf))
        if within is not None and bi not in within:
            continue
        out.add(bi)
        b = body.blocks[bi]
        if b.cleanup:
            continue
        env = dict(envf)       # local -> variant name ; ("d", local) -> local whose discriminant it holds
        for st in b.stmts:
            if st["k"] != "assign":
                continue
            pl = st["place"]
            if pl["p"]:
                continue
            l = pl["l"]
            rv = st["rv"]
            env.pop(l, None)
            env.pop(("d", l), None)
            if rv["k"] == "agg" and rv.get("ak") == "adt" and rv.get("path") in _VARIANT_ADTS:
                env[l] = rv.get("vname")
            elif rv["k"] == "use":
                src = rv["op"].get("move") or rv["op"].get("copy")
                if src and not src["p"] and src["l"] in env:
                    env[l] = env[src["l"]]
            elif rv["k"] == "discr" and not rv["place"]["p"]:
                env[("d", l)] = (rv["place"]["l"], rv["place"].get("ty"))
        t = b.term
        if t is None:
            continue
        k = t["k"]
        nxt = []
        if k == "switch":
            op = t["discr"].get("move") or t["discr"].get("copy")
            decided = None
            if op and not op["p"] and ("d", op["l"]) in env:
                src, sty = env[("d", op["l"])]
                if src in env:
                    # which discriminant value has this variant?
                    ty = facts.types[sty] if isinstance(sty, int) else {}
                    for v in ty.get("variants", []) or []:
                        if v["name"] == env[src]:
                            decided = v["discr"]
            if decided is not None:
                tg = t["otherwise"]
                for c, x in t["targets"]:
                    if c == decided:
                        tg = x
                nxt = [tg]
            else:
                nxt = [x for _, x in t["targets"]] + [t["otherwise"]]
                # learn the variant on the taken edge
                if op and not op["p"] and ("d", op["l"]) in env:
                    src, sty = env[("d", op["l"])]
                    for c, x in t["targets"]:
                        vn = vname_of_discr(sty, c)
                        if vn is not None and (bi, x) not in cut:
                            e2 = dict(env)
                            e2[src] = vn
                            work.append((x, frozenset(e2.items())))
                    if (bi, t["otherwise"]) not in cut:
                        work.append((t["otherwise"], frozenset(env.items())))
                    continue
        elif k == "call":
            d = t["dest"]
            if not d["p"]:
                env.pop(d["l"], None)
                env.pop(("d", d["l"]), None)
                cp = callee_path(t) or ""
                a0 = t["args"][0] if t["args"] else None
                src = (a0.get("move") or a0.get("copy")) if a0 else None
                sv = env.get(src["l"]) if src and not src["p"] else None
                if cp.endswith("::from_residual"):
                    env[d["l"]] = "Err" if "Result" in cp else "None"
                elif cp.endswith("::branch") and sv is not None:
                    env[d["l"]] = "Break" if sv in ("Err", "None") else "Continue"
                elif cp.split("::")[-1] in ("map_err", "ok_or", "ok_or_else") and sv is not None:
                    env[d["l"]] = "Err" if sv in ("Err", "None") else "Ok"
                elif cp.split("::")[-1] == "ok" and sv is not None and "Result" in cp:
                    env[d["l"]] = "None" if sv == "Err" else "Some"
            if t.get("target") is not None:
                nxt = [t["target"]]
        elif k in ("goto", "drop", "assert"):
            if t.get("target") is not None:
                nxt = [t["target"]]
        ef = frozenset(env.items())
        for x in nxt:
            if (bi, x) in cut:
                continue
            work.append((x, ef))
    return out


def edge_guards_goals(body, accept_edge, reject_edge, goals):
    """Every feasible way to `goals` takes `accept_edge` (variant-tracking reachability with the edge removed)."""
    return not (variant_reach(body, cut=frozenset([accept_edge])) & set(goals))
