"""Decision-table extraction (rule kind T): abstract execution of one body over a finite input cell.

A cell is a function `ev(term) -> int | ("range", lo, hi) | None` giving the abstract value of
provenance terms (discriminants, lengths, call results).  Execution follows a switchInt edge only when
the cell does not exclude it; the result is the set of blocks feasible under the cell, from which the
caller reads outcome tags (calls made, aggregates built)."""
from . import flow
from .facts import callee_path, const_int

INF = float("inf")


def eval_term(t, ev, depth=0):
    """Abstract value of a term: int, ("range", lo, hi) or None (unknown)."""
    if depth > 30:
        return None
    v = ev(t)
    if v is not None:
        return v
    k = t[0]
    if k == "const":
        if isinstance(t[1], bool):
            return 1 if t[1] else 0
        if isinstance(t[1], int):
            return t[1]
        return None
    if k == "cast":
        return eval_term(t[1], ev, depth + 1)
    if k == "un" and t[1] == "Not":
        x = eval_term(t[2], ev, depth + 1)
        if isinstance(x, int):
            return 0 if x else 1
        return None
    if k == "bin":
        a = eval_term(t[2], ev, depth + 1)
        b = eval_term(t[3], ev, depth + 1)
        if isinstance(a, int) and isinstance(b, int) and t[1] in _ARITH:
            try:
                return _ARITH[t[1]](a, b)
            except (ValueError, OverflowError, ZeroDivisionError):
                return None
        return _cmp(t[1], a, b)
    if k == "call":
        p = t[1] or ""
        if p.endswith("::is_empty") and len(t[2]) == 1:
            n = eval_term(("call", "len", (t[2][0],)), ev, depth + 1)
            return _cmp("Eq", n, 0)
        if (p.endswith("::eq") or p.endswith("::ne")) and len(t[2]) == 2:
            a = eval_term(t[2][0], ev, depth + 1)
            b = eval_term(t[2][1], ev, depth + 1)
            return _cmp("Eq" if p.endswith("::eq") else "Ne", a, b)
    if k == "phi":
        vals = [eval_term(x, ev, depth + 1) for x in t[1]]
        if vals and all(isinstance(v, int) for v in vals) and len(set(vals)) == 1:
            return vals[0]
    return None


_ARITH = {
    "BitOr": lambda a, b: a | b, "BitAnd": lambda a, b: a & b, "BitXor": lambda a, b: a ^ b,
    "Add": lambda a, b: a + b, "Sub": lambda a, b: a - b, "Mul": lambda a, b: a * b,
    "Shl": lambda a, b: a << b if 0 <= b < 128 else None, "Shr": lambda a, b: a >> b if 0 <= b < 128 else None,
    "AddWithOverflow": lambda a, b: a + b, "SubWithOverflow": lambda a, b: a - b,
}


def _rng(x):
    if isinstance(x, int):
        return (x, x)
    if isinstance(x, tuple) and x and x[0] == "range":
        return (x[1], x[2])
    return None


def _cmp(op, a, b):
    ra, rb = _rng(a), _rng(b)
    if ra is None or rb is None:
        return None
    (al, ah), (bl, bh) = ra, rb
    if op == "Eq":
        if al == ah == bl == bh:
            return 1
        if ah < bl or bh < al:
            return 0
        return None
    if op == "Ne":
        r = _cmp("Eq", a, b)
        return None if r is None else 1 - r
    if op == "Lt":
        return 1 if ah < bl else (0 if al >= bh else None)
    if op == "Le":
        return 1 if ah <= bl else (0 if al > bh else None)
    if op == "Gt":
        return _cmp("Lt", b, a)
    if op == "Ge":
        return _cmp("Le", b, a)
    return None


def feasible(body, prov, ev, start=0, cut=None):
    """Blocks reachable from `start` when switches are resolved by the cell `ev`."""
    seen = set()
    work = [start]
    decided = {}
    while work:
        bi = work.pop()
        if bi in seen:
            continue
        seen.add(bi)
        b = body.blocks[bi]
        t = b.term
        if t is None or b.cleanup:
            continue
        if t["k"] == "switch":
            term = prov.operand(t["discr"])
            v = eval_term(term, ev)
            r = _rng(v)
            cases = [c for c, _ in t["targets"]]
            nxt = []
            if r is None:
                nxt = [tg for _, tg in t["targets"]] + [t["otherwise"]]
            else:
                lo, hi = r
                for c, tg in t["targets"]:
                    if lo <= c <= hi:
                        nxt.append(tg)
                # otherwise edge is feasible when some value of the range is not an explicit case
                if hi == INF or any(x not in cases for x in range(int(lo), int(hi) + 1)):
                    nxt.append(t["otherwise"])
                decided[bi] = v
            for s in nxt:
                if cut and (bi, s) in cut:
                    continue
                work.append(s)
        else:
            for s in b.succs():
                if cut and (bi, s) in cut:
                    continue
                work.append(s)
    return seen, decided


def tags(body, blocks, prov=None):
    """Outcome tags of a set of blocks: ('call', path), ('agg', adt, variant)."""
    out = set()
    for bi in blocks:
        b = body.blocks[bi]
        if b.cleanup:
            continue
        for st in b.stmts:
            if st["k"] == "assign" and st["rv"]["k"] == "agg" and st["rv"]["ak"] == "adt":
                out.add(("agg", st["rv"]["path"], st["rv"]["vname"]))
        t = b.term
        if t and t["k"] == "call":
            p = callee_path(t)
            out.add(("call", p))
            c = t["callee"]
            if c.get("path") and c.get("path") != p:
                out.add(("call", c["path"]))
    return out


def has_call(tg, suffix):
    return any(x[0] == "call" and x[1] and x[1].endswith(suffix) for x in tg)


def has_agg(tg, adt, variant):
    return ("agg", adt, variant) in tg


def filter_verdict(facts, body, prov, ev):
    """When `body` draws its items through Iterator::filter(.., closure): the closure's verdict for items of the cell `ev`
    (evaluated in the closure body).  True: kept, False: dropped by the filter, None: no filter / not decided."""
    verdicts = []
    for blk in body.calls():
        cp = callee_path(blk.term) or ""
        if not (cp.endswith("Iterator::filter") or cp.endswith("::filter")):
            continue
        if len(blk.term["args"]) < 2:
            continue
        ct = prov.operand(blk.term["args"][1])
        cl = [s for s in flow.subterms(ct) if s[0] == "agg" and s[1] == "closure"]
        if not cl:
            return None
        cb = facts.body(cl[0][2])
        if cb is None:
            return None
        cprov = flow.Prov(cb)
        blocks, _ = feasible(cb, cprov, ev)
        rprov = flow.Prov(cb, only_blocks=blocks)
        v = eval_term(rprov.local(0), lambda t: None)
        if v not in (0, 1):
            return None
        verdicts.append(bool(v))
    if not verdicts:
        return None
    return all(verdicts)
