"""`num`: modular abstract interpretation of MIR.

Domain: access paths -> values; integers are linear expressions over symbols; a state carries a set of
linear constraints decided by an exact LP (gsa/lin.py); joins use interval + difference templates;
states are partitioned by known enum discriminants.  Interprocedural: small loop-free callees are
inlined (effects only), other callees are summarised by checked contracts (gsa/contracts.py) or
havocked.  Every panic site / unsafe precondition of a root function is an obligation that must be
entailed in every abstract state reaching it."""
import sys
from fractions import Fraction

from . import cfg as cfgm
from .facts import callee_path, place_key
from .lin import INF, Lin, lp_max

ISIZE_MAX = 2 ** 63 - 1
MAX_PART = 12
MAX_UNROLL = 24
MAX_INLINE_DEPTH = 4
MAX_INLINE_BLOCKS = 45


def ty_range(t):
    if t.get("k") == "int":
        b = t["bits"]
        if t["signed"]:
            return (-(2 ** (b - 1)), 2 ** (b - 1) - 1)
        return (0, 2 ** b - 1)
    if t.get("k") == "bool":
        return (0, 1)
    if t.get("k") == "char":
        return (0, 0x10FFFF)
    return None


# ============================================================================ state
class St:
    __slots__ = ("env", "cons", "lo", "hi", "dead", "eng", "mod", "divq", "trace")

    def __init__(self, eng):
        self.eng = eng
        self.env = {}
        self.cons = set()
        self.lo = {}
        self.hi = {}
        self.mod = {}     # congruences of loop counters: sym -> (g, r), the symbol's value is r modulo g (g >= 2)
        self.divq = {}    # (dividend Lin, constant divisor) -> quotient symbol, shared by `a / k` and `a % k`
        self.trace = ()   # branch decisions taken outside loops (only when the root body has a probe: trace partitioning)
        self.dead = False

    def copy(self):
        s = St(self.eng)
        s.env = dict(self.env)
        s.cons = set(self.cons)
        s.lo = dict(self.lo)
        s.hi = dict(self.hi)
        s.mod = dict(self.mod)
        s.divq = dict(self.divq)
        s.trace = self.trace
        s.dead = self.dead
        return s

    # --- bounds
    def lb(self, s):
        v = self.lo.get(s)
        return v if v is not None else self.eng.syms[s][1]

    def ub(self, s):
        v = self.hi.get(s)
        return v if v is not None else self.eng.syms[s][2]

    def add(self, lin):
        """Assume lin <= 0."""
        if self.dead:
            return
        if not lin.t:
            if lin.c > 0:
                self.dead = True
            return
        if len(lin.t) == 1:
            (s, k), c = lin.t[0], lin.c
            m = self.mod.get(s)
            if k > 0:
                # s <= floor(-c / k)
                b = (-c) // k
                if m is not None:
                    b -= (b - m[1]) % m[0]     # the largest value <= b in the symbol's residue class
                if b < self.ub(s):
                    self.hi[s] = b
            else:
                # s >= ceil(c / -k)
                b = -((-c) // (-k))
                if m is not None:
                    b += (m[1] - b) % m[0]     # the smallest value >= b in the residue class
                if b > self.lb(s):
                    self.lo[s] = b
            if self.lb(s) > self.ub(s):
                self.dead = True
            return
        # normalise by gcd
        from math import gcd
        g = 0
        for _, k in lin.t:
            g = gcd(g, abs(k))
        if g > 1:
            # sum(k s) <= -c  ->  sum(k/g s) <= floor(-c/g)
            lin = Lin(-((-lin.c) // g), tuple((s, k // g) for s, k in lin.t))
        self.cons.add(lin)

    def add_eq(self, lin):
        self.add(lin)
        self.add(-lin)

    def interval_ub(self, lin):
        u = lin.c
        for s, k in lin.t:
            b = self.ub(s) if k > 0 else self.lb(s)
            if b in (INF, -INF):
                return INF
            u += k * b
        return u

    def relevant(self, lin):
        syms = set(lin.syms())
        if not syms or not self.cons:
            return []
        out = []
        rest = list(self.cons)
        changed = True
        while changed:
            changed = False
            keep = []
            for c in rest:
                if any(s in syms for s, _ in c.t):
                    out.append(c)
                    for s, _ in c.t:
                        if s not in syms:
                            syms.add(s)
                            changed = True
                else:
                    keep.append(c)
            rest = keep
        return out

    def upper(self, lin):
        """Upper bound of lin (INF if unbounded); None if the state is infeasible."""
        if self.dead:
            return None
        if not lin.t:
            return lin.c
        iu = self.interval_ub(lin)
        rel = self.relevant(lin)
        if not rel:
            return iu
        syms = set(lin.syms())
        for c in rel:
            syms.update(c.syms())
        lo = {s: self.lb(s) for s in syms}
        hi = {s: self.ub(s) for s in syms}
        self.eng.lp_calls += 1
        r = lp_max(lin, rel, lo, hi)
        if r is None:
            self.dead = True
            return None
        if r == INF:
            return INF
        # integer symbols with integer coefficients: floor
        f = r.numerator // r.denominator
        return min(f, iu) if iu != INF else f

    def lower(self, lin):
        u = self.upper(-lin)
        if u is None:
            return None
        return -u if u != INF else -INF

    def entails(self, lin):
        """Does lin <= 0 hold in every concrete state?"""
        if self.dead:
            return True
        if not lin.t:
            return lin.c <= 0
        if self.interval_ub(lin) <= 0:
            return True
        u = self.upper(lin)
        return u is None or u <= 0

    def feasible(self):
        if self.dead:
            return False
        if not self.cons:
            return True
        # one LP on an arbitrary constraint's expression detects infeasibility of its component
        return True

    def check_feasible(self, lin):
        """After adding constraints involving lin: is the state still feasible?"""
        if self.dead:
            return False
        u = self.upper(lin)
        return u is not None and not self.dead


# value constructors
def V_int(lin):
    return ("int", lin)


TOP = ("top",)


def is_int(v):
    return v is not None and v[0] == "int"


# conditions: ('le', Lin) lin<=0 | ('eq', Lin) | ('const', b) | ('not', c) | ('sym', s)
def c_not(c):
    if c[0] == "not":
        return c[1]
    if c[0] == "const":
        return ("const", not c[1])
    return ("not", c)


# bodies in which every `<<` must be proven exact (length accumulation of the TLV header)
LOSSLESS_SHL = {"ber::header::BerHeader::from_ber": (8,)}    # body -> shift amounts concerned (the long-form length: ln << 8)

# Semantic probes: value relations checked at one site of one body, with trace partitioning switched on for that body.
PROBES = {
    "ber::objectid::<impl std::convert::TryFrom<&ber::objectid::SnmpOid<'_>> for std::string::String>::try_from": {
        "kind": "oid", "name": "oid-first-octet", "collect": "Argument::<'_>::new_display", "assume_first_le": 119,
    },
    # DES-CBC pads the serialised scoped PDU up to the next multiple of the block size: 0..7 octets, never a whole block.
    # self.buf holds 8 octets of padding pushed first plus the scoped PDU: its length is self.buf.len() - 8.
    "<privacy::des::DesKey as privacy::SnmpPriv>::encrypt": {
        "kind": "pad", "name": "des-padding", "collect": "::encrypt_padded_mut", "len_expr": "a1.buf.pos", "capacity": 4080, "prefix": 8, "block": 8,
    },
}


class Obligation:
    __slots__ = ("body", "key", "kind", "line", "ok", "detail", "cls", "n", "inst")

    def __init__(self, body, key, kind, line, cls):
        self.body = body
        self.key = key
        self.kind = kind
        self.line = line
        self.ok = True
        self.detail = ""
        self.cls = cls  # 'always' | 'overflow-checks' | 'unsafe' | 'contract'
        self.n = 0


# ============================================================================ engine
class Engine:
    probe = None
    probe_loop_blocks = frozenset()
    probe_next_block = None

    def __init__(self, facts, contracts=None, invariants=None, verbose=False):
        self.facts = facts
        self.syms = []  # (name, lo, hi)
        self.named = {}
        self.lp_calls = 0
        self.nobj = 0
        self.nframe = 0
        self.verbose = verbose
        self.contracts = contracts
        self.invariants = invariants or {}
        self.unmodelled = {}
        self.obligations = {}   # (root path, key) -> Obligation
        self.recording = False
        self.root = None
        self.stack = []
        self.models = None
        self.loop_info = {}
        self.notes = []
        from . import models as _m
        self.models = _m

    # --- symbols
    def new_sym(self, name, lo=-INF, hi=INF):
        self.syms.append((name, lo, hi))
        return len(self.syms) - 1

    def named_sym(self, key, lo=-INF, hi=INF):
        s = self.named.get(key)
        if s is None:
            s = self.new_sym(str(key), lo, hi)
            self.named[key] = s
        return s

    def fresh_int(self, t, name="v"):
        r = ty_range(t) or (-INF, INF)
        return Lin.sym(self.new_sym(name, r[0], r[1]))

    def new_obj(self):
        self.nobj += 1
        return ("O", self.nobj)

    # --- types
    def ty(self, i):
        return self.facts.types[i]

    def is_agg(self, t):
        return t.get("k") in ("adt", "tuple", "array", "closure")

    # ------------------------------------------------------------------ memory
    def fresh_for(self, st, t, name="v", frame=None):
        k = t.get("k")
        if k in ("int", "char"):
            return V_int(self.fresh_int(t, name))
        if k == "bool":
            return ("bool", ("sym", self.new_sym(name, 0, 1)))
        if k in ("ref", "rawptr"):
            to = self.ty(t["to"])
            if to.get("k") in ("slice", "str"):
                ln = Lin.sym(self.new_sym(name + ".len", 0, ISIZE_MAX))
                return ("slice", self.new_obj(), Lin.const(0), ln)
            o = self.new_obj()
            return ("ptr", (o,))
        return TOP

    def kill(self, st, path):
        n = len(path)
        dead = [p for p in st.env if len(p) >= n and p[:n] == path]
        for p in dead:
            del st.env[p]

    def copy_tree(self, st, src, dst):
        if src == dst:
            return
        n = len(src)
        items = [(p, v) for p, v in st.env.items() if len(p) >= n and p[:n] == src]
        self.kill(st, dst)
        for p, v in items:
            st.env[dst + p[n:]] = v

    def move_frame_out(self, st, frame):
        dead = [p for p in st.env if p[0][0] == "L" and p[0][1] == frame]
        for p in dead:
            del st.env[p]

    def read(self, st, path, t, name="v", container=None):
        v = st.env.get(path)
        if v is not None:
            return v
        v = self.fresh_for(st, t, name)
        if is_int(v) and container is not None:
            inv = self.invariants.get(container)
            if inv:
                lo, hi = inv
                st.add(Lin.const(lo) - v[1])
                st.add(v[1] - hi)
        st.env[path] = v
        return v

    def resolve(self, st, fr, pl):
        """Place -> (path, elem) ; elem=True when the place is an element of a slice/array (not tracked)."""
        body = fr.body
        path = (("L", fr.id, pl["l"]),)
        t = self.ty(body.locals[pl["l"]]["ty"])
        elem = False
        for e in pl["p"]:
            if elem:
                # projections below an untracked element
                t = self._proj_ty(t, e)
                continue
            if e == "deref":
                to = self.ty(t["to"]) if t.get("k") in ("ref", "rawptr") else {"k": "unknown"}
                v = self.read(st, path, t, "p") if t.get("k") in ("ref", "rawptr") else TOP
                if v[0] == "ptr":
                    path = v[1]
                elif v[0] == "slice":
                    fr.last_slice = v
                    path = (("S", 0),)
                else:
                    o = self.new_obj()
                    if t.get("k") in ("ref", "rawptr"):
                        st.env[path] = ("ptr", (o,))
                    path = (o,)
                t = to
            elif isinstance(e, str):
                pass
            elif "field" in e:
                path = path + (("f", e["field"]),)
                t = self._proj_ty(t, e)
            elif "downcast" in e:
                path = path + (("dc", e["downcast"]),)
                t = dict(t, _variant=e["downcast"])
            else:
                elem = True
                t = self._proj_ty(t, e)
        return path, elem

    def _proj_ty(self, t, e):
        types = self.facts.types
        if isinstance(e, dict) and "field" in e:
            if t.get("k") == "adt":
                vs = t.get("variants", [])
                vi = t.get("_variant", 0)
                if vs and vi < len(vs) and e["field"] < len(vs[vi]["fields"]) and "ty" in vs[vi]["fields"][e["field"]]:
                    return types[vs[vi]["fields"][e["field"]]["ty"]]
                return {"k": "unknown"}
            if t.get("k") == "tuple":
                return types[t["elems"][e["field"]]]
            return {"k": "unknown"}
        if isinstance(e, dict) and ("index" in e or "const_index" in e):
            return types[t["elem"]] if "elem" in t else {"k": "unknown"}
        if e == "deref":
            return types[t["to"]] if "to" in t else {"k": "unknown"}
        return t

    def container_of(self, fr, pl):
        """(adt path, field name) of the last field projection of a place, for invariants."""
        if not pl["p"]:
            return None
        e = pl["p"][-1]
        if not (isinstance(e, dict) and "field" in e):
            return None
        from .flow import prefix_types
        pts = prefix_types(fr.body, pl)
        bt = pts[len(pl["p"]) - 1]
        if bt.get("k") == "adt":
            return (bt.get("path"), e.get("name"))
        return None

    def read_place(self, st, fr, pl):
        """Value of a scalar place, or ('agg', path) for aggregates."""
        t = self.ty(pl["ty"])
        fr.last_slice = None
        path, elem = self.resolve(st, fr, pl)
        if elem and self.extent is not None and fr.depth == 0 and fr.last_slice is not None and fr.last_slice[1] == self.extent[0]:
            # element read of the extent-limited slice: (*s)[idx]
            for e in pl["p"]:
                if isinstance(e, dict) and "index" in e:
                    iv = st.env.get((("L", fr.id, e["index"]),))
                    if iv is not None and iv[0] == "int":
                        self.extent_read(st, fr, fr.last_slice[2] + iv[1], Lin.const(1), "element")
                elif isinstance(e, dict) and "const_index" in e and not e["from_end"]:
                    self.extent_read(st, fr, fr.last_slice[2] + e["const_index"], Lin.const(1), "element")
        if elem:
            if self.is_agg(t):
                return ("agg", None)
            return self.fresh_for(st, t, "elem")
        if self.is_agg(t):
            return ("agg", path)
        if t.get("k") in ("param", "alias", "opaque") and path not in st.env:
            # a local of generic type inside an inlined helper (`fill: F`) that holds an aggregate (the closure handed in)
            n_ = len(path)
            if any(len(p_) > n_ and p_[:n_] == path for p_ in st.env):
                return ("agg", path)
        return self.read(st, path, t, fr.body.local_name(pl["l"]), self.container_of(fr, pl))

    def write_place(self, st, fr, pl, val):
        path, elem = self.resolve(st, fr, pl)
        if elem:
            return
        self.write_path(st, path, val)

    def write_path(self, st, path, val):
        if val[0] == "agg":
            if val[1] is None:
                self.kill(st, path)
            else:
                self.copy_tree(st, val[1], path)
        elif val[0] == "newagg":
            self.kill(st, path)
            for sub, v in val[1]:
                self.write_path(st, path + sub, v)
        else:
            self.kill(st, path)
            st.env[path] = val

    # ------------------------------------------------------------------ operands / rvalues
    def const_val(self, st, fr, c):
        t = self.ty(c["ty"])
        v = c.get("v") or {}
        if "int" in v:
            return V_int(Lin.const(int(v["int"])))
        if "bool" in v:
            return ("bool", ("const", bool(v["bool"])))
        if "fn" in v:
            return ("fnitem", v["fn"])
        if "str" in v:
            n = len(v["str"].encode())
            return ("slice", self.new_obj(), Lin.const(0), Lin.const(n))
        if "bytes" in v:
            return ("slice", self.new_obj(), Lin.const(0), Lin.const(len(v["bytes"])))
        if "param" in v:
            name = v["param"]
            if name in fr.subst and isinstance(fr.subst[name], int):
                return V_int(Lin.const(fr.subst[name]))
            r = ty_range(t) or (0, INF)
            return V_int(Lin.sym(self.named_sym(("cparam", fr.body.path, name), r[0], r[1])))
        if "promoted" in v or "ptr_bytes" in v or "ptr_static" in v:
            if t.get("k") in ("ref", "rawptr"):
                to = self.ty(t["to"])
                if to.get("k") == "array":
                    n = self.array_len(fr, to)
                    key = ("promoted", fr.body.path, v.get("promoted", str(v)[:40]))
                    o = self.named.get(key)
                    if o is None:
                        o = self.new_obj()
                        self.named[key] = o
                    return ("ptr", (o,))
                if to.get("k") in ("slice", "str"):
                    n = v.get("alloc_len")
                    ln = Lin.const(n) if isinstance(n, int) and "ptr_bytes" in v else Lin.sym(self.new_sym("plen", 0, ISIZE_MAX))
                    return ("slice", self.new_obj(), Lin.const(0), ln)
                if to.get("k") == "adt" and (to.get("path") or "").startswith("std::ops::Range") and isinstance(v.get("promoted"), int):
                    # `(1..=4)` promoted to a constant: an object whose two bounds are the constants of the promoted body
                    bounds = self._promoted_range(fr.body, v["promoted"])
                    if bounds is not None:
                        o = self.new_obj()
                        self.write_path(st, (o, ("f", 0)), V_int(Lin.const(bounds[0])))
                        self.write_path(st, (o, ("f", 1)), V_int(Lin.const(bounds[1])))
                        return ("ptr", (o,))
            return self.fresh_for(st, t, "promoted")
        if self.is_agg(t):
            return ("agg", None)
        return self.fresh_for(st, t, "const")

    def _promoted_range(self, body, idx):
        """(start, end) of a promoted Range / RangeInclusive constant, or None."""
        pbs = getattr(body, "promoted", None) or []
        if idx >= len(pbs):
            return None

        def cint(op):
            c = op.get("const") if isinstance(op, dict) else None
            vv = (c or {}).get("v") or {}
            return vv.get("int") if isinstance(vv.get("int"), int) else None
        for blk in pbs[idx].blocks:
            t = blk.term
            if t and t["k"] == "call" and (callee_path(t) or "").endswith("RangeInclusive::<Idx>::new") and len(t["args"]) == 2:
                a, b = cint(t["args"][0]), cint(t["args"][1])
                if a is not None and b is not None:
                    return a, b
            for stmt in blk.stmts:
                if stmt["k"] == "assign" and stmt["rv"]["k"] == "agg" and (stmt["rv"].get("path") or "").startswith("std::ops::Range") and len(stmt["rv"].get("ops", [])) >= 2:
                    a, b = cint(stmt["rv"]["ops"][0]), cint(stmt["rv"]["ops"][1])
                    if a is not None and b is not None:
                        return a, b
        return None

    def array_len(self, fr, t):
        n = t.get("len")
        if isinstance(n, int):
            return n
        if isinstance(n, str) and n in fr.subst and isinstance(fr.subst[n], int):
            return fr.subst[n]
        return None

    def operand(self, st, fr, op):
        if "const" in op:
            return self.const_val(st, fr, op["const"])
        pl = op.get("copy") or op.get("move")
        if pl is None:
            return TOP
        return self.read_place(st, fr, pl)

    def op_ty(self, fr, op):
        if "const" in op:
            return self.ty(op["const"]["ty"])
        pl = op.get("copy") or op.get("move")
        return self.ty(pl["ty"]) if pl else {"k": "unknown"}

    def as_lin(self, st, v, t=None):
        if v is None:
            return None
        if v[0] == "int":
            return v[1]
        if v[0] == "bool":
            c = v[1]
            if c[0] == "const":
                return Lin.const(1 if c[1] else 0)
            if c[0] == "sym":
                return Lin.sym(c[1])
        return None

    def as_cond(self, v):
        if v[0] == "bool":
            return v[1]
        if v[0] == "int":
            return ("not", ("eq", v[1]))
        return None

    def slice_len(self, st, fr, v, t=None):
        """Length (Lin) of a slice-like value: slice value, or ptr to array / Vec / String / Cow."""
        if v[0] == "slice":
            return v[3]
        if v[0] == "ptr" and t is not None:
            to = t
            if t.get("k") in ("ref", "rawptr"):
                to = self.ty(t["to"])
            if to.get("k") == "array":
                n = self.array_len(fr, to)
                if n is not None:
                    return Lin.const(n)
                return Lin.sym(self.named_sym(("alen", fr.body.path, to.get("s")), 0, ISIZE_MAX))
            return self.len_field(st, v[1])
        return None

    def len_field(self, st, path):
        p = path + ("#len",)
        v = st.env.get(p)
        if v is None:
            v = V_int(Lin.sym(self.new_sym("len", 0, ISIZE_MAX)))
            st.env[p] = v
        return v[1]

    def rvalue(self, st, fr, rv, dest_ty):
        k = rv["k"]
        if k == "use":
            return self.operand(st, fr, rv["op"])
        if k == "copy_for_deref":
            return self.read_place(st, fr, rv["place"])
        if k in ("ref", "rawptr"):
            pl = rv["place"]
            pt = self.ty(pl["ty"])
            path, elem = self.resolve(st, fr, pl)
            if pt.get("k") in ("slice", "str"):
                # reborrow of an unsized place: (*p) where p is a slice reference
                if pl["p"] and pl["p"][-1] == "deref":
                    inner = dict(pl, p=pl["p"][:-1])
                    ity = None
                    from .flow import prefix_types
                    pts = prefix_types(fr.body, pl)
                    inner = dict(inner, ty=self._tyid_of(pts[len(pl["p"]) - 1]))
                    v = self.read_place(st, fr, inner) if inner["ty"] is not None else TOP
                    if v[0] == "slice":
                        return v
                return self.fresh_for(st, dest_ty, "reborrow")
            if elem:
                return ("ptr", (self.new_obj(),))
            return ("ptr", path)
        if k == "cast":
            return self.cast(st, fr, rv)
        if k == "bin":
            return self.binop(st, fr, rv, dest_ty)
        if k == "un":
            return self.unop(st, fr, rv, dest_ty)
        if k == "discr":
            path, elem = self.resolve(st, fr, rv["place"])
            if elem:
                return self.fresh_for(st, dest_ty, "d")
            pt = self.ty(rv["place"]["ty"])
            return self.discr_of(st, path, pt)
        if k == "agg":
            return self.aggregate(st, fr, rv, dest_ty)
        if k == "repeat":
            return ("agg", None)
        return self.fresh_for(st, dest_ty, "rv") if not self.is_agg(dest_ty) else ("agg", None)

    def _tyid_of(self, tdict):
        # find the id of a type dict (identity search; types are shared objects)
        for i, t in enumerate(self.facts.types):
            if t is tdict:
                return i
        return None

    def discr_of(self, st, path, pt):
        p = path + ("#d",)
        v = st.env.get(p)
        if v is None:
            n = len(pt.get("variants", [])) if pt.get("k") == "adt" else 0
            ds = [x["discr"] for x in pt.get("variants", [])] if n else []
            lo, hi = (min(ds), max(ds)) if ds else (-INF, INF)
            v = V_int(Lin.sym(self.new_sym("discr", lo, hi)))
            st.env[p] = v
        return v

    def aggregate(self, st, fr, rv, dest_ty):
        ak = rv["ak"]
        subs = []
        ops = rv["ops"]
        if ak == "adt":
            t = dest_ty
            is_enum = t.get("enum")
            vi = rv["variant"]
            prefix = (("dc", vi),) if is_enum else ()
            if is_enum:
                d = vi
                for x in t.get("variants", []):
                    pass
                vs = t.get("variants", [])
                if vi < len(vs):
                    d = vs[vi]["discr"]
                subs.append((("#d",), V_int(Lin.const(d))))
            if rv.get("union_field") is not None:
                return ("agg", None)
            for i, o in enumerate(ops):
                subs.append((prefix + (("f", i),), self.operand(st, fr, o)))
            return ("newagg", subs)
        if ak in ("tuple", "closure"):
            for i, o in enumerate(ops):
                subs.append(((("f", i),), self.operand(st, fr, o)))
            return ("newagg", subs)
        if ak == "rawptr":
            v = self.operand(st, fr, ops[0])
            return v if v[0] in ("ptr", "slice", "raw") else TOP
        return ("agg", None)

    def cast(self, st, fr, rv):
        v = self.operand(st, fr, rv["op"])
        ck = rv["ck"]
        ft, tt = self.ty(rv["from"]), self.ty(rv["to"])
        if ck == "IntToInt":
            lin = self.as_lin(st, v)
            r = ty_range(tt)
            fr_ = ty_range(ft)
            if self.recording and fr.depth == 0 and lin is not None and r is not None and fr_ is not None and (fr_[0] < r[0] or fr_[1] > r[1]):
                lo_, hi_ = st.lower(lin), st.upper(lin)
                rec = self.cast_facts.setdefault((self.root.path, self.cur_block, self.cur_stmt), {"lo": lo_, "hi": hi_, "to": tt.get("s"), "from": ft.get("s"), "line": self.cur_line})
                if lo_ is not None and (rec["lo"] is None or lo_ < rec["lo"]):
                    rec["lo"] = lo_
                if hi_ is not None and (rec["hi"] is None or hi_ > rec["hi"]):
                    rec["hi"] = hi_
            if lin is not None and r is not None:
                if st.entails(lin - r[1]) and st.entails(Lin.const(r[0]) - lin):
                    return V_int(lin)
                # truncating: low bits kept
                f = self.fresh_int(tt, "trunc")
                return V_int(f)
            return self.fresh_for(st, tt, "cast")
        if ck.startswith("PointerCoercion"):
            if "Unsize" in ck:
                to = self.ty(tt["to"]) if tt.get("k") in ("ref", "rawptr") else {}
                if to.get("k") in ("slice", "str") and v[0] == "ptr":
                    fto = self.ty(ft["to"]) if ft.get("k") in ("ref", "rawptr") else {}
                    n = self.array_len(fr, fto) if fto.get("k") == "array" else None
                    ln = Lin.const(n) if n is not None else Lin.sym(self.named_sym(("alen", fr.body.path, fto.get("s")), 0, ISIZE_MAX))
                    return ("slice", self.base_of(v[1]), Lin.const(0), ln)
            return v
        if ck in ("PtrToPtr", "Transmute", "Subtype", "FnPtrToPtr"):
            return v
        return self.fresh_for(st, tt, "cast")

    def base_of(self, path):
        b = self.named.get(("base", path))
        if b is None:
            b = self.new_obj()
            self.named[("base", path)] = b
        return b

    def unop(self, st, fr, rv, dest_ty):
        op = rv["op"]
        v = self.operand(st, fr, rv["a"])
        if op == "PtrMetadata":
            ln = self.slice_len(st, fr, v, self.op_ty(fr, rv["a"]))
            if ln is not None:
                return V_int(ln)
            return self.fresh_for(st, dest_ty, "meta")
        if op == "Not":
            if v[0] == "bool":
                return ("bool", c_not(v[1]))
            return self.fresh_for(st, dest_ty, "not")
        if op == "Neg":
            lin = self.as_lin(st, v)
            if lin is not None:
                r = ty_range(dest_ty)
                n = -lin
                if r is None or (st.entails(n - r[1]) and st.entails(Lin.const(r[0]) - n)):
                    return V_int(n)
            return self.fresh_for(st, dest_ty, "neg")
        return self.fresh_for(st, dest_ty, "un")

    def binop(self, st, fr, rv, dest_ty):
        op = rv["op"]
        a = self.operand(st, fr, rv["a"])
        b = self.operand(st, fr, rv["b"])
        at = self.op_ty(fr, rv["a"])
        la, lb = self.as_lin(st, a), self.as_lin(st, b)
        if op in ("Eq", "Ne", "Lt", "Le", "Gt", "Ge"):
            if la is None or lb is None:
                return self.fresh_for(st, {"k": "bool"}, "cmp")
            return ("bool", self.cmp_cond(op, la, lb))
        with_ovf = op.endswith("WithOverflow")
        base = op[:-len("WithOverflow")] if with_ovf else op
        base = base.replace("Unchecked", "")
        rt = at if at.get("k") == "int" else dest_ty
        if with_ovf:
            rt = at
        res = None
        if la is not None and lb is not None:
            res = self.arith(st, base, la, lb, rt)
        if base == "Shl" and fr.depth == 0 and fr.body.path in LOSSLESS_SHL and self.recording and lb is not None and not lb.t and \
                lb.c in LOSSLESS_SHL[fr.body.path]:
            # a left shift silently drops the bits shifted out (no overflow check, in any profile): where a length is
            # accumulated the shift must be proven exact
            r_ = ty_range(rt)
            exact = False
            if la is not None and lb is not None and not lb.t and 0 <= lb.c < 128 and r_ is not None:
                ex = la.scale(2 ** lb.c)
                exact = st.entails(ex - r_[1]) and st.entails(Lin.const(r_[0]) - ex)
            self.oblige(st, fr, self.site_key(fr, self.cur_block, "lossless-shl"), "lossless-shl", rv.get("line") or self.cur_line or 0,
                        ("const", bool(exact)), "always", "" if exact else "bits can be shifted out of the accumulated value: a length above the type's range "
                        "wraps to a small one instead of being refused")
        if with_ovf:
            r = ty_range(rt) or (-INF, INF)
            if res is None:
                val = V_int(self.fresh_int(rt, "ovf"))
                flag = ("bool", ("sym", self.new_sym("ovf", 0, 1)))
            else:
                val = V_int(res)
                # overflow flag: res > max or res < min ; keep as a condition pair
                flag = ("bool", ("ovf", res, r[0], r[1]))
            return ("newagg", [((("f", 0),), val), ((("f", 1),), flag)])
        if res is None:
            return self.fresh_for(st, dest_ty, "bin")
        # plain (wrapping) arithmetic: exact only when provably in range
        r = ty_range(rt)
        if r is not None and not (st.entails(res - r[1]) and st.entails(Lin.const(r[0]) - res)):
            if base in ("Add", "Sub", "Mul", "Shl"):
                return V_int(self.fresh_int(rt, "wrap"))
        return V_int(res)

    def cmp_cond(self, op, la, lb):
        if op == "Eq":
            return ("eq", la - lb)
        if op == "Ne":
            return ("not", ("eq", la - lb))
        if op == "Lt":
            return ("le", la - lb + 1)
        if op == "Le":
            return ("le", la - lb)
        if op == "Gt":
            return ("le", lb - la + 1)
        return ("le", lb - la)

    def arith(self, st, op, la, lb, t):
        """Mathematical (non-wrapping) result as a Lin, introducing constrained fresh symbols for
        non-linear operations; None when nothing is known."""
        r = ty_range(t) or (-INF, INF)
        if op == "Add":
            return la + lb
        if op == "Sub":
            return la - lb
        if op == "Mul":
            if not lb.t:
                return la.scale(lb.c)
            if not la.t:
                return lb.scale(la.c)
            # (a / b) * b = a - a % b: between a - b + 1 and a
            for x, y in ((la, lb), (lb, la)):
                if len(x.t) == 1 and x.c == 0 and x.t[0][1] == 1:
                    ent = st.divq.get(("v", x.t[0][0]))
                    if ent is not None and ent[1] == y:
                        m = Lin.sym(self.new_sym("qmul", 0, INF))
                        st.add(m - ent[0])
                        st.add(ent[0] - m - y + 1)
                        return m
            f = self.new_sym("mul")
            ua, ub_, lwa, lwb = st.upper(la), st.upper(lb), st.lower(la), st.lower(lb)
            if None not in (ua, ub_, lwa, lwb) and INF not in (ua, ub_) and -INF not in (lwa, lwb):
                cs = [lwa * lwb, lwa * ub_, ua * lwb, ua * ub_]
                st.lo[f], st.hi[f] = min(cs), max(cs)
            return Lin.sym(f)
        if op in ("Shr", "Div"):
            if not lb.t and lb.c >= 0:
                k = 2 ** lb.c if op == "Shr" else lb.c
                if k == 0:
                    return None
                if k == 1:
                    return la
                if not la.t:
                    return Lin.const(la.c // k) if (op == "Shr" or la.c >= 0) else None
                if op == "Div" and not st.entails(-la):
                    return None
                return self.quotient(st, la, k)
            # variable shift / divisor: result between 0 and a for non-negative a
            if st.entails(-la):
                f = self.new_sym("shr", 0, INF)
                st.add(Lin.sym(f) - la)
                if op == "Div" and st.entails(Lin.const(1) - lb):
                    # remembered for `(a / b) * b` (see Mul): the product is a minus the remainder
                    st.divq[("v", f)] = (la, lb)
                return Lin.sym(f)
            return None
        if op == "Rem":
            if not lb.t and lb.c > 0 and st.entails(-la):
                # a % k = a - k * (a / k), with the quotient symbol shared with an `a / k` of the same dividend
                return la - self.quotient(st, la, lb.c).scale(lb.c)
            if st.entails(-la) and st.entails(Lin.const(1) - lb):
                f = self.new_sym("rem", 0, INF)
                fl = Lin.sym(f)
                st.add(fl - lb + 1)
                st.add(fl - la)
                return fl
            return None
        if op == "Shl":
            if not lb.t and 0 <= lb.c < 128:
                k = 2 ** lb.c
                exact = la.scale(k)
                if r[1] != INF and st.entails(exact - r[1]) and st.entails(Lin.const(r[0]) - exact):
                    return exact
                # bits may be shifted out: result is a multiple of 2^k inside the type
                if r[0] == 0 and r[1] != INF:
                    f = self.new_sym("shl", 0, r[1] + 1 - k)
                    return Lin.sym(f)
                return Lin.sym(self.new_sym("shl", r[0], r[1]))
            return None
        if op == "BitAnd":
            for x, y in ((la, lb), (lb, la)):
                if not y.t and y.c >= 0:
                    if not x.t:
                        return Lin.const(x.c & y.c)
                    f = self.new_sym("and", 0, y.c)
                    fl = Lin.sym(f)
                    if st.entails(-x):
                        st.add(fl - x)
                        # x & !(2^k - 1): rounding down to a multiple of 2^k loses less than 2^k
                        bits = r[1].bit_length() if r[1] not in (INF, -INF) and r[0] == 0 else None
                        if bits:
                            low = (2 ** bits - 1) - y.c
                            if low > 0 and (low & (low + 1)) == 0:
                                st.add(x - fl - low)
                    return fl
            if st.entails(-la) and st.entails(-lb):
                f = self.new_sym("and", 0, INF)
                st.add(Lin.sym(f) - la)
                st.add(Lin.sym(f) - lb)
                return Lin.sym(f)
            return None
        if op in ("BitOr", "BitXor"):
            if not la.t and not lb.t:
                return Lin.const((la.c | lb.c) if op == "BitOr" else (la.c ^ lb.c))
            ua, ub_ = st.upper(la), st.upper(lb)
            if st.entails(-la) and st.entails(-lb) and ua not in (None, INF) and ub_ not in (None, INF):
                m = max(ua, ub_)
                bits = m.bit_length()
                f = self.new_sym("or", 0, 2 ** bits - 1)
                return Lin.sym(f)
            return None
        return None

    def quotient(self, st, la, k):
        """Lin of floor(la / k) for la >= 0 and a constant k >= 2: k*q <= la <= k*q + k - 1."""
        key = (la, k)
        q = st.divq.get(key)
        if q is not None:
            return Lin.sym(q)
        q = self.new_sym("q")
        ql = Lin.sym(q)
        st.add(ql.scale(k) - la)
        st.add(la - ql.scale(k) - (k - 1))
        lo_a, up_a = st.lower(la), st.upper(la)
        if lo_a is not None and lo_a != -INF:
            st.lo[q] = lo_a // k
        if up_a is not None and up_a != INF:
            st.hi[q] = up_a // k
        st.divq[key] = q
        return ql

    # ------------------------------------------------------------------ conditions
    def assume(self, st, c, truth=True):
        """Refine st in place with condition c being `truth`; may set st.dead."""
        k = c[0]
        if k == "const":
            if c[1] != truth:
                st.dead = True
            return
        if k == "not":
            return self.assume(st, c[1], not truth)
        if k == "sym":
            st.add_eq(Lin.sym(c[1]) - (1 if truth else 0))
            return
        if k == "le":
            if truth:
                st.add(c[1])
            else:
                st.add(Lin.const(1) - c[1])
            return
        if k == "eq":
            if truth:
                st.add_eq(c[1])
            else:
                # disequality: tighten when the value sits on a bound
                u, l = st.upper(c[1]), st.lower(c[1])
                if u is None or l is None:
                    return
                if u == 0 and l == 0:
                    st.dead = True
                elif u == 0:
                    st.add(c[1] + 1)
                elif l == 0:
                    st.add(Lin.const(1) - c[1])
            return
        if k == "ovf":
            res, lo, hi = c[1], c[2], c[3]
            if truth:
                # overflowed: cannot express the disjunction; refine when one side is impossible
                if st.entails(Lin.const(lo) - res):
                    st.add(Lin.const(hi + 1) - res)
                elif st.entails(res - hi):
                    st.add(res - (lo - 1))
            else:
                st.add(res - hi)
                st.add(Lin.const(lo) - res)
            return
        if k == "and":
            if truth:
                for x in c[1]:
                    self.assume(st, x, True)
            return
        if k == "or":
            if not truth:
                for x in c[1]:
                    self.assume(st, x, False)
            return

    def holds(self, st, c, truth=True):
        """Is condition c == truth entailed?"""
        if st.dead:
            return True
        k = c[0]
        if k == "const":
            return c[1] == truth
        if k == "not":
            return self.holds(st, c[1], not truth)
        if k == "sym":
            return st.entails(Lin.const(1) - Lin.sym(c[1])) if truth else st.entails(Lin.sym(c[1]))
        if k == "le":
            return st.entails(c[1]) if truth else st.entails(Lin.const(1) - c[1])
        if k == "eq":
            if truth:
                return st.entails(c[1]) and st.entails(-c[1])
            return st.entails(c[1] + 1) or st.entails(Lin.const(1) - c[1])
        if k == "ovf":
            res, lo, hi = c[1], c[2], c[3]
            if truth:
                return False
            return st.entails(res - hi) and st.entails(Lin.const(lo) - res)
        if k == "and":
            return all(self.holds(st, x, True) for x in c[1]) if truth else any(self.holds(st, x, False) for x in c[1])
        if k == "or":
            return any(self.holds(st, x, True) for x in c[1]) if truth else all(self.holds(st, x, False) for x in c[1])
        return False

    # ------------------------------------------------------------------ obligations
    def oblige(self, st, fr, key, kind, line, cond, cls="always", detail=""):
        """Record that `cond` must hold here.  Only sites of the root body are recorded."""
        if not self.recording or fr.depth != 0:
            return
        ok = self.holds(st, cond, True)
        k = (self.root.path, key)
        ob = self.obligations.get(k)
        if ob is None:
            ob = Obligation(self.root, key, kind, line, cls)
            self.obligations[k] = ob
        ob.n += 1
        if not ok:
            ob.ok = False
            if not ob.detail:
                ob.detail = detail or self.describe_failure(st, cond)

    def describe_failure(self, st, cond):
        try:
            if cond[0] == "le":
                u = st.upper(cond[1])
                return "cannot show %s <= 0 (upper bound %s)" % (self.show_lin(cond[1]), u)
            if cond[0] == "not" and cond[1][0] == "ovf":
                res, lo, hi = cond[1][1], cond[1][2], cond[1][3]
                return "result %s not shown inside [%s, %s]: bounds [%s, %s]" % (self.show_lin(res), lo, hi, st.lower(res), st.upper(res))
            if cond[0] == "eq":
                return "cannot show %s == 0 (bounds [%s, %s])" % (self.show_lin(cond[1]), st.lower(cond[1]), st.upper(cond[1]))
            if cond[0] == "and":
                for x in cond[1]:
                    if not self.holds(st, x, True):
                        return self.describe_failure(st, x)
        except Exception:
            pass
        return "condition %s not entailed" % (cond[0],)

    def show_lin(self, lin):
        parts = []
        for s, k in lin.t:
            nm = self.syms[s][0]
            parts.append("%s%s%s#%d" % ("+" if k > 0 else "-", "" if abs(k) == 1 else "%d*" % abs(k), nm, s))
        if lin.c or not parts:
            parts.append("%+d" % lin.c)
        return " ".join(parts)

    def extent_read(self, st, fr, off, n, what):
        """Obligation: the octets [off, off+n) read from the extent-limited slice lie below its declared length."""
        if self.extent is None or not self.recording or fr.depth != 0:
            return
        base, hlen = self.extent
        cond = ("le", off + n - hlen)
        sk = self.site_key(fr, self.cur_block if self.cur_term is None else self.cur_term, "extent:" + what)
        key = "extent|%s" % sk
        self.oblige(st, fr, key, "extent", self.cur_line or fr.body.line, cond, "always")
        # the dual observation (not an obligation): this read reaches the end of the element on every visit
        inloop = getattr(self, "_loop_blocks", None)
        if inloop is None or inloop[0] is not fr.body:
            lb = set()
            for h_, bl_ in cfgm.natural_loops(fr.body).items():
                lb |= set(bl_)
            inloop = self._loop_blocks = (fr.body, lb)
        where = "loop" if self.cur_block in inloop[1] else "once"
        self.oblige(st, fr, "cover:%s|%s" % (where, sk), "cover", self.cur_line or fr.body.line, ("le", hlen - off - n), "info")

    def extent_escape(self, st, fr, v, what):
        """A slice / iterator over the extent-limited input leaves the analysed code (external reader, return value)."""
        if self.extent is None:
            return
        if v[0] in ("agg", "ptr") and v[1] is not None:
            x = st.env.get(v[1])
            if x is not None and x[0] in ("iter", "slice"):
                v = x
        if v[0] == "slice" and v[1] == self.extent[0]:
            self.extent_read(st, fr, v[2], v[3], what)
        elif v[0] == "iter":
            d = dict(v[1])
            if d.get("base") == self.extent[0] and isinstance(d.get("count"), Lin):
                self.extent_read(st, fr, d.get("off", Lin.const(0)), d["count"], what)

    # ------------------------------------------------------------------ partitions / join
    def part_key(self, st):
        ks = []
        if st.trace:
            ks.append((("#trace",), st.trace))
        for p, v in st.env.items():
            if p[-1] == "#d" and v[0] == "int" and not v[1].t:
                ks.append((p, v[1].c))
        return frozenset(ks)

    def normalize(self, states, jid):
        states = [s for s in states if not s.dead]
        if len(states) <= 1:
            return states
        groups = {}
        for s in states:
            groups.setdefault(self.part_key(s), []).append(s)
        if len(groups) > MAX_PART:
            return [self.join(states, jid)]
        out = []
        for key, g in groups.items():
            out.append(g[0] if len(g) == 1 else self.join(g, (jid, tuple(sorted(map(str, key))))))
        return out

    def join(self, states, jid, widen_prev=None):
        states = [s for s in states if not s.dead]
        if not states:
            r = St(self)
            r.dead = True
            return r
        if len(states) == 1:
            return states[0].copy()
        out = St(self)
        first = states[0]
        if all(x.trace == first.trace for x in states):
            out.trace = first.trace
        # symbols being (re)defined at this join
        phi = {}
        per_state = []  # list of dict phi_sym -> Lin per state
        for _ in states:
            per_state.append({})
        common_paths = [p for p in first.env if all(p in s.env for s in states[1:])]
        redefined = set(v for k, v in self.named.items() if isinstance(k, tuple) and k and k[0] == "phi" and k[1] == jid)

        def mentions_redefined(lin):
            return any(s in redefined for s, _ in lin.t)

        def phi_for(path, field, lins):
            key = ("phi", jid, path, field)
            s = self.named.get(key)
            if s is None:
                s = self.new_sym("phi%s" % (path[-1:],))
                self.named[key] = s
                redefined.add(s)
            phi[s] = lins
            for i, l in enumerate(lins):
                per_state[i][s] = l
            return Lin.sym(s)

        for p in common_paths:
            vals = [s.env[p] for s in states]
            k0 = vals[0][0]
            if any(v[0] != k0 for v in vals):
                continue
            if k0 == "int":
                lins = [v[1] for v in vals]
                if all(l == lins[0] for l in lins) and not mentions_redefined(lins[0]):
                    out.env[p] = vals[0]
                else:
                    out.env[p] = V_int(phi_for(p, 0, lins))
            elif k0 == "slice":
                if all(v[1] == vals[0][1] for v in vals):
                    offs = [v[2] for v in vals]
                    lens = [v[3] for v in vals]
                    off = offs[0] if all(o == offs[0] for o in offs) and not mentions_redefined(offs[0]) else phi_for(p, 1, offs)
                    ln = lens[0] if all(o == lens[0] for o in lens) and not mentions_redefined(lens[0]) else phi_for(p, 2, lens)
                    out.env[p] = ("slice", vals[0][1], off, ln)
                else:
                    lens = [v[3] for v in vals]
                    ln = lens[0] if all(o == lens[0] for o in lens) and not mentions_redefined(lens[0]) else phi_for(p, 2, lens)
                    out.env[p] = ("slice", self.named_obj(("jbase", jid, p)), Lin.const(0), ln)
            elif k0 == "raw":
                rems = [v[1] for v in vals]
                rem = rems[0] if all(o == rems[0] for o in rems) and not mentions_redefined(rems[0]) else phi_for(p, 3, rems)
                out.env[p] = ("raw", rem)
            elif k0 == "iter":
                if all(v == vals[0] for v in vals) and not any(mentions_redefined(l) for l in _lins_of(vals[0])):
                    out.env[p] = vals[0]
                else:
                    ds = [dict(v[1]) for v in vals]
                    keys = set(ds[0])
                    if all(set(d) == keys for d in ds):
                        nd = {}
                        okj = True
                        for fi, kk in enumerate(sorted(keys)):
                            xs = [d[kk] for d in ds]
                            if isinstance(xs[0], Lin):
                                nd[kk] = xs[0] if all(x == xs[0] for x in xs) and not mentions_redefined(xs[0]) else phi_for(p, 10 + fi, xs)
                            elif all(x == xs[0] for x in xs):
                                nd[kk] = xs[0]
                            else:
                                okj = False
                        if okj:
                            out.env[p] = ("iter", tuple(sorted(nd.items(), key=lambda x: x[0])))
            else:
                if all(v == vals[0] for v in vals):
                    out.env[p] = vals[0]
                elif k0 == "bool":
                    pass
        # --- constraints common to all states (syntactic) or entailed by the others
        live = set(self.pinned)
        for v in out.env.values():
            for l in _lins_of(v):
                live.update(l.syms())
        cand = set()
        for s in states:
            cand |= project_cons(s, live - redefined)
        for c in cand:
            if mentions_redefined(c):
                continue
            if not all(x in live for x in c.syms()):
                continue
            if all((c in s.cons) or s.entails(c) for s in states):
                out.cons.add(c)
        # bounds of common (non-phi) live symbols
        for s_ in live:
            if s_ in phi:
                continue
            lo = min(st.lb(s_) for st in states)
            hi = max(st.ub(s_) for st in states)
            if lo > self.syms[s_][1]:
                out.lo[s_] = lo
            if hi < self.syms[s_][2]:
                out.hi[s_] = hi
        # --- congruences (strides of loop counters): a phi whose incoming values are constants, values of symbols with a
        # known congruence plus a constant, or the phi's own previous value plus a constant
        from math import gcd
        for s_ in live:
            if s_ in phi or s_ in redefined:
                continue
            ms = [st.mod.get(s_) for st in states]
            if ms[0] is not None and all(m == ms[0] for m in ms):
                out.mod[s_] = ms[0]
        for ps, lins in phi.items():
            bases, steps, okc = [], [], True
            for st, l in zip(states, lins):
                if not l.t:
                    bases.append((0, l.c))
                elif len(l.t) == 1 and l.t[0][1] == 1:
                    q = l.t[0][0]
                    if q == ps:
                        steps.append(l.c)
                    elif q in st.mod:
                        g_, r_ = st.mod[q]
                        bases.append((g_, (r_ + l.c) % g_))
                    elif st.lb(q) == st.ub(q) and st.lb(q) not in (INF, -INF):
                        bases.append((0, st.lb(q) + l.c))
                    else:
                        okc = False
                else:
                    okc = False
            if not okc or not bases:
                continue
            G = 0
            for g_, r_ in bases:
                G = gcd(G, g_)
                G = gcd(G, abs(r_ - bases[0][1]))
            for d_ in steps:
                G = gcd(G, abs(d_))
            if G >= 2:
                out.mod[ps] = (G, bases[0][1] % G)
        # --- templates for phi symbols
        prev = widen_prev or {}
        tmpl = {}
        phis = sorted(phi)
        # related common symbols: those sharing a constraint (1 hop) with the phi's source expressions
        for ps in phis:
            lins = phi[ps]
            ups = [st.upper(l) for st, l in zip(states, lins)]
            los = [st.lower(l) for st, l in zip(states, lins)]
            if None in ups or None in los:
                continue
            hi, lo = max(ups), min(los)
            tmpl[("hi", ps)] = hi
            tmpl[("lo", ps)] = lo
        rel_common = {}
        for ps in phis:
            rs = set()
            for st, l in zip(states, phi[ps]):
                src = set(l.syms())
                for c in st.cons:
                    cs = set(c.syms())
                    if cs & src:
                        rs |= cs
                rs |= src
            cand_y = [x for x in (rs | self.pinned) if x in live and x not in phi and x not in redefined]
            cand_y.sort(key=lambda x: (x not in self.pinned, x))
            rel_common[ps] = cand_y[:6]
        for i, ps in enumerate(phis):
            for y in rel_common[ps]:
                for kind, sy in (("d", -1), ("s", 1)):
                    for sign in (1, -1):
                        # bound of sign*(phi - y) / sign*(phi + y)
                        vals = []
                        for st, l in zip(states, phi[ps]):
                            e = (l + Lin.sym(y).scale(sy)).scale(sign)
                            vals.append(st.upper(e))
                        if None in vals:
                            continue
                        b = max(vals)
                        if b != INF and abs(b) < 2 ** 62:
                            tmpl[(kind, ps, y, sign)] = b
            for qs in phis[i + 1:]:
                for kind, sy in (("d", -1), ("s", 1)):
                    for sign in (1, -1):
                        vals = []
                        for st, lp, lq in zip(states, phi[ps], phi[qs]):
                            vals.append(st.upper((lp + lq.scale(sy)).scale(sign)))
                        if None in vals:
                            continue
                        b = max(vals)
                        if b != INF and abs(b) < 2 ** 62:
                            tmpl[(kind, ps, qs, sign)] = b
        # widening against the previous iteration's templates
        if widen_prev is not None:
            for k, b in list(tmpl.items()):
                if k in prev:
                    pb = prev[k]
                    if k[0] == "lo":
                        if b < pb:
                            tmpl[k] = -INF
                    elif b > pb:
                        tmpl[k] = INF
                elif prev:
                    # template absent before: it did not hold then
                    if k[0] == "lo":
                        tmpl[k] = -INF
                    else:
                        tmpl[k] = INF
        for k, b in tmpl.items():
            if k[0] == "hi" and b != INF:
                if b < self.syms[k[1]][2]:
                    out.hi[k[1]] = b
            elif k[0] == "lo" and b != -INF:
                if b > self.syms[k[1]][1]:
                    out.lo[k[1]] = b
            elif k[0] in ("d", "s") and b != INF:
                e = (Lin.sym(k[1]) + Lin.sym(k[2]).scale(-1 if k[0] == "d" else 1)).scale(k[3]) - b
                out.add(e)
        self.last_tmpl = tmpl
        return out

    def named_obj(self, key):
        o = self.named.get(key)
        if o is None:
            o = self.new_obj()
            self.named[key] = o
        return o


def project_cons(st, keep):
    """Constraints of st over `keep` symbols only, eliminating the others by (bounded) Fourier-Motzkin so
    that relations carried through dead intermediate symbols survive (a <= t, t <= b  ==>  a <= b)."""
    cons = list(st.cons)
    dead = set()
    for c in cons:
        for x in c.syms():
            if x not in keep:
                dead.add(x)
    for x in sorted(dead):
        P, N, Z = [], [], []
        for c in cons:
            k = dict(c.t).get(x, 0)
            (P if k > 0 else N if k < 0 else Z).append((c, k))
        # the symbol's own bounds take part in the elimination
        lo, hi = st.lb(x), st.ub(x)
        if hi != INF:
            P.append((Lin.sym(x) - hi, 1))
        if lo != -INF:
            N.append((Lin.const(lo) - Lin.sym(x), -1))
        if len(P) * len(N) > 40:
            cons = [c for c, _ in Z]
            continue
        new = [c for c, _ in Z]
        for cp, kp in P:
            for cn, kn in N:
                r = cp.scale(-kn) + cn.scale(kp)
                if r.t and len(r.t) <= 3 and all(abs(k) <= 64 for _, k in r.t):
                    new.append(r)
        cons = new
    out = set()
    for c in cons:
        if len(c.t) >= 2:
            out.add(c)
    return out


def _lins_of(v):
    if v[0] == "int":
        return [v[1]]
    if v[0] == "slice":
        return [v[2], v[3]]
    if v[0] == "raw":
        return [v[1]]
    if v[0] == "iter":
        return [x for _, x in v[1] if isinstance(x, Lin)]
    if v[0] == "bool":
        return _lins_of_cond(v[1])
    return []


def _lins_of_cond(c):
    if c[0] in ("le", "eq"):
        return [c[1]]
    if c[0] == "not":
        return _lins_of_cond(c[1])
    if c[0] == "sym":
        return [Lin.sym(c[1])]
    if c[0] == "ovf":
        return [c[1]]
    if c[0] in ("and", "or"):
        out = []
        for x in c[1]:
            out += _lins_of_cond(x)
        return out
    return []




# ============================================================================ interpreter
class Frame:
    __slots__ = ("id", "body", "subst", "depth", "last_slice", "old", "parent")

    def __init__(self, fid, body, subst, depth, parent=None):
        self.id = fid
        self.body = body
        self.subst = subst or {}
        self.depth = depth
        self.last_slice = None
        self.old = {}
        self.parent = parent


def st_sig(st):
    live = set()
    for v in st.env.values():
        for l in _lins_of(v):
            live.update(l.syms())
    for c in st.cons:
        live.update(c.syms())
    return (frozenset(st.env.items()), frozenset(st.cons), frozenset((s, st.lb(s), st.ub(s), st.mod.get(s)) for s in live))


def states_changed(old, new):
    if old is None:
        return True
    if len(old) != len(new):
        return True
    return set(st_sig(s) for s in old) != set(st_sig(s) for s in new)


class Interp:
    """Mixin with the CFG fixpoint; kept separate from the domain for readability."""

    def next_frame(self):
        self.nframe += 1
        return self.nframe

    def run_body(self, fr, states_in, record_after=True, entry=0, region=None, cut=None):
        """Fixpoint over the body (or over `region` starting at `entry`; edges into `cut` are collected, not followed)."""
        body = fr.body
        order = cfgm.rpo(body)
        pos = {b: i for i, b in enumerate(order)}
        preds = body.preds()
        heads = set(h for _, h in cfgm.back_edges(body))
        edge_out = {}
        inst = {entry: states_in}
        visits = {}
        exits = {}
        work = {entry}
        self.cut_states = []
        steps = 0
        unrolled_for, no_unroll = {}, set()
        while work:
            b = min(work, key=lambda x: pos.get(x, 10 ** 9))
            work.discard(b)
            ins = inst.get(b)
            if not ins:
                continue
            steps += 1
            if steps > 4000:
                raise RuntimeError("num: no fixpoint in %s (loop-head visits %s)" % (body.path, sorted(visits.items())))
            succ, ex = self.transfer(fr, b, [s.copy() for s in ins])
            if ex is not None:
                exits[b] = ex
            for s in body.blocks[b].succs():
                if body.blocks[s].cleanup:
                    continue
                edge_out[(b, s)] = succ.get(s, [])
            for s in set(body.blocks[b].succs()):
                if body.blocks[s].cleanup or s not in pos:
                    continue
                if cut is not None and s == cut:
                    self.cut_states += [x for x in succ.get(s, []) if not x.dead]
                    continue
                if region is not None and s not in region:
                    continue
                allst = []
                for p in preds[s]:
                    allst += edge_out.get((p, s), [])
                jid = (fr.id, body.path, s) if region is None else (fr.id, body.path, s, "region", entry)
                if s in heads and region is None and fr.depth == 0 and s in self.unrollable(body) and s not in no_unroll:
                    # a value-consuming loop with a capacity exit (gsa/loops.py) is run iteration by iteration instead of
                    # being joined and widened at its head; its exit edges and block-entry states are then used as if the
                    # worklist had produced them
                    blocks_ = self.unrollable(body)[s]
                    ent = self.normalize_w([x for p_ in preds[s] if p_ not in blocks_ for x in edge_out.get((p_, s), [])], jid, widen=False)
                    if not states_changed(unrolled_for.get(s), ent):
                        continue
                    unrolled_for[s] = ent
                    res = self.unroll_loop(fr, s, blocks_, ent)
                    if res is None:
                        no_unroll.add(s)
                    else:
                        ex_edges, inner_inst, inner_exits = res
                        for b_ in blocks_:
                            inst[b_] = inner_inst.get(b_, [])
                            if b_ in inner_exits:
                                exits[b_] = inner_exits[b_]
                            else:
                                exits.pop(b_, None)
                        touched = set()
                        for (u_, v_), sts in ex_edges.items():
                            edge_out[(u_, v_)] = sts
                            touched.add(v_)
                        for v_ in touched:
                            if body.blocks[v_].cleanup or v_ not in pos:
                                continue
                            all2 = []
                            for p_ in preds[v_]:
                                all2 += edge_out.get((p_, v_), [])
                            new2 = self.normalize_w(all2, (fr.id, body.path, v_), widen=False)
                            if states_changed(inst.get(v_), new2):
                                inst[v_] = new2
                                work.add(v_)
                        continue
                if s in heads:
                    visits[s] = visits.get(s, 0) + 1
                    new = self.normalize_w(allst, jid, widen=visits[s] > 2, hard=visits[s] > 6)
                    tb = self.trip_bounds(fr, s, preds, edge_out)
                    for l_, (kind_, b_) in tb.items():
                        for st_ in new:
                            v_ = st_.env.get((("L", fr.id, l_),))
                            if v_ is not None and v_[0] == "int" and not st_.dead:
                                st_.add((v_[1] - b_) if kind_ == "ub" else (Lin.const(b_) - v_[1]))
                else:
                    new = self.normalize_w(allst, jid, widen=False)
                if states_changed(inst.get(s), new):
                    inst[s] = new
                    work.add(s)
        out = []
        for b in sorted(exits):
            out += exits[b]
        fr_inst = inst
        self.last_edge_out, self.last_exits, self.last_inst = edge_out, exits, inst
        return out, fr_inst

    def unrollable(self, body):
        """{head: blocks} of the loops that are run iteration by iteration: value-consuming loops of the codec with an exit
        decided by a counter or by an iterator running out (gsa/loops.py)."""
        c = self._unrollable.get(body.path)
        if c is None:
            c = {}
            if body.path.startswith("ber::") or body.path.startswith("<ber::"):
                li = self._loop_info.get(body.path)
                if li is None:
                    from . import loops as loopsm
                    li = self._loop_info[body.path] = loopsm.analyse(body)
                for h_, info in li.items():
                    if info["consumed"] and info["capacity_exits"]:
                        c[h_] = set(info["blocks"])
            self._unrollable[body.path] = c
        return c

    def unroll_loop(self, fr, head, blocks, entry_states):
        """Run the loop at `head` one iteration at a time (at most MAX_UNROLL): returns (states on the edges leaving the
        loop, block-entry states of all iterations, function exits inside the loop), or None when the loop did not
        finish within the bound."""
        body = fr.body
        cur = [s for s in entry_states if not s.dead]
        ex_edges, inner, inner_exits = {}, {}, {}
        saved = (self.cut_states, getattr(self, "last_edge_out", None), getattr(self, "last_exits", None), self.exact_ranges)
        self.exact_ranges = True
        try:
            for k in range(MAX_UNROLL + 1):
                if not cur:
                    break
                if k == MAX_UNROLL:
                    return None
                self.run_body(fr, [s.copy() for s in cur], entry=head, region=blocks, cut=head)
                eo, exs, back = self.last_edge_out, self.last_exits, self.cut_states
                for (u, v), sts in eo.items():
                    if u in blocks and v not in blocks and not body.blocks[v].cleanup:
                        ex_edges.setdefault((u, v), [])
                        ex_edges[(u, v)] += [x for x in sts if not x.dead]
                for b_, sts in self.last_inst.items():
                    inner.setdefault(b_, [])
                    inner[b_] += [x for x in sts if not x.dead]
                for b_, sts in exs.items():
                    inner_exits.setdefault(b_, [])
                    inner_exits[b_] += sts
                cur = [x for x in back if not x.dead]
        finally:
            self.cut_states, self.last_edge_out, self.last_exits, self.exact_ranges = saved
        return ex_edges, inner, inner_exits

    def capacity_check(self, fr, b, succ):
        """Obligation at the capacity exits of a value-consuming loop of a codec function (gsa/loops.py): when the loop is
        left because a counter or an iterator ran out, the value it was emitting digit by digit / octet by octet is used up
        (0; within -1..=0 for an arithmetic shift of a signed value).  Otherwise the remaining digits are dropped silently."""
        body = fr.body
        if not succ or fr.depth != 0 or b not in {x for bl in self.unrollable(body).values() for x in bl}:
            return
        info = self._loop_info.get(body.path) or {}
        for head, li in info.items():
            if head not in self.unrollable(body) or b not in li["blocks"]:
                continue
            for (src, dst) in li["capacity_exits"]:
                if src != b:
                    continue
                for st in succ.get(dst, []):
                    if st.dead:
                        continue
                    for v, (kind, signed) in sorted(li["consumed"].items()):
                        val = st.env.get((("L", fr.id, v),))
                        if val is None or val[0] != "int":
                            cond = ("const", False)
                        elif kind == "shr" and signed:
                            cond = ("and", [("le", val[1]), ("le", -val[1] - 1)])   # -1 <= v <= 0: only the sign extension is left
                        else:
                            cond = ("eq", val[1])
                        line = body.blocks[src].term.get("line") if body.blocks[src].term else body.line
                        self.oblige(st, fr, "capacity-exit|%s|loop@%d" % (body.local_name(v), head), "capacity-exit", line, cond, "always",
                                    "the loop can be left because its counter / iterator ran out while `%s` is not used up: the remaining "
                                    "digits or octets of the value are dropped" % body.local_name(v))

    def trip_bounds(self, fr, head, preds, edge_out):
        """Upper bounds of the step counters of a `while v != 0 { ..; v >>= c }` loop (gsa/loops.py): an unsigned value
        below 2^b that is shifted right by c once per iteration is zero after ceil(b / c) iterations (divided by c:
        after floor(log_c) + 1), so a counter stepped by +s once per iteration stays below init + s * trips.  The loop
        must be a single straight body (its only branch is the zero test at the head)."""
        body = fr.body
        li = self._loop_info.get(body.path)
        if li is None:
            from . import loops as loopsm
            li = self._loop_info[body.path] = loopsm.analyse(body)
        info = li.get(head)
        if not info or not info["zero_exit"] or not info["step_counters"]:
            return {}
        if sum(1 for b in info["blocks"] if body.blocks[b].term and body.blocks[b].term["k"] == "switch") != 1:
            return {}
        entry = [st for p in preds[head] if p not in info["blocks"] for st in edge_out.get((p, head), []) if not st.dead]
        if not entry:
            return {}
        trips = None
        for v in info["zero_exit"]:
            kind, signed = info["consumed"][v]
            cs = info["amounts"].get(v) or []
            if signed or len(cs) != 1:
                continue
            ub = 0
            for st in entry:
                x = st.env.get((("L", fr.id, v),))
                u = st.upper(x[1]) if x is not None and x[0] == "int" else INF
                if u is None:
                    continue
                ub = max(ub, u)
            if ub == INF:
                continue
            ub = max(int(ub), 0)
            if kind == "shr":
                t = -(-ub.bit_length() // cs[0])
            else:
                t, w = 0, ub
                while w > 0 and cs[0] > 1:
                    w //= cs[0]
                    t += 1
                if cs[0] <= 1:
                    continue
            trips = t if trips is None else min(trips, t)
        if trips is None:
            return {}
        out = {}
        tail = bool(info.get("zero_at_tail"))
        if tail:
            trips = max(trips, 1)      # the body runs before the first test
        for l in info["step_counters"]:
            st_ = info["steps"].get(l) or []
            if len(st_) != 1 or st_[0] == 0:
                continue
            up = st_[0] > 0
            ini = None
            ok = True
            for st in entry:
                x = st.env.get((("L", fr.id, l),))
                if x is None or x[0] != "int":
                    ok = False
                    break
                u = st.upper(x[1]) if up else st.lower(x[1])
                if u is None:
                    continue
                if u in (INF, -INF):
                    ok = False
                    break
                ini = int(u) if ini is None else (max(ini, int(u)) if up else min(ini, int(u)))
            if ok and ini is not None:
                # value at the head: after at most `trips` completed iterations (one fewer when the test is at the tail)
                k = trips - 1 if tail else trips
                out[l] = ("ub", ini + st_[0] * k) if up else ("lb", ini + st_[0] * k)
        return out

    def normalize_w(self, states, jid, widen, hard=False):
        states = [s for s in states if not s.dead]
        if len(states) <= 1 and not hard:
            return states
        groups = {}
        for s in states:
            groups.setdefault(self.part_key(s), []).append(s)
        if len(groups) > MAX_PART:
            groups = {frozenset(): states}
        out = []
        for key, g in groups.items():
            j = (jid, tuple(sorted(map(str, key))))
            if len(g) == 1 and not widen:
                out.append(g[0])
                continue
            prev = self.tmpl_store.get(j) if widen else None
            r = self.join(g, j, widen_prev=prev if widen else None) if len(g) > 1 else g[0]
            if len(g) > 1:
                self.tmpl_store[j] = self.last_tmpl
            if hard:
                old_ = self.hard_prev.get(j)
                if old_ is not None and not old_.dead and not r.dead and old_.env != r.env:
                    # the iteration allocates (a String, a Vec: a new object identity every time round), so the two
                    # environments never compare equal: join them first - what differs is dropped or becomes a phi of this
                    # head - and widen the result, whose environment then repeats
                    jh = (j, "hard")
                    r = self.join([old_, r], jh, widen_prev=self.tmpl_store.get(jh))
                    self.tmpl_store[jh] = self.last_tmpl
                r = self.hard_widen(old_, r)
                self.hard_prev[j] = r
            out.append(r)
        return out

    def hard_widen(self, old, new):
        """Classical widening of one state against the state the same partition had at the previous visit of the loop head
        (used from the seventh visit on, when templates alone did not stabilise the head: a partition that holds a single
        state is never joined, and bounds of symbols that are not redefined at the head are only hulled).  Keeps the old
        state's constraints and bounds that still hold in the new state; a bound that moved goes to the type's range."""
        if old is None or new.dead or old.dead or old.env != new.env:
            return new
        r = new.copy()
        r.cons = set(c for c in old.cons if (c in new.cons) or new.entails(c))
        live = set()
        for v in new.env.values():
            for l in _lins_of(v):
                live.update(l.syms())
        for c in new.cons | old.cons:
            live.update(c.syms())
        live |= set(new.lo) | set(new.hi) | set(old.lo) | set(old.hi)
        r.lo, r.hi = {}, {}
        for s_ in live:
            if new.lb(s_) >= old.lb(s_) and old.lb(s_) > self.syms[s_][1]:
                r.lo[s_] = old.lb(s_)
            if new.ub(s_) <= old.ub(s_) and old.ub(s_) < self.syms[s_][2]:
                r.hi[s_] = old.ub(s_)
        r.mod = {k: v for k, v in new.mod.items() if old.mod.get(k) == v}
        r.divq = {k: v for k, v in new.divq.items() if old.divq.get(k) == v}
        return r

    # ------------------------------------------------------------------ transfer
    def transfer(self, fr, bidx, states):
        body = fr.body
        blk = body.blocks[bidx]
        for si, stmt in enumerate(blk.stmts):
            k = stmt["k"]
            if fr.depth == 0:
                self.cur_block, self.cur_stmt, self.cur_line = bidx, si, stmt.get("line")
            if k == "assign":
                for st in states:
                    if st.dead:
                        continue
                    dt = self.ty(stmt["place"]["ty"])
                    v = self.rvalue(st, fr, stmt["rv"], dt)
                    self.write_place(st, fr, stmt["place"], v)
            elif k == "dead":
                for st in states:
                    self.kill(st, (("L", fr.id, stmt["l"]),))
            elif k == "set_discr":
                for st in states:
                    path, elem = self.resolve(st, fr, stmt["place"])
                    if not elem:
                        st.env[path + ("#d",)] = V_int(Lin.const(stmt["variant"]))
        states = [s for s in states if not s.dead]
        t = blk.term
        k = t["k"]
        succ = {}
        if fr.depth == 0:
            self.cur_block, self.cur_stmt, self.cur_line, self.cur_term = bidx, None, t.get("line"), bidx
        try:
            return self._terminator(fr, bidx, blk, states, t, k, succ)
        finally:
            if fr.depth == 0:
                self.cur_term = None

    def _terminator(self, fr, bidx, blk, states, t, k, succ):
        body = fr.body
        if k == "goto":
            succ[t["target"]] = states
            return succ, None
        if k == "return":
            if self.extent is not None and fr.depth == 0 and self.recording:
                rp = (("L", fr.id, 0),)
                for st in states:
                    for p, v in list(st.env.items()):
                        if len(p) >= 1 and p[0] == rp[0] and v[0] in ("slice", "iter"):
                            self.extent_escape(st, fr, v, "returned")
            return succ, states
        if k == "unreachable":
            return succ, None
        if k == "drop":
            succ[t["target"]] = states
            return succ, None
        if k == "switch":
            tracing = self.probe is not None and fr.depth == 0 and bidx not in self.probe_loop_blocks
            if tracing:
                # trace partitioning for a probed body: states that took different branches outside loops are not joined
                res = self._terminator_switch(fr, bidx, blk, states, t, succ)
                for tg, sts in res[0].items():
                    for s2 in sts:
                        if len(s2.trace) < 8:
                            s2.trace = s2.trace + ((bidx, tg),)
                return res
            return self._terminator_switch(fr, bidx, blk, states, t, succ)
        return self._terminator_rest(fr, bidx, blk, states, t, k, succ)

    def _terminator_switch(self, fr, bidx, blk, states, t, succ):
        body = fr.body
        if True:
            for st in states:
                v = self.operand(st, fr, t["discr"])
                dty = self.ty(t["dty"])
                if dty.get("k") == "bool" or v[0] == "bool":
                    c = self.as_cond(v) if v[0] in ("bool", "int") else None
                    for val, tg in t["targets"]:
                        s2 = st.copy()
                        if c is not None:
                            self.assume(s2, c, bool(val))
                        if not s2.dead:
                            succ.setdefault(tg, []).append(s2)
                    s2 = st.copy()
                    if c is not None and len(t["targets"]) == 1:
                        self.assume(s2, c, not bool(t["targets"][0][0]))
                    if not s2.dead:
                        succ.setdefault(t["otherwise"], []).append(s2)
                    continue
                lin = self.as_lin(st, v)
                cases = [c for c, _ in t["targets"]]
                for val, tg in t["targets"]:
                    s2 = st.copy()
                    if lin is not None:
                        sval = val
                        r = ty_range(dty)
                        if r and r[0] < 0 and val > r[1]:
                            sval = val - 2 ** dty["bits"]
                        s2.add_eq(lin - sval)
                        if not s2.dead and lin.t:
                            s2.check_feasible(lin)
                    if not s2.dead:
                        succ.setdefault(tg, []).append(s2)
                s2 = st.copy()
                if lin is not None:
                    # exclude case values sitting on the bounds (repeat: 0,1,2.. then upper side)
                    for _ in range(len(cases) + 1):
                        lo, hi = s2.lower(lin), s2.upper(lin)
                        if lo is None or hi is None:
                            break
                        moved = False
                        if lo in cases:
                            s2.add(Lin.const(lo + 1) - lin)
                            moved = True
                        if hi in cases and not s2.dead:
                            s2.add(lin - (hi - 1))
                            moved = True
                        if s2.dead or not moved:
                            break
                if not s2.dead:
                    succ.setdefault(t["otherwise"], []).append(s2)
            return succ, None

    def _terminator_rest(self, fr, bidx, blk, states, t, k, succ):
        body = fr.body
        if k == "assert":
            out = []
            for st in states:
                v = self.operand(st, fr, t["cond"])
                c = self.as_cond(v) if v[0] in ("bool", "int") else None
                exp = t["expected"]
                m = t["msg"]
                if c is not None:
                    cond = c if exp else c_not(c)
                    kind = m["k"] + (":" + m["op"] if "op" in m else "")
                    if m["k"] != "other":
                        cls = "always" if m["k"] in ("bounds", "div_zero", "rem_zero") else "overflow-checks"
                        self.oblige(st, fr, self.site_key(fr, bidx, kind), kind, t["line"], cond, cls)
                    self.assume(st, cond, True)
                if not st.dead:
                    out.append(st)
            succ[t["target"]] = out
            return succ, None
        if k == "call":
            out = []
            for st in states:
                res = self.call(fr, bidx, st, t)
                out += [r for r in res if not r.dead]
            if t.get("target") is not None:
                succ[t["target"]] = out
            return succ, None
        # unknown terminator: conservatively continue to all successors with the same states
        for s in blk.succs():
            succ[s] = [x.copy() for x in states]
        return succ, None

    def site_key(self, fr, bidx, kind):
        """Stable key of a site inside the root body: kind + ordinal among the sites of the same kind
        (in block order) + a description of the operands; no line numbers."""
        body = fr.body
        cache = self.site_cache.setdefault(body.path, {})
        k = cache.get((bidx, kind))
        if k is None:
            from . import flow
            prov = self.prov_cache.get(body.path)
            if prov is None:
                prov = flow.Prov(body)
                self.prov_cache[body.path] = prov
            t = body.blocks[bidx].term
            desc = ""
            try:
                if t["k"] == "assert":
                    m = t["msg"]
                    if m["k"] == "bounds":
                        desc = "%s < %s" % (flow.fmt(prov.operand(m["index"])), flow.fmt(prov.operand(m["len"])))
                    elif "a" in m and "b" in m:
                        desc = "%s(%s, %s)" % (m.get("op", ""), flow.fmt(prov.operand(m["a"])), flow.fmt(prov.operand(m["b"])))
                    elif "a" in m:
                        desc = flow.fmt(prov.operand(m["a"]))
                elif t["k"] == "call":
                    desc = flow.fmt(prov.call_term(t))
            except Exception:
                desc = "?"
            desc = desc[:160]
            n = sum(1 for (b2, k2) in cache if k2 == kind and cache[(b2, k2)].startswith(kind + "|" + desc + "#"))
            k = "%s|%s#%d" % (kind, desc, n)
            cache[(bidx, kind)] = k
        return k

    # ------------------------------------------------------------------ calls
    def call(self, fr, bidx, st, t):
        c = t["callee"]
        args = [self.operand(st, fr, a) for a in t["args"]]
        argtys = [self.op_ty(fr, a) for a in t["args"]]
        dest = t["dest"]
        dty = self.ty(dest["ty"])
        path = callee_path(t)
        ctx = CallCtx(self, fr, bidx, st, t, args, argtys, dest, dty, path)
        if self.extent is not None and fr.depth == 0 and self.recording:
            last = (path or "").split("::")[-1]
            reads = not (last in ("len", "is_empty", "as_ptr", "as_mut_ptr", "index", "index_mut", "get", "get_mut", "iter", "take", "map",
                                  "filter", "rev", "copied", "cloned", "enumerate", "zip", "into_iter", "skip", "into", "from", "as_ref", "deref")
                         and not self.facts.resolve_call(t))
            if reads:
                for a in args:
                    self.extent_escape(st, fr, a, "passed to %s" % (path or "?").split("::")[-1])
        if fr.depth == 0 and fr.body.path in LOSSLESS_SHL and self.recording and (path or "").split("::")[-1] in ("checked_shl", "wrapping_shl", "overflowing_shl", "unbounded_shl"):
            # these validate (or mask) the shift amount only: bits shifted out of the value are dropped silently
            self.oblige(st, fr, self.site_key(fr, bidx, "lossless-shl"), "lossless-shl", t["line"], ("const", False), "always",
                        "%s drops the bits shifted out of the accumulated value: a length above the type's range wraps to a small one instead of "
                        "being refused" % (path or "").split("::")[-1])
        if self.probe is not None and fr.depth == 0:
            self.probe_collect(fr, bidx, st, t, path, args)
        # 1. models of external / well-known functions
        m = self.models.lookup(path, c)
        if m is not None:
            res = m(ctx)
            if res is not None:
                if self.probe is not None and self.probe.get("kind") == "oid" and fr.depth == 0 and bidx == self.probe_next_block:
                    self.probe_bind_first(ctx, res)
                return res
        # 2. local callee
        cands = self.facts.resolve_call(t)
        resolved = bool(c.get("resolved"))
        if cands:
            callee = cands[0] if (resolved or len(cands) == 1) else None
            con = self.contracts.for_call(self, c, cands)
            if con is not None:
                con.check_requires(ctx)
            if callee is not None and self.inlinable(callee, fr):
                return self.inline(ctx, callee, con)
            return self.opaque(ctx, con, local=True)
        # 2b. a trait method of the crate called through `dyn Trait` (no candidate resolved): the trait-level contract holds
        # for every implementation (each is checked against it on its own side)
        if c.get("local") and c.get("trait") and c.get("method"):
            con = self.contracts.for_call(self, c, [])
            if con is not None:
                con.check_requires(ctx)
                return self.opaque(ctx, con, local=True)
        # 3. unknown external callee
        if path and not c.get("local"):
            cls = self.models.classify(path)
            if cls is None:
                self.unmodelled[path] = self.unmodelled.get(path, 0) + 1
                last = "::" + path.split("::")[-1]
                if last in self.models.PANICKY_SUFFIX and not (path.startswith("pyo3::") or path.startswith("<pyo3::")):
                    self.oblige(st, fr, self.site_key(fr, bidx, "unmodelled-api"), "unmodelled-api", t["line"], ("const", False), "always",
                                "call of %s, an API that can panic and has no model: cannot be discharged" % path)
        elif "indirect" in c:
            self.unmodelled["<indirect call>"] = self.unmodelled.get("<indirect call>", 0) + 1
        return self.opaque(ctx, None, local=False)

    # ------------------------------------------------------------------ semantic probes (see PROBES)
    def probe_bind_first(self, ctx, res):
        """The element yielded by the first Iterator::next of the probed body gets the named symbol `first`."""
        vi, dv = self.models.variant_index(ctx.dty, "Some")
        pty = self.models.payload_ty(self, ctx.dty, "Some")
        for st2 in res:
            dp = ctx.dest_path(st2)
            if dp is None:
                continue
            d = st2.env.get(dp + ("#d",))
            if d is None or d[0] != "int" or d[1].t or d[1].c != (dv if dv is not None else 1):
                continue
            pp = dp + (("dc", vi if vi is not None else 1), ("f", 0))
            sym = self.named_sym(("probe", "first"), 0, 255)
            v = st2.env.get(pp)
            if v is not None and v[0] == "ptr":
                st2.env[v[1]] = V_int(Lin.sym(sym))
            elif pty.get("k") == "int":
                st2.env[pp] = V_int(Lin.sym(sym))
            elif pty.get("k") == "ref" and self.ty(pty["to"]).get("k") == "int":
                o = self.new_obj()
                st2.env[pp] = ("ptr", (o,))
                st2.env[(o,)] = V_int(Lin.sym(sym))

    def probe_collect(self, fr, bidx, st, t, path, args):
        """Record the values formatted by the first write!() of the probed body and check the probe's relation."""
        if not (path or "").endswith(self.probe["collect"]) or bidx in self.probe_loop_blocks or not args:
            return
        if self.probe.get("kind") == "pad":
            return self.probe_pad(fr, bidx, st, t, args)
        v = args[0]
        val = None
        if v[0] == "ptr":
            val = st.env.get(v[1])
        elif v[0] == "int":
            val = v
        nkey = (("#probe", "n"),)
        n = st.env.get(nkey)
        n = n[1].c if n is not None and n[0] == "int" and not n[1].t else 0
        if n >= 2:
            return
        st.env[nkey] = V_int(Lin.const(n + 1))
        if val is None or val[0] != "int":
            st.env[(("#probe", n),)] = TOP
        else:
            st.env[(("#probe", n),)] = val
        if n + 1 < 2:
            return
        x, y = st.env.get((("#probe", 0),)), st.env.get((("#probe", 1),))
        first = self.named.get(("probe", "first"))
        key = "probe:%s" % self.probe["name"]
        if first is None or x is None or y is None or x[0] != "int" or y[0] != "int":
            self.oblige(st, fr, key + "|values-tracked", "probe", t["line"], ("const", False), "probe",
                        "the two formatted values or the first octet could not be tracked")
            return
        f = Lin.sym(first)
        st2 = st.copy()
        st2.add(f - self.probe["assume_first_le"])
        self.oblige(st2, fr, key + "|40*arc1 + arc2 == first octet", "probe", t["line"], ("eq", x[1].scale(40) + y[1] - f), "probe",
                    "for a first octet below 120 the printed arcs must satisfy 40*x + y == octet")
        self.oblige(st2, fr, key + "|arc2 <= 39", "probe", t["line"], ("le", y[1] - 39), "probe",
                    "for a first octet below 120 the second printed arc is at most 39")

    def probe_pad(self, fr, bidx, st, t, args):
        """padded length handed to the block cipher: plaintext length <= padded <= plaintext length + block - 1."""
        import ast as _ast
        from .contracts import Evaluator, Contract
        pr = self.probe
        key = "probe:%s" % pr["name"]
        padded = self.as_lin(st, args[-1]) if args else None
        ev = Evaluator(self, st, fr, Contract._callee_cursors(self, fr, st), None, None, fr.subst)
        try:
            pos = ev.lin(_ast.parse(pr["len_expr"], mode="eval").body)
        except Exception:
            pos = None
        if padded is None or pos is None:
            self.oblige(st, fr, key + "|values-tracked", "probe", t["line"], ("const", False), "probe", "padded length or buffer position not tracked")
            return
        plain = Lin.const(pr["capacity"] - pr["prefix"]) - pos
        self.oblige(st, fr, key + "|padded >= plaintext", "probe", t["line"], ("le", plain - padded), "probe", "the cipher must cover the whole scoped PDU")
        self.oblige(st, fr, key + "|padding < one block", "probe", t["line"], ("le", padded - plain - (pr["block"] - 1)), "probe",
                    "at most block-1 octets of padding (RFC 3414 8.1.1.2: padded to a multiple of 8 octets)")

    def inlinable(self, callee, fr):
        if fr.depth >= MAX_INLINE_DEPTH:
            return False
        if callee.path in self.stack or callee.path == fr.body.path:
            return False
        pol = self.contracts.inline_policy(callee)
        if pol is not None:
            return pol
        if len(callee.blocks) > MAX_INLINE_BLOCKS:
            return False
        if callee.path not in self.loop_info:
            self.loop_info[callee.path] = bool(cfgm.back_edges(callee))
        return not self.loop_info[callee.path]

    def make_subst(self, callee, c, fr):
        """Generic parameter substitution for an inlined callee from the call's generic arguments."""
        names = callee.j.get("generics") or []
        r = c.get("resolved") or {}
        gargs = r.get("args") or c.get("args") or []
        sub = {}
        for n, a in zip(names, gargs):
            if "const" in a:
                v = a["const"]
                if v is None and a.get("s") in fr.subst:
                    v = fr.subst[a["s"]]
                if v is not None:
                    sub[n] = v
            elif "s" in a:
                sub[n] = fr.subst.get(a["s"], a["s"])
        return sub

    def inline(self, ctx, callee, con):
        fr = ctx.fr
        st = ctx.st
        nf = Frame(self.next_frame(), callee, self.make_subst(callee, ctx.t["callee"], fr), fr.depth + 1, fr)
        for i, (a, ty) in enumerate(zip(ctx.args, ctx.argtys)):
            self.write_path(st, (("L", nf.id, i + 1),), a)
        self.stack.append(callee.path)
        try:
            exits, _ = self.run_body(nf, [st])
        finally:
            self.stack.pop()
        out = []
        for e in exits:
            if e.dead:
                continue
            rt = self.ty(callee.locals[0]["ty"])
            rp = (("L", nf.id, 0),)
            if self.is_agg(rt):
                val = ("agg", rp)
            else:
                val = e.env.get(rp) or self.fresh_for(e, rt, "ret")
            self.write_place(e, fr, ctx.dest, val)
            self.move_frame_out(e, nf.id)
            out.append(e)
        return out

    def havoc_arg(self, st, v, ty):
        """Forget everything a callee may write through a mutable reference argument."""
        if ty.get("k") in ("ref", "rawptr") and ty.get("mut"):
            if v[0] == "ptr":
                self.havoc_tree(st, v[1])

    def havoc_tree(self, st, path):
        n = len(path)
        dead = [p for p in st.env if len(p) > n and p[:n] == path]
        for p in dead:
            del st.env[p]
        if path in st.env:
            del st.env[path]

    def opaque(self, ctx, con, local):
        st = ctx.st
        olds = con.snapshot(ctx) if con is not None else None
        for v, ty in zip(ctx.args, ctx.argtys):
            self.havoc_arg(st, v, ty)
            if v[0] == "agg" and v[1] is not None:
                # aggregates passed by value may contain mutable references
                for p, x in list(st.env.items()):
                    if len(p) > len(v[1]) and p[:len(v[1])] == v[1] and x[0] == "ptr":
                        pass
        path, elem = self.resolve(st, ctx.fr, ctx.dest)
        if not elem:
            self.kill(st, path)
        if con is not None:
            return con.assume_ensures(ctx, olds)
        return [st]


class CallCtx:
    __slots__ = ("eng", "fr", "bidx", "st", "t", "args", "argtys", "dest", "dty", "path")

    def __init__(self, eng, fr, bidx, st, t, args, argtys, dest, dty, path):
        self.eng = eng
        self.fr = fr
        self.bidx = bidx
        self.st = st
        self.t = t
        self.args = args
        self.argtys = argtys
        self.dest = dest
        self.dty = dty
        self.path = path

    # helpers used by models
    def ret(self, val, st=None):
        st = st or self.st
        self.eng.write_place(st, self.fr, self.dest, val)
        return st

    def ret_fresh(self, st=None, name="ret"):
        st = st or self.st
        if self.eng.is_agg(self.dty):
            self.eng.write_place(st, self.fr, self.dest, ("agg", None))
        else:
            self.eng.write_place(st, self.fr, self.dest, self.eng.fresh_for(st, self.dty, name))
        return st

    def dest_path(self, st=None):
        st = st or self.st
        p, elem = self.eng.resolve(st, self.fr, self.dest)
        return None if elem else p

    def oblige(self, cond, kind, cls="always", detail="", st=None):
        st = st or self.st
        self.eng.oblige(st, self.fr, self.eng.site_key(self.fr, self.bidx, kind), kind, self.t["line"], cond, cls, detail)

    def len_of(self, i, st=None):
        st = st or self.st
        return self.eng.slice_len(st, self.fr, self.args[i], self.argtys[i])

    def variant_discr(self, ty, name):
        for v in ty.get("variants", []):
            if v["name"] == name:
                return v["discr"]
        return None


class NumEngine(Interp, Engine):
    def __init__(self, facts, contracts, invariants=None, verbose=False):
        Engine.__init__(self, facts, contracts, invariants, verbose)
        self.tmpl_store = {}
        self.hard_prev = {}
        self._loop_info = {}
        self._unrollable = {}
        self.exact_ranges = False
        self.last_inst = {}
        self.cast_facts = {}
        self.cur_block = None
        self.cur_stmt = None
        self.cur_line = None
        self.cur_term = None
        self.extent = None
        self.pinned = set()
        self.site_cache = {}
        self.prov_cache = {}
        self.last_tmpl = {}

    def analyze(self, body, subst=None, label=None):
        """Standalone analysis of one root body under its contract's `requires`.
        Returns the list of Obligation objects of this root (also kept in self.obligations)."""
        self.root = body
        self.stack = [body.path]
        fr = Frame(self.next_frame(), body, subst or {}, 0)
        st = St(self)
        for i in range(1, body.arg_count + 1):
            t = self.ty(body.locals[i]["ty"])
            if self.is_agg(t):
                continue
            st.env[(("L", fr.id, i),)] = self.fresh_for(st, t, body.local_name(i))
        con = self.contracts.for_body(self, body)
        if con is not None:
            con.assume_requires_in_callee(self, fr, st)
            fr.old = con.snapshot_callee(self, fr, st)
            for l in fr.old.values():
                if l is not None:
                    self.pinned.update(l.syms())
        if body.kind == "Closure" and body.parent and body.arg_count >= 2:
            self.assume_closure_feed(fr, st, body)
        self.probe = PROBES.get(body.path)
        self.probe_loop_blocks = set()
        self.probe_next_block = None
        if self.probe is not None:
            for h_, bl_ in cfgm.natural_loops(body).items():
                self.probe_loop_blocks |= set(bl_)
            order_ = cfgm.rpo(body)
            nx_ = [b_.idx for b_ in body.calls() if (callee_path(b_.term) or "").endswith("as std::iter::Iterator>::next") and b_.idx not in self.probe_loop_blocks]
            if nx_:
                self.probe_next_block = min(nx_, key=lambda x_: order_.index(x_) if x_ in order_ else 10 ** 9)
        self.extent = None
        if body.impl_trait == "ber::BerDecoder" and body.name == "decode" and body.arg_count >= 2:
            # extent rule: reads of the input slice must stay below the declared length h.length
            import ast as _ast
            from .contracts import Evaluator, Contract
            v = st.env.get((("L", fr.id, 1),))
            ev = Evaluator(self, st, fr, Contract._callee_cursors(self, fr, st), None, None, fr.subst)
            hl = ev.lin(_ast.parse("a2.length", mode="eval").body)
            if v is not None and v[0] == "slice" and hl is not None:
                self.extent = (v[1], hl)
        # fixpoint without recording, then one recording pass over the stable block-entry states
        self.recording = False
        exits, inst = self.run_body(fr, [st])
        self.recording = True
        try:
            for b, states in sorted(inst.items()):
                if states:
                    out_ = self.transfer(fr, b, [s.copy() for s in states])
                    self.capacity_check(fr, b, out_[0] if isinstance(out_, tuple) else None)
            if con is not None:
                con.check_ensures_in_callee(self, fr, exits)
            self.check_invariants_at_exit(fr, exits)
        finally:
            self.recording = False
        self.loops = self.termination(fr, inst)
        return [o for (r, k), o in self.obligations.items() if r == body.path]

    def assume_closure_feed(self, fr, st, body):
        """What the caller of a closure guarantees about its parameters, for the consumers whose protocol is fixed by the
        standard library: std::array::from_fn::<T, N, _>(f) calls f(i) with 0 <= i < N."""
        parent = self.facts.bodies.get(body.parent)
        if parent is None:
            return
        for blk in parent.calls():
            t = blk.term
            if (callee_path(t) or "") not in ("std::array::from_fn", "core::array::from_fn") or not t["args"]:
                continue
            pl = t["args"][0].get("move") or t["args"][0].get("copy")
            if pl is None:
                continue
            made_here = any(st_["k"] == "assign" and st_["place"]["l"] == pl["l"] and st_["rv"]["k"] == "agg" and
                            (st_["rv"].get("closure") == body.path or body.path in str(st_["rv"].get("adt") or st_["rv"].get("name") or st_["rv"]))
                            for b2 in parent.live_blocks() for st_ in b2.stmts)
            if not made_here:
                continue
            dty = self.ty(t["dest"]["ty"])
            n = dty.get("len") if dty.get("k") == "array" else None
            if isinstance(n, str) and not n.isdigit():
                n = fr.subst.get(n) if isinstance(fr.subst, dict) else None
            try:
                n = int(n)
            except (TypeError, ValueError):
                return
            v = st.env.get((("L", fr.id, 2),))
            if v is not None and v[0] == "int":
                st.add(-v[1])
                st.add(v[1] - (n - 1))
            return

    # ------------------------------------------------------------------ termination witnesses
    def termination(self, fr, inst):
        """For every natural loop of the root body: a witness that each iteration makes progress, obtained by
        executing the loop body once from the loop-head invariant."""
        body = fr.body
        out = []
        loops = cfgm.natural_loops(body)
        for h, blocks in sorted(loops.items()):
            line = body.blocks[h].term.get("line") if body.blocks[h].term else body.line
            for b in blocks:
                ln = body.blocks[b].term.get("line") if body.blocks[b].term else None
                if ln and (line is None or ln < line) and ln > 1:
                    line = ln
            heads = inst.get(h) or []
            heads = [x for x in heads if not x.dead]
            if not heads:
                out.append({"head": h, "line": line, "witness": "unreachable"})
                continue
            H = heads[0].copy() if len(heads) == 1 else self.join(heads, (fr.id, body.path, h, "term"))
            saved = self.recording
            self.recording = False
            try:
                self.run_body(fr, [H.copy()], entry=h, region=blocks, cut=h)
                backs = list(self.cut_states)
            except Exception as e:
                out.append({"head": h, "line": line, "witness": None, "why": "analysis error %s" % e})
                self.recording = saved
                continue
            self.recording = saved
            if not backs:
                out.append({"head": h, "line": line, "witness": "no path back to the loop head"})
                continue
            w = self.rank_witness(fr, h, blocks, H, backs)
            out.append({"head": h, "line": line, "witness": w})
        return out

    def rank_witness(self, fr, h, blocks, H, backs):
        body = fr.body
        # (1) iterator-driven: a next() call inside the loop whose None edge leaves the loop
        for b in blocks:
            t = body.blocks[b].term
            cpn = (callee_path(t) or "") if t and t["k"] == "call" else ""
            if cpn.endswith("::next") and "Iterator" in cpn:
                tgt = t.get("target")
                if tgt is None:
                    continue
                # follow straight-line blocks to the discriminant switch
                seen = 0
                cur = tgt
                while seen < 4 and body.blocks[cur].term and body.blocks[cur].term["k"] == "goto":
                    cur = body.blocks[cur].term["target"]
                    seen += 1
                tt = body.blocks[cur].term
                if tt and tt["k"] == "switch" and any(s not in blocks for s in body.blocks[cur].succs()):
                    return "iterator: the loop ends when %s returns None" % (callee_path(t).split(" as ")[0].lstrip("<"))
        # (2)/(3) numeric ranking
        for p, v in sorted(H.env.items(), key=lambda x: str(x[0])):
            if v[0] == "slice":
                hl = v[3]
                if all((p in E.env and E.env[p][0] == "slice" and E.entails(E.env[p][3] - hl + 1)) for E in backs):
                    return "ranking: len(%s) strictly decreases" % self.path_name(fr, p)
            if v[0] != "int" or p[-1] in ("#d",):
                continue
            hv = v[1]
            if not hv.t:
                continue
            if not all(p in E.env and E.env[p][0] == "int" for E in backs):
                continue
            if all(E.entails(E.env[p][1] - hv + 1) for E in backs):
                lo = H.lower(hv)
                if lo is not None and lo != -INF:
                    return "ranking: %s strictly decreases and is bounded below by %s" % (self.path_name(fr, p), lo)
            if all(E.entails(hv - E.env[p][1] + 1) for E in backs):
                # increasing: needs an upper bound that holds on the continuing paths
                bounds = []
                for q, w in H.env.items():
                    if w[0] == "slice" and all(q in E.env and E.env[q] == w for E in backs):
                        bounds.append(("len(%s)" % self.path_name(fr, q), w[3]))
                ub = H.upper(hv)
                if ub is not None and ub != INF:
                    tyhi = ub
                for name, U in bounds:
                    if all(E.entails(hv - U + 1) for E in backs):
                        return "ranking: %s strictly increases and stays below %s" % (self.path_name(fr, p), name)
        return None

    def path_name(self, fr, p):
        r = p[0]
        if r[0] == "L":
            nm = fr.body.local_name(r[2]) if r[1] == fr.id else "_%d" % r[2]
        else:
            nm = "obj%d" % r[1]
        return nm + "".join("." + str(x[1]) if isinstance(x, tuple) else str(x) for x in p[1:])

    def check_invariants_at_exit(self, fr, exits):
        """Type invariants (e.g. Buffer.pos <= MAX_SIZE) must hold for every object of that type
        the function could have written: its `&mut` parameters and its return value."""
        body = fr.body
        targets = []
        for i in range(0, body.arg_count + 1):
            t = self.ty(body.locals[i]["ty"])
            if i == 0:
                if t.get("k") == "adt":
                    targets.append((i, t, False))
            elif t.get("k") == "ref" and t.get("mut"):
                to = self.ty(t["to"])
                if to.get("k") == "adt":
                    targets.append((i, to, True))
        for i, t, deref in targets:
            for (adt, fname), (lo, hi) in self.invariants.items():
                if t.get("path") != adt:
                    continue
                fi = None
                for vi, v in enumerate(t.get("variants", [])):
                    for j, f in enumerate(v["fields"]):
                        if f["name"] == fname:
                            fi = j
                if fi is None:
                    continue
                for e in exits:
                    if e.dead:
                        continue
                    root = (("L", fr.id, i),)
                    if deref:
                        pv = e.env.get(root)
                        if not pv or pv[0] != "ptr":
                            continue
                        root = pv[1]
                    v = e.env.get(root + (("f", fi),))
                    if v is None or v[0] != "int":
                        if i == 0:
                            self.oblige(e, fr, "invariant|%s.%s|ret" % (adt, fname), "invariant", body.line, ("const", False), "contract",
                                        "returned %s has an unknown %s" % (adt, fname))
                        continue
                    cond = ("and", [("le", v[1] - hi), ("le", Lin.const(lo) - v[1])])
                    self.oblige(e, fr, "invariant|%s.%s|%s" % (adt, fname, "ret" if i == 0 else "arg%d" % i), "invariant", body.line, cond, "contract")
