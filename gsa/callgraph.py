"""Call graph over local bodies: resolved calls, CHA for unresolved trait calls, closures created in a
body, fn items passed as arguments, and Drop impls of locals that are dropped."""
from .facts import callee_path


def build(facts):
    g = {}
    drop_impls = {}
    for b in facts.body_list:
        if b.impl_trait == "std::ops::Drop" and b.name == "drop":
            drop_impls[b.impl_self] = b
    for body in facts.body_list:
        out = set()
        for c in facts.closures_of(body.path):
            out.add(c.path)
        for blk in body.live_blocks():
            t = blk.term
            if t is None:
                continue
            if t["k"] == "call":
                for cb in facts.resolve_call(t):
                    out.add(cb.path)
                for a in t["args"]:
                    v = (a.get("const") or {}).get("v") or {}
                    if "fn" in v and v["fn"] in facts.bodies:
                        out.add(v["fn"])
            elif t["k"] == "drop":
                ty = facts.types[t["place"]["ty"]]
                d = drop_impls.get(ty.get("s")) or drop_impls.get((ty.get("path") or "~"))
                if d is None and ty.get("k") == "adt":
                    for k, v in drop_impls.items():
                        if k and k.split("<")[0] == ty.get("path"):
                            d = v
                if d is not None:
                    out.add(d.path)
        g[body.path] = out
    return g


def closure(facts, roots, graph=None):
    graph = graph or build(facts)
    seen = set()
    work = [r for r in roots if r in graph]
    while work:
        p = work.pop()
        if p in seen:
            continue
        seen.add(p)
        for q in graph.get(p, ()):
            if q not in seen:
                work.append(q)
    return seen
