"""Call graph over local bodies: resolved calls, CHA for unresolved trait calls, closures created in a
body, fn items passed as arguments, and Drop impls of locals that are dropped."""
from .facts import callee_path


def _norm(s):
    """Type text without lifetimes and whitespace (`SnmpOid<'a>` and `SnmpOid<'_>` name the same impl target)."""
    import re
    return re.sub(r"'\w+\s*,?\s*", "", s or "").replace("<>", "").replace(" ", "")


def build(facts):
    g = {}
    drop_impls = {}
    for b in facts.body_list:
        if b.impl_trait == "std::ops::Drop" and b.name == "drop":
            drop_impls[b.impl_self] = b
    # `x.into()` / `x.try_into()` resolve to the blanket impls of core, which call the local `From` / `TryFrom` impl: the edge
    # to that impl is added here (its body can panic like any other)
    import re as _re
    conv = {}
    for b in facts.body_list:
        m_ = _re.search(r"<impl std::convert::(From|TryFrom)<(.*)> for (.*)>::(from|try_from)$", b.path)
        if m_:
            conv.setdefault((m_.group(1), _norm(m_.group(2)), _norm(m_.group(3))), []).append(b.path)
    for body in facts.body_list:
        out = set()
        for c in facts.closures_of(body.path):
            out.add(c.path)
        for blk in body.live_blocks():
            t = blk.term
            if t is None:
                continue
            if t["k"] == "call":
                for cb in facts.resolve_call(t):
                    out.add(cb.path)
                cp = callee_path(t) or ""
                if cp.endswith("std::convert::Into<U>>::into") or cp.endswith("std::convert::TryInto<U>>::try_into") or \
                        cp in ("std::convert::Into::into", "std::convert::TryInto::try_into"):
                    ca = (t["callee"].get("resolved") or {}).get("args") or t["callee"].get("args") or []
                    names = [_norm(a.get("s", "")) for a in ca if isinstance(a, dict)]
                    if len(names) >= 2:
                        kind = "TryFrom" if "try_into" in cp else "From"
                        for q in conv.get((kind, names[0], names[1]), []):
                            out.add(q)
                for a in t["args"]:
                    v = (a.get("const") or {}).get("v") or {}
                    if "fn" in v and v["fn"] in facts.bodies:
                        out.add(v["fn"])
            elif t["k"] == "drop":
                ty = facts.types[t["place"]["ty"]]
                d = drop_impls.get(ty.get("s")) or drop_impls.get((ty.get("path") or "~"))
                if d is None and ty.get("k") == "adt":
                    for k, v in drop_impls.items():
                        if k and k.split("<")[0] == ty.get("path"):
                            d = v
                if d is not None:
                    out.add(d.path)
        g[body.path] = out
    return g


def closure(facts, roots, graph=None):
    graph = graph or build(facts)
    seen = set()
    work = [r for r in roots if r in graph]
    while work:
        p = work.pop()
        if p in seen:
            continue
        seen.add(p)
        for q in graph.get(p, ()):
            if q not in seen:
                work.append(q)
    return seen
