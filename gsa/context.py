"""Lazy holder of everything a rule may need."""
from . import extract


class Context:
    def __init__(self, tier="quick", repo=None):
        self.tier = tier
        self.repo = repo or extract.REPO
        self._facts = None
        self._py = None
        self.facts_path = None
        self.cache = {}

    @property
    def facts(self):
        if self._facts is None:
            from .facts import Facts
            self.facts_path = extract.extract(self.repo)
            self._facts = Facts(self.facts_path)
        return self._facts

    @property
    def py(self):
        if self._py is None:
            from .pyast import PyFacts
            self._py = PyFacts(self.repo)
        return self._py
