"""MIR-level inlining of helper functions that are not part of the reference tree.

The structural rules are anchored at functions of the reference tree (gsa/baseline_fns.txt).  When a change
extracts part of such a function into a new helper, the rule would lose sight of the extracted code although
the behaviour is unchanged (a false alarm), and a change that hides a violation in a new helper would escape.
Every direct call of a local function that is *not* in the baseline list is therefore replaced by the helper's
body (locals renumbered, arguments assigned, `return` turned into an assignment of the destination and a jump to
the call's target) before any rule looks at the MIR.  Helpers are processed callee-first; recursion is not inlined."""
import copy
import os

BASELINE_FILE = os.path.join(os.path.dirname(os.path.abspath(__file__)), "baseline_fns.txt")
MAX_DEPTH = 4
MAX_BLOCKS = 400


def load_baseline():
    if not os.path.exists(BASELINE_FILE):
        return None
    with open(BASELINE_FILE) as fh:
        return {l.strip() for l in fh if l.strip() and not l.startswith("#")}


def _callee(term):
    c = term.get("callee") or {}
    r = c.get("resolved")
    if r:
        return r["path"] if r.get("local") else None
    if c.get("local") and "path" in c and not c.get("trait"):
        return c["path"]
    return None


def _shift(x, loff, boff, poff):
    """Deep copy of a MIR fragment with locals, block targets and promoted indices shifted."""
    if isinstance(x, list):
        return [_shift(e, loff, boff, poff) for e in x]
    if not isinstance(x, dict):
        return x
    out = {}
    for k, v in x.items():
        if k == "l" and isinstance(v, int):
            out[k] = v + loff
        elif k == "index" and isinstance(v, int):
            out[k] = v + loff
        elif k in ("target", "otherwise", "unwind") and isinstance(v, int):
            out[k] = v + boff
        elif k == "targets" and isinstance(v, list):
            out[k] = [[a, b + boff] for a, b in v]
        elif k == "promoted" and isinstance(v, int):
            out[k] = v + poff
        else:
            out[k] = _shift(v, loff, boff, poff)
    return out


def _inline_one(caller, bi, callee, tag):
    """Replace the call terminating block bi of `caller` (json body) by the body of `callee` (json body)."""
    cm = caller["mir"]
    km = callee["mir"]
    blk = cm["blocks"][bi]
    term = blk["term"]
    loff = len(cm["locals"])
    boff = len(cm["blocks"])
    poff = len(caller.get("promoted") or [])
    cm["locals"] += copy.deepcopy(km["locals"])
    for n in km.get("names", []):
        nn = _shift(n, loff, 0, 0)
        cm.setdefault("names", []).append(nn)
    if callee.get("promoted"):
        caller.setdefault("promoted", [])
        caller["promoted"] += copy.deepcopy(callee["promoted"])
    line = term.get("line")
    # arguments
    for i, a in enumerate(term["args"]):
        l = loff + 1 + i
        blk["stmts"].append({"k": "assign", "place": {"l": l, "p": [], "ty": km["locals"][1 + i]["ty"]}, "rv": {"k": "use", "op": a}, "line": line, "inl": tag})
    dest, target = term["dest"], term.get("target")
    blk["term"] = {"k": "goto", "target": boff, "line": line, "inl": tag, "was_call": term["callee"].get("path")}
    for b in km["blocks"]:
        nb = _shift(b, loff, boff, poff)
        nb["inl"] = tag
        t = nb.get("term")
        if t and t["k"] == "return" and not nb.get("cleanup"):
            nb.setdefault("stmts", []).append({"k": "assign", "place": dest, "rv": {"k": "use", "op": {"move": {"l": loff, "p": [], "ty": km["locals"][0]["ty"]}}},
                                               "line": t.get("line", line), "inl": tag})
            if target is None:
                nb["term"] = {"k": "unreachable", "line": line}
            else:
                nb["term"] = {"k": "goto", "target": target, "line": line, "inl": tag}
        cm["blocks"].append(nb)


def _renumber(j):
    """Put the blocks of a body into reverse post-order (cleanup/unreachable blocks last) so that block index order
    follows execution order again after inlined blocks were appended."""
    blocks = j["mir"]["blocks"]

    def succs(b):
        t = b.get("term")
        if not t or b.get("cleanup"):
            return []
        k = t["k"]
        if k == "goto":
            return [t["target"]]
        if k == "switch":
            return [x[1] for x in t["targets"]] + [t["otherwise"]]
        if k in ("call", "assert", "drop"):
            return [t["target"]] if t.get("target") is not None else []
        return []
    seen = set()
    post = []
    stack = [(0, iter(succs(blocks[0])))]
    seen.add(0)
    while stack:
        n, it = stack[-1]
        adv = False
        for s_ in it:
            if s_ not in seen:
                seen.add(s_)
                stack.append((s_, iter(succs(blocks[s_]))))
                adv = True
                break
        if not adv:
            post.append(n)
            stack.pop()
    order = list(reversed(post)) + [i for i in range(len(blocks)) if i not in seen]
    new_of = {old: new for new, old in enumerate(order)}
    out = []
    for old in order:
        b = blocks[old]
        nb = {}
        for k, v in b.items():
            nb[k] = _retarget(v, new_of) if k == "term" else v
        out.append(nb)
    j["mir"]["blocks"] = out


def _retarget(t, new_of):
    if not isinstance(t, dict):
        return t
    o = dict(t)
    for k in ("target", "otherwise", "unwind"):
        if isinstance(o.get(k), int):
            o[k] = new_of[o[k]]
    if isinstance(o.get("targets"), list):
        o["targets"] = [[a, new_of[b]] for a, b in o["targets"]]
    return o


def apply(d, baseline=None):
    """Inline non-baseline helpers in the facts dict `d` (in place).  Returns {helper path: [callers]}."""
    if baseline is None:
        baseline = load_baseline()
    if baseline is None:
        return {}
    bodies = {}
    for j in d["bodies"]:
        bodies.setdefault(j["path"], j)
    helpers = {p for p, j in bodies.items() if p not in baseline and j.get("kind") in ("Fn", "AssocFn") and j.get("mir")}
    # a renamed/moved closure is not a helper; pyo3-generated wrappers are never called directly
    helpers = {p for p in helpers if "{closure" not in p and "__pymethod" not in p and "__pyfunction" not in p and "_PYO3" not in p}
    if not helpers:
        d["inlined"] = {}
        return {}
    report = {}
    # callee-first order
    order = []
    seen = set()

    def visit(p, stack):
        if p in seen or p in stack:
            return
        for b in bodies[p]["mir"]["blocks"]:
            t = b.get("term")
            if t and t["k"] == "call":
                c = _callee(t)
                if c in helpers and c != p:
                    visit(c, stack | {p})
        seen.add(p)
        order.append(p)
    for p in sorted(helpers):
        visit(p, frozenset())
    uninlined = {p: 0 for p in helpers}
    for j in [bodies[p] for p in order] + [j for j in d["bodies"] if j["path"] not in helpers]:
        if not j.get("mir"):
            continue
        n = 0
        depth = 0
        changed = True
        while changed and depth < MAX_DEPTH:
            changed = False
            depth += 1
            for bi in range(len(j["mir"]["blocks"])):
                b = j["mir"]["blocks"][bi]
                t = b.get("term")
                if not t or t["k"] != "call" or b.get("cleanup"):
                    continue
                c = _callee(t)
                if c in helpers and c != j["path"] and len(j["mir"]["blocks"]) < MAX_BLOCKS:
                    n += 1
                    _inline_one(j, bi, bodies[c], "%s#%d" % (c, n))
                    report.setdefault(c, []).append(j["path"])
                    changed = True
        if n:
            _renumber(j)
        # calls left (recursion / size bound)
        for b in j["mir"]["blocks"]:
            t = b.get("term")
            if t and t["k"] == "call" and not b.get("cleanup"):
                c = _callee(t)
                if c in helpers:
                    uninlined[c] += 1
    # helpers taken by reference (fn items passed as values) stay reachable on their own
    ftypes = {i: t.get("path") for i, t in enumerate(d.get("types", [])) if t.get("k") == "fndef" and t.get("path") in helpers}

    def refs(x):
        if isinstance(x, list):
            for e in x:
                refs(e)
        elif isinstance(x, dict):
            c = x.get("const")
            if isinstance(c, dict) and c.get("ty") in ftypes:
                uninlined[ftypes[c["ty"]]] += 1
            for k, v in x.items():
                if k != "callee":
                    refs(v)
    if ftypes:
        for j in d["bodies"]:
            refs(j.get("mir"))
    d["inlined"] = {p: {"callers": sorted(set(report.get(p, []))), "everywhere": uninlined[p] == 0 and p in report} for p in helpers}
    for p in helpers:
        bodies[p]["helper"] = True
        bodies[p]["inlined_everywhere"] = d["inlined"][p]["everywhere"]
    return report


if __name__ == "__main__":
    import json
    import sys
    if "--write-baseline" in sys.argv:
        from . import extract
        fp = extract.extract(extract.REPO)
        with open(fp) as fh:
            d = json.load(fh)
        paths = sorted({j["path"] for j in d["bodies"]})
        with open(BASELINE_FILE, "w") as fh:
            fh.write("# function paths of the reference tree (pinned commit + fix commits); functions not listed here are helpers\n")
            fh.write("# introduced by a later change and are inlined into their callers before the rules run (gsa/inline.py)\n")
            for p in paths:
                fh.write(p + "\n")
        print("wrote %d paths" % len(paths))
