"""MIR-level inlining of helper functions that are not part of the reference tree.

The structural rules are anchored at functions of the reference tree (gsa/baseline_fns.txt).  When a change
extracts part of such a function into a new helper, the rule would lose sight of the extracted code although
the behaviour is unchanged (a false alarm), and a change that hides a violation in a new helper would escape.
Every direct call of a local function that is *not* in the baseline list is therefore replaced by the helper's
body (locals renumbered, arguments assigned, `return` turned into an assignment of the destination and a jump to
the call's target) before any rule looks at the MIR.  Helpers are processed callee-first; recursion is not inlined."""
import copy
import os

BASELINE_FILE = os.path.join(os.path.dirname(os.path.abspath(__file__)), "baseline_fns.txt")
MAX_DEPTH = 4
MAX_BLOCKS = 400


def load_baseline():
    if not os.path.exists(BASELINE_FILE):
        return None
    with open(BASELINE_FILE) as fh:
        return {l.strip() for l in fh if l.strip() and not l.startswith("#")}


_OVERRIDDEN = set()   # paths of trait default methods some impl overrides (filled by apply)


def _callee(term):
    c = term.get("callee") or {}
    r = c.get("resolved")
    if r:
        return r["path"] if r.get("local") else None
    if c.get("local") and "path" in c:
        if not c.get("trait"):
            return c["path"]
        # `Self::helper(..)` inside a trait's provided method: the default body is the callee unless an impl overrides it
        if c["path"] not in _OVERRIDDEN:
            return c["path"]
    return None


def _shift(x, loff, boff, poff):
    """Deep copy of a MIR fragment with locals, block targets and promoted indices shifted."""
    if isinstance(x, list):
        return [_shift(e, loff, boff, poff) for e in x]
    if not isinstance(x, dict):
        return x
    out = {}
    for k, v in x.items():
        if k == "l" and isinstance(v, int):
            out[k] = v + loff
        elif k == "index" and isinstance(v, int):
            out[k] = v + loff
        elif k in ("target", "otherwise", "unwind") and isinstance(v, int):
            out[k] = v + boff
        elif k == "targets" and isinstance(v, list):
            out[k] = [[a, b + boff] for a, b in v]
        elif k == "promoted" and isinstance(v, int):
            out[k] = v + poff
        else:
            out[k] = _shift(v, loff, boff, poff)
    return out


def _inline_one(caller, bi, callee, tag):
    """Replace the call terminating block bi of `caller` (json body) by the body of `callee` (json body)."""
    cm = caller["mir"]
    km = callee["mir"]
    blk = cm["blocks"][bi]
    term = blk["term"]
    loff = len(cm["locals"])
    boff = len(cm["blocks"])
    poff = len(caller.get("promoted") or [])
    cm["locals"] += copy.deepcopy(km["locals"])
    for n in km.get("names", []):
        nn = _shift(n, loff, 0, 0)
        cm.setdefault("names", []).append(nn)
    if callee.get("promoted"):
        caller.setdefault("promoted", [])
        caller["promoted"] += copy.deepcopy(callee["promoted"])
    line = term.get("line")
    # arguments
    for i, a in enumerate(term["args"]):
        l = loff + 1 + i
        blk["stmts"].append({"k": "assign", "place": {"l": l, "p": [], "ty": km["locals"][1 + i]["ty"]}, "rv": {"k": "use", "op": a}, "line": line, "inl": tag})
    dest, target = term["dest"], term.get("target")
    blk["term"] = {"k": "goto", "target": boff, "line": line, "inl": tag, "was_call": term["callee"].get("path")}
    for b in km["blocks"]:
        nb = _shift(b, loff, boff, poff)
        nb["inl"] = tag
        t = nb.get("term")
        if t and t["k"] == "return" and not nb.get("cleanup"):
            nb.setdefault("stmts", []).append({"k": "assign", "place": dest, "rv": {"k": "use", "op": {"move": {"l": loff, "p": [], "ty": km["locals"][0]["ty"]}}},
                                               "line": t.get("line", line), "inl": tag})
            if target is None:
                nb["term"] = {"k": "unreachable", "line": line}
            else:
                nb["term"] = {"k": "goto", "target": target, "line": line, "inl": tag}
        cm["blocks"].append(nb)


def _closure_of_operand(j, types, op, depth=0):
    """(closure path, is_ref) of an operand holding a closure (or a reference to one), following moves of whole locals."""
    pl = op.get("move") or op.get("copy")
    if pl is None or depth > 6:
        return None
    t = types[pl["ty"]] if isinstance(pl.get("ty"), int) else {}
    if t.get("k") == "closure":
        return t.get("path"), False
    if t.get("k") == "ref" and types[t["to"]].get("k") == "closure":
        return types[t["to"]].get("path"), True
    if pl["p"]:
        return None
    # a generic parameter (`F`) inside an inlined helper: look at what was assigned to the local
    found = None
    for b in j["mir"]["blocks"]:
        for st in b.get("stmts", []):
            if st.get("k") == "assign" and st["place"]["l"] == pl["l"] and not st["place"]["p"]:
                rv = st["rv"]
                r = None
                if rv["k"] == "use":
                    r = _closure_of_operand(j, types, rv["op"], depth + 1)
                elif rv["k"] == "ref":
                    pt = types[rv["place"]["ty"]] if isinstance(rv["place"].get("ty"), int) else {}
                    if pt.get("k") == "closure":
                        r = (pt.get("path"), True)
                elif rv["k"] == "agg" and rv.get("ak") == "closure":
                    r = (rv.get("path"), False)
                if r is None or (found is not None and found != r):
                    return None
                found = r
    return found


def inline_closure_calls(j, bodies, types):
    """`f(args)` where f is a closure of this crate (a local closure called directly, or a closure handed to an inlined
    helper and called there through Fn/FnMut/FnOnce) is replaced by the closure's body."""
    m = j.get("mir")
    if not m:
        return 0
    n = 0
    for bi in range(len(m["blocks"])):
        if len(m["blocks"]) > MAX_BLOCKS:
            break
        b = m["blocks"][bi]
        t = b.get("term")
        if not t or t["k"] != "call" or b.get("cleanup") or t.get("target") is None:
            continue
        c = t.get("callee") or {}
        if c.get("trait") not in ("std::ops::Fn", "std::ops::FnMut", "std::ops::FnOnce") or len(t["args"]) != 2:
            continue
        r = _closure_of_operand(j, types, t["args"][0])
        if r is None or r[0] not in bodies or r[0] == j["path"]:
            continue
        cb = bodies[r[0]]
        km = cb["mir"]
        self_ty = types[km["locals"][1]["ty"]]
        want_ref = self_ty.get("k") == "ref"
        f = t["args"][0]
        pre = []
        if want_ref and not r[1]:
            fpl = f.get("move") or f.get("copy")
            tmp = len(m["locals"])
            m["locals"].append({"ty": km["locals"][1]["ty"], "mut": True})
            pre.append({"k": "assign", "place": {"l": tmp, "p": [], "ty": km["locals"][1]["ty"]},
                        "rv": {"k": "ref", "mut": bool(self_ty.get("mut")), "bk": "Mut" if self_ty.get("mut") else "Shared", "place": fpl}, "line": t.get("line")})
            f = {"move": {"l": tmp, "p": [], "ty": km["locals"][1]["ty"]}}
        elif not want_ref and r[1]:
            continue   # a by-value body called through a reference: not a shape rustc produces for local closures
        tup = t["args"][1]
        tpl = tup.get("move") or tup.get("copy")
        nparams = km["arg_count"] - 1
        args = [f]
        if nparams and tpl is None:
            continue
        for i in range(nparams):
            ty_i = km["locals"][2 + i]["ty"]
            args.append({"move": {"l": tpl["l"], "p": tpl["p"] + [{"field": i, "name": str(i), "ty": ty_i}], "ty": ty_i}})
        b["stmts"] = b.get("stmts", []) + pre
        t2 = dict(t)
        t2["args"] = args
        b["term"] = t2
        n += 1
        _inline_one(j, bi, cb, "%s#c%d" % (r[0], n))
        _CLOSURES_INLINED.add(r[0])
    return n


_CLOSURES_INLINED = set()


def _renumber(j):
    """Put the blocks of a body into reverse post-order (cleanup/unreachable blocks last) so that block index order
    follows execution order again after inlined blocks were appended."""
    blocks = j["mir"]["blocks"]

    def succs(b):
        t = b.get("term")
        if not t or b.get("cleanup"):
            return []
        k = t["k"]
        if k == "goto":
            return [t["target"]]
        if k == "switch":
            return [x[1] for x in t["targets"]] + [t["otherwise"]]
        if k in ("call", "assert", "drop"):
            return [t["target"]] if t.get("target") is not None else []
        return []
    seen = set()
    post = []
    stack = [(0, iter(succs(blocks[0])))]
    seen.add(0)
    while stack:
        n, it = stack[-1]
        adv = False
        for s_ in it:
            if s_ not in seen:
                seen.add(s_)
                stack.append((s_, iter(succs(blocks[s_]))))
                adv = True
                break
        if not adv:
            post.append(n)
            stack.pop()
    order = list(reversed(post)) + [i for i in range(len(blocks)) if i not in seen]
    new_of = {old: new for new, old in enumerate(order)}
    out = []
    for old in order:
        b = blocks[old]
        nb = {}
        for k, v in b.items():
            nb[k] = _retarget(v, new_of) if k == "term" else v
        out.append(nb)
    j["mir"]["blocks"] = out


def _retarget(t, new_of):
    if not isinstance(t, dict):
        return t
    o = dict(t)
    for k in ("target", "otherwise", "unwind"):
        if isinstance(o.get(k), int):
            o[k] = new_of[o[k]]
    if isinstance(o.get("targets"), list):
        o["targets"] = [[a, new_of[b]] for a, b in o["targets"]]
    return o


def _agg(dest, types, vname, ops, line):
    t = types[dest["ty"]]
    vs = t.get("variants") or []
    v = [x for x in vs if x["name"] == vname][0]
    return {"k": "assign", "place": dest, "line": line, "desugared": True,
            "rv": {"k": "agg", "ak": "adt", "path": t["path"], "variant": v["discr"], "vname": vname, "fields": [f["name"] for f in v["fields"]],
                   "args": t.get("args", []), "union_field": None, "ops": ops}}


def desugar_std(d):
    """Closure-free Option/Result/bool adaptors are replaced by the match they stand for, so that the rules see the
    aggregates and the branch:  b.then_some(v)  ->  if b { Some(v) } else { None };  o.ok_or(e)  ->  match o { Some(v) =>
    Ok(v), None => Err(e) };  r.ok()  ->  match r { Ok(v) => Some(v), Err(_) => None }."""
    types = d["types"]
    n = 0
    bodies_by_path = {}
    for j in d["bodies"]:
        bodies_by_path.setdefault(j["path"], j)
    for j in d["bodies"]:
        m = j.get("mir")
        if not m:
            continue
        touched = False
        for bi in range(len(m["blocks"])):
            b = m["blocks"][bi]
            t = b.get("term")
            if not t or t["k"] != "call" or b.get("cleanup") or t.get("target") is None:
                continue
            p = (t["callee"].get("resolved") or {}).get("path") or t["callee"].get("path") or ""
            dest, tgt, line = t["dest"], t["target"], t.get("line")
            dt = types[dest["ty"]] if isinstance(dest.get("ty"), int) else {}
            if not dt.get("variants"):
                continue
            nb = len(m["blocks"])

            def blk(stmts):
                return {"stmts": stmts, "term": {"k": "goto", "target": tgt, "line": line}, "desugared": True}
            if p == "core::bool::<impl bool>::then_some" and len(t["args"]) == 2:
                cond, v = t["args"]
                bty = (cond.get("move") or cond.get("copy") or cond.get("const") or {}).get("ty")
                m["blocks"].append(blk([_agg(dest, types, "Some", [v], line)]))
                m["blocks"].append(blk([_agg(dest, types, "None", [], line)]))
                b["term"] = {"k": "switch", "discr": cond, "dty": bty, "targets": [[0, nb + 1]], "otherwise": nb, "line": line, "exp": False,
                             "was_call": p}
            elif p in ("std::option::Option::<T>::ok_or", "std::result::Result::<T, E>::ok") and len(t["args"]) >= 1:
                src = t["args"][0]
                spl = src.get("move") or src.get("copy")
                if spl is None:
                    continue
                st = types[spl["ty"]]
                if not st.get("variants"):
                    continue
                # discriminant temp
                ity = None
                for i, ty in enumerate(types):
                    if ty.get("k") == "int" and ty.get("s") == "isize":
                        ity = i
                if ity is None:
                    continue
                dl = len(m["locals"])
                m["locals"].append({"ty": ity, "mut": True})
                b["stmts"].append({"k": "assign", "place": {"l": dl, "p": [], "ty": ity}, "rv": {"k": "discr", "place": spl}, "line": line, "desugared": True})
                if p.endswith("ok_or"):
                    sv = [x for x in st["variants"] if x["name"] == "Some"][0]
                    inner = {"move": {"l": spl["l"], "p": spl["p"] + [{"downcast": sv["discr"], "name": "Some"}, {"field": 0, "name": "0", "ty": sv["fields"][0]["ty"]}],
                                      "ty": sv["fields"][0]["ty"]}}
                    m["blocks"].append(blk([_agg(dest, types, "Ok", [inner], line)]))
                    m["blocks"].append(blk([_agg(dest, types, "Err", [t["args"][1]], line)]))
                    b["term"] = {"k": "switch", "discr": {"move": {"l": dl, "p": [], "ty": ity}}, "dty": ity, "targets": [[sv["discr"], nb]], "otherwise": nb + 1,
                                 "line": line, "exp": False, "was_call": p}
                else:
                    ov = [x for x in st["variants"] if x["name"] == "Ok"][0]
                    inner = {"move": {"l": spl["l"], "p": spl["p"] + [{"downcast": ov["discr"], "name": "Ok"}, {"field": 0, "name": "0", "ty": ov["fields"][0]["ty"]}],
                                      "ty": ov["fields"][0]["ty"]}}
                    m["blocks"].append(blk([_agg(dest, types, "Some", [inner], line)]))
                    m["blocks"].append(blk([_agg(dest, types, "None", [], line)]))
                    b["term"] = {"k": "switch", "discr": {"move": {"l": dl, "p": [], "ty": ity}}, "dty": ity, "targets": [[ov["discr"], nb]], "otherwise": nb + 1,
                                 "line": line, "exp": False, "was_call": p}
            elif p in ("std::result::Result::<T, E>::map", "std::result::Result::<T, E>::map_err", "std::option::Option::<T>::map") and len(t["args"]) == 2:
                # r.map(|v| f(v)) with a closure of this crate  ->  match r { Ok(v) => Ok(closure(v)), Err(e) => Err(e) }  (the
                # call of the closure is then inlined like any other closure call); likewise map_err and Option::map
                src, fop = t["args"]
                spl = src.get("move") or src.get("copy")
                if spl is None:
                    continue
                st = types[spl["ty"]] if isinstance(spl.get("ty"), int) else {}
                if not st.get("variants"):
                    continue
                cl = _closure_of_operand(j, types, fop)
                if cl is None or cl[0] not in bodies_by_path or cl[0] == j["path"]:
                    continue
                ckm = bodies_by_path[cl[0]].get("mir")
                if not ckm or ckm.get("arg_count") != 2:
                    continue
                on, other = ("Err", "Ok") if p.endswith("map_err") else ("Some", "None") if "Option" in p else ("Ok", "Err")
                sv = [x for x in st["variants"] if x["name"] == on]
                so = [x for x in st["variants"] if x["name"] == other]
                dv = [x for x in dt["variants"] if x["name"] == on]
                if not sv or not so or not dv or len(sv[0]["fields"]) != 1 or len(dv[0]["fields"]) != 1:
                    continue
                sv, so, dv = sv[0], so[0], dv[0]
                ity = None
                for i, ty in enumerate(types):
                    if ty.get("k") == "int" and ty.get("s") == "isize":
                        ity = i
                if ity is None:
                    continue
                in_ty, out_ty = sv["fields"][0]["ty"], dv["fields"][0]["ty"]
                tup_ty = None
                for i, ty in enumerate(types):
                    if ty.get("k") == "tuple" and ty.get("elems") == [in_ty]:
                        tup_ty = i
                if tup_ty is None:
                    types.append({"s": "(%s,)" % types[in_ty].get("s", "?"), "k": "tuple", "elems": [in_ty]})
                    tup_ty = len(types) - 1
                dl, tl, rl = len(m["locals"]), len(m["locals"]) + 1, len(m["locals"]) + 2
                m["locals"] += [{"ty": ity, "mut": True}, {"ty": tup_ty, "mut": True}, {"ty": out_ty, "mut": True}]
                b["stmts"].append({"k": "assign", "place": {"l": dl, "p": [], "ty": ity}, "rv": {"k": "discr", "place": spl}, "line": line, "desugared": True})
                inner = {"move": {"l": spl["l"], "p": spl["p"] + [{"downcast": sv["discr"], "name": on}, {"field": 0, "name": "0", "ty": in_ty}], "ty": in_ty}}
                call_blk = {"stmts": [{"k": "assign", "place": {"l": tl, "p": [], "ty": tup_ty}, "line": line, "desugared": True,
                                       "rv": {"k": "agg", "ak": "tuple", "ops": [inner]}}],
                            "term": {"k": "call", "callee": {"path": "std::ops::FnOnce::call_once", "krate": "core", "local": False, "args": [], "full": "FnOnce::call_once",
                                                             "trait": "std::ops::FnOnce", "method": "call_once"},
                                     "args": [fop, {"move": {"l": tl, "p": [], "ty": tup_ty}}], "dest": {"l": rl, "p": [], "ty": out_ty}, "target": nb + 1,
                                     "fn_line": t.get("fn_line"), "line": line, "exp": False},
                            "desugared": True}
                m["blocks"].append(call_blk)
                m["blocks"].append(blk([_agg(dest, types, on, [{"move": {"l": rl, "p": [], "ty": out_ty}}], line)]))
                if so["fields"]:
                    oth = {"move": {"l": spl["l"], "p": spl["p"] + [{"downcast": so["discr"], "name": other}, {"field": 0, "name": "0", "ty": so["fields"][0]["ty"]}],
                                    "ty": so["fields"][0]["ty"]}}
                    m["blocks"].append(blk([_agg(dest, types, other, [oth], line)]))
                else:
                    m["blocks"].append(blk([_agg(dest, types, other, [], line)]))
                b["term"] = {"k": "switch", "discr": {"move": {"l": dl, "p": [], "ty": ity}}, "dty": ity, "targets": [[sv["discr"], nb]], "otherwise": nb + 2,
                             "line": line, "exp": False, "was_call": p}
            elif p == "std::option::Option::<T>::filter" and len(t["args"]) == 2:
                # o.filter(|v| p(v)) with a closure of this crate  ->  match o { Some(v) if closure(&v) => Some(v), _ => None }
                src, fop = t["args"]
                spl = src.get("move") or src.get("copy")
                if spl is None:
                    continue
                st = types[spl["ty"]] if isinstance(spl.get("ty"), int) else {}
                cl = _closure_of_operand(j, types, fop)
                if not st.get("variants") or cl is None or cl[0] not in bodies_by_path or cl[0] == j["path"]:
                    continue
                ckm = bodies_by_path[cl[0]].get("mir")
                if not ckm or ckm.get("arg_count") != 2:
                    continue
                sv = [x for x in st["variants"] if x["name"] == "Some"]
                if not sv or len(sv[0]["fields"]) != 1:
                    continue
                sv = sv[0]
                ity = bty = None
                for i, ty in enumerate(types):
                    if ty.get("k") == "int" and ty.get("s") == "isize":
                        ity = i
                    if ty.get("k") == "bool":
                        bty = i
                if ity is None or bty is None:
                    continue
                in_ty = sv["fields"][0]["ty"]
                ref_ty = ckm["locals"][2]["ty"]
                if types[ref_ty].get("k") != "ref" or types[ref_ty].get("to") != in_ty:
                    continue
                tup_ty = None
                for i, ty in enumerate(types):
                    if ty.get("k") == "tuple" and ty.get("elems") == [ref_ty]:
                        tup_ty = i
                if tup_ty is None:
                    types.append({"s": "(%s,)" % types[ref_ty].get("s", "?"), "k": "tuple", "elems": [ref_ty]})
                    tup_ty = len(types) - 1
                dl, rfl, tl, rl = (len(m["locals"]) + k_ for k_ in range(4))
                m["locals"] += [{"ty": ity, "mut": True}, {"ty": ref_ty, "mut": True}, {"ty": tup_ty, "mut": True}, {"ty": bty, "mut": True}]
                b["stmts"].append({"k": "assign", "place": {"l": dl, "p": [], "ty": ity}, "rv": {"k": "discr", "place": spl}, "line": line, "desugared": True})
                inner_pl = {"l": spl["l"], "p": spl["p"] + [{"downcast": sv["discr"], "name": "Some"}, {"field": 0, "name": "0", "ty": in_ty}], "ty": in_ty}
                call_blk = {"stmts": [{"k": "assign", "place": {"l": rfl, "p": [], "ty": ref_ty}, "line": line, "desugared": True,
                                       "rv": {"k": "ref", "mut": False, "bk": "Shared", "place": inner_pl}},
                                      {"k": "assign", "place": {"l": tl, "p": [], "ty": tup_ty}, "line": line, "desugared": True,
                                       "rv": {"k": "agg", "ak": "tuple", "ops": [{"move": {"l": rfl, "p": [], "ty": ref_ty}}]}}],
                            "term": {"k": "call", "callee": {"path": "std::ops::FnOnce::call_once", "krate": "core", "local": False, "args": [], "full": "FnOnce::call_once",
                                                             "trait": "std::ops::FnOnce", "method": "call_once"},
                                     "args": [fop, {"move": {"l": tl, "p": [], "ty": tup_ty}}], "dest": {"l": rl, "p": [], "ty": bty}, "target": nb + 1,
                                     "fn_line": t.get("fn_line"), "line": line, "exp": False},
                            "desugared": True}
                m["blocks"].append(call_blk)                                                    # nb: call the predicate
                m["blocks"].append({"stmts": [], "desugared": True,                             # nb+1: branch on it
                                    "term": {"k": "switch", "discr": {"move": {"l": rl, "p": [], "ty": bty}}, "dty": bty, "targets": [[0, nb + 3]], "otherwise": nb + 2,
                                             "line": line, "exp": False}})
                m["blocks"].append(blk([_agg(dest, types, "Some", [{"move": inner_pl}], line)]))  # nb+2
                m["blocks"].append(blk([_agg(dest, types, "None", [], line)]))                    # nb+3
                b["term"] = {"k": "switch", "discr": {"move": {"l": dl, "p": [], "ty": ity}}, "dty": ity, "targets": [[sv["discr"], nb]], "otherwise": nb + 3,
                             "line": line, "exp": False, "was_call": p}
            else:
                continue
            touched = True
            n += 1
        if touched:
            _renumber(j)
    return n


def _const_of(op):
    c = op.get("const") if isinstance(op, dict) else None
    if not c:
        return None
    v = c.get("v") or {}
    if "bool" in v:
        return 1 if v["bool"] else 0
    if "int" in v:
        return int(v["int"])
    return None


def thread_jumps(j, max_chain=3, max_stmts=12):
    """Jump threading: a block that stores a constant into a flag and then, through at most `max_chain` straight-line
    blocks, reaches a switch on that flag (possibly after the flag was moved to another local) continues at the switch's
    target for that constant; the straight-line blocks on the way are duplicated.  `let ok = a && b; if ok {..}`,
    `matches!(..)` and a bool-returning helper after inlining thereby get the same CFG as nested ifs."""
    m = j.get("mir")
    if not m:
        return 0
    blocks = m["blocks"]
    n = 0
    for _round in range(6):
        changed = False
        for pi in range(len(blocks)):
            P = blocks[pi]
            t = P.get("term")
            if not t or t["k"] != "goto" or P.get("cleanup"):
                continue
            # constants known at the end of P (last definition of a whole local by a constant)
            known = {}
            for st in P.get("stmts", []):
                if st.get("k") != "assign":
                    continue
                pl = st["place"]
                if pl["p"]:
                    known.pop(pl["l"], None) if False else None
                    continue
                rv = st["rv"]
                c = _const_of(rv.get("op")) if rv["k"] == "use" else None
                if c is not None:
                    known[pl["l"]] = c
                elif rv["k"] == "use" and (rv["op"].get("move") or rv["op"].get("copy")) and not (rv["op"].get("move") or rv["op"].get("copy"))["p"] \
                        and (rv["op"].get("move") or rv["op"].get("copy"))["l"] in known:
                    known[pl["l"]] = known[(rv["op"].get("move") or rv["op"].get("copy"))["l"]]
                else:
                    known.pop(pl["l"], None)
            if not known:
                continue
            chain = []
            cur = t["target"]
            kn = dict(known)
            hit = None
            nst = 0
            while len(chain) <= max_chain:
                B = blocks[cur]
                if B.get("cleanup") or cur == pi or cur in chain:
                    break
                okb = True
                for st in B.get("stmts", []):
                    if st.get("k") != "assign":
                        continue
                    nst += 1
                    pl = st["place"]
                    rv = st["rv"]
                    src = (rv.get("op") or {}).get("move") or (rv.get("op") or {}).get("copy") if rv["k"] == "use" else None
                    if not pl["p"] and rv["k"] == "use" and src and not src["p"] and src["l"] in kn:
                        kn[pl["l"]] = kn[src["l"]]
                    elif not pl["p"] and rv["k"] == "use" and _const_of(rv.get("op")) is not None:
                        kn[pl["l"]] = _const_of(rv["op"])
                    elif not pl["p"]:
                        kn.pop(pl["l"], None)
                    # a mutable borrow of a known local would make the constant unreliable
                    if rv["k"] == "ref" and rv["place"]["l"] in kn:
                        okb = False
                if not okb or nst > max_stmts:
                    break
                bt = B.get("term")
                chain.append(cur)
                if bt and bt["k"] == "switch":
                    op = bt["discr"].get("move") or bt["discr"].get("copy")
                    if op and not op["p"] and op["l"] in kn:
                        v = kn[op["l"]]
                        tg = None
                        for cv, ctg in bt["targets"]:
                            if cv == v:
                                tg = ctg
                        hit = tg if tg is not None else bt["otherwise"]
                    break
                if bt and bt["k"] == "goto":
                    cur = bt["target"]
                    continue
                break
            if hit is None:
                continue
            # duplicate the chain's statements into P, continue at the decided target
            for ci in chain:
                P.setdefault("stmts", [])
                P["stmts"] += copy.deepcopy(blocks[ci].get("stmts", []))
            P["term"] = {"k": "goto", "target": hit, "line": t.get("line"), "threaded": True}
            changed = True
            n += 1
        if not changed:
            break
    if n:
        _drop_dead_flag_stores(m)
    return n


def _uses_local(x, l):
    """Does the JSON fragment read local l (operand, place base of a read, index)?"""
    if isinstance(x, list):
        return any(_uses_local(e, l) for e in x)
    if not isinstance(x, dict):
        return False
    for k, v in x.items():
        if k in ("move", "copy") and isinstance(v, dict) and v.get("l") == l:
            return True
        if k == "index" and v == l:
            return True
        if k == "place" and isinstance(v, dict) and v.get("l") == l and x.get("k") in ("ref", "discr", "rawptr", "len"):
            return True
        if _uses_local(v, l):
            return True
    return False


def _drop_dead_flag_stores(m):
    """After threading, `flag = const` in a threaded block is dead when no block reachable from it reads the flag."""
    blocks = m["blocks"]

    def succs(b):
        t = b.get("term")
        if not t or b.get("cleanup"):
            return []
        k = t["k"]
        if k == "goto":
            return [t["target"]]
        if k == "switch":
            return [x[1] for x in t["targets"]] + [t["otherwise"]]
        if k in ("call", "assert", "drop"):
            return [t["target"]] if t.get("target") is not None else []
        return []
    for pi, P in enumerate(blocks):
        if not (P.get("term") or {}).get("threaded"):
            continue
        reach = set()
        work = succs(P)
        while work:
            b = work.pop()
            if b in reach:
                continue
            reach.add(b)
            work += succs(blocks[b])
        keep = []
        stmts = P.get("stmts", [])
        for si, st in enumerate(stmts):
            if st.get("k") == "assign" and not st["place"]["p"] and st["rv"]["k"] == "use" and _const_of(st["rv"].get("op")) is not None:
                l = st["place"]["l"]
                if l == 0:
                    keep.append(st)
                    continue
                later = any(_uses_local(x, l) for x in stmts[si + 1:]) or _uses_local(P.get("term"), l)
                elsewhere = any(_uses_local(blocks[b].get("stmts"), l) or _uses_local(blocks[b].get("term"), l) for b in reach)
                if not later and not elsewhere:
                    continue
            keep.append(st)
        P["stmts"] = keep


def apply(d, baseline=None):
    """Inline non-baseline helpers in the facts dict `d` (in place).  Returns {helper path: [callers]}."""
    if baseline is None:
        baseline = load_baseline()
    if baseline is None:
        return {}
    desugar_std(d)
    for j in d["bodies"]:
        if thread_jumps(j):
            _renumber(j)
    bodies = {}
    for j in d["bodies"]:
        bodies.setdefault(j["path"], j)
    _OVERRIDDEN.clear()
    _CLOSURES_INLINED.clear()
    for im in d.get("impls", []):
        tr = im.get("trait")
        if not tr:
            continue
        for it in im.get("items", []):
            if it.get("kind") == "AssocFn":
                _OVERRIDDEN.add("%s::%s" % (tr, it["name"]))
    helpers = {p for p, j in bodies.items() if p not in baseline and j.get("kind") in ("Fn", "AssocFn") and j.get("mir")}
    # a renamed/moved closure is not a helper; pyo3-generated wrappers are never called directly
    helpers = {p for p in helpers if "{closure" not in p and "__pymethod" not in p and "__pyfunction" not in p and "_PYO3" not in p}
    report = {}
    # callee-first order
    order = []
    seen = set()

    def visit(p, stack):
        if p in seen or p in stack:
            return
        for b in bodies[p]["mir"]["blocks"]:
            t = b.get("term")
            if t and t["k"] == "call":
                c = _callee(t)
                if c in helpers and c != p:
                    visit(c, stack | {p})
        seen.add(p)
        order.append(p)
    for p in sorted(helpers):
        visit(p, frozenset())
    uninlined = {p: 0 for p in helpers}
    for j in [bodies[p] for p in order] + [j for j in d["bodies"] if j["path"] not in helpers]:
        if not j.get("mir"):
            continue
        n = 0
        depth = 0
        changed = True
        while changed and depth < MAX_DEPTH:
            changed = False
            depth += 1
            for bi in range(len(j["mir"]["blocks"])):
                b = j["mir"]["blocks"][bi]
                t = b.get("term")
                if not t or t["k"] != "call" or b.get("cleanup"):
                    continue
                c = _callee(t)
                if c in helpers and c != j["path"] and len(j["mir"]["blocks"]) < MAX_BLOCKS:
                    n += 1
                    _inline_one(j, bi, bodies[c], "%s#%d" % (c, n))
                    report.setdefault(c, []).append(j["path"])
                    changed = True
        nc = inline_closure_calls(j, bodies, d["types"])
        if n or nc:
            thread_jumps(j)
            _renumber(j)
        # calls left (recursion / size bound)
        for b in j["mir"]["blocks"]:
            t = b.get("term")
            if t and t["k"] == "call" and not b.get("cleanup"):
                c = _callee(t)
                if c in helpers:
                    uninlined[c] += 1
    # helpers taken by reference (fn items passed as values) stay reachable on their own
    ftypes = {i: t.get("path") for i, t in enumerate(d.get("types", [])) if t.get("k") == "fndef" and t.get("path") in helpers}

    def refs(x):
        if isinstance(x, list):
            for e in x:
                refs(e)
        elif isinstance(x, dict):
            c = x.get("const")
            if isinstance(c, dict) and c.get("ty") in ftypes:
                uninlined[ftypes[c["ty"]]] += 1
            for k, v in x.items():
                if k != "callee":
                    refs(v)
    if ftypes:
        for j in d["bodies"]:
            refs(j.get("mir"))
    # closures whose calls were inlined and that are handed to no remaining call are analysed in their callers only
    ctypes = {}
    for i, t in enumerate(d.get("types", [])):
        if t.get("k") == "closure" and t.get("path") in _CLOSURES_INLINED:
            ctypes[i] = t["path"]
    for i, t in enumerate(d.get("types", [])):
        if t.get("k") == "ref" and t.get("to") in ctypes:
            ctypes[i] = ctypes[t["to"]]
    escaping = set()
    for j in d["bodies"]:
        if not j.get("mir") or (j["path"] in helpers and uninlined.get(j["path"]) == 0 and j["path"] in report):
            continue
        for b in j["mir"]["blocks"]:
            t = b.get("term")
            if t and t["k"] == "call" and not b.get("cleanup"):
                for a in t["args"]:
                    pl = a.get("move") or a.get("copy")
                    if pl and pl.get("ty") in ctypes:
                        escaping.add(ctypes[pl["ty"]])
                for ga in (t["callee"].get("args") or []):
                    if ga.get("ty") in ctypes:
                        escaping.add(ctypes[ga["ty"]])
    for cp in _CLOSURES_INLINED - escaping:
        if cp in bodies:
            bodies[cp]["helper"] = True
            bodies[cp]["inlined_everywhere"] = True
    d["inlined"] = {p: {"callers": sorted(set(report.get(p, []))), "everywhere": uninlined[p] == 0 and p in report} for p in helpers}
    for p in helpers:
        bodies[p]["helper"] = True
        bodies[p]["inlined_everywhere"] = d["inlined"][p]["everywhere"]
    return report


if __name__ == "__main__":
    import json
    import sys
    if "--write-baseline" in sys.argv:
        from . import extract
        fp = extract.extract(extract.REPO)
        with open(fp) as fh:
            d = json.load(fh)
        paths = sorted({j["path"] for j in d["bodies"]})
        with open(BASELINE_FILE, "w") as fh:
            fh.write("# function paths of the reference tree (pinned commit + fix commits); functions not listed here are helpers\n")
            fh.write("# introduced by a later change and are inlined into their callers before the rules run (gsa/inline.py)\n")
            for p in paths:
                fh.write(p + "\n")
        print("wrote %d paths" % len(paths))
