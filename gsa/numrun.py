"""Run the `num` engine over every body of the crate (in parallel), cache the verdicts per tree state."""
import hashlib
import json
import multiprocessing as mp
import os
import sys
import time
import traceback

from .contracts import Contracts, INVARIANTS
from .num import NumEngine

HERE = os.path.dirname(os.path.abspath(__file__))
_FACTS = None


def instantiations(facts, body):
    """Generic bodies are analysed once per instantiation found in the crate's type aliases."""
    if (body.impl_self or "").startswith("auth::digest::DigestAuth<D, KS, SS>") or body.path.startswith("<auth::digest::DigestAuth<D, KS, SS>"):
        out = []
        for a in facts.aliases.values():
            t = facts.types[a["ty"]]
            if t.get("k") == "adt" and t.get("path") == "auth::digest::DigestAuth":
                sub = {}
                for name, g in zip(("D", "KS", "SS"), t.get("args", [])):
                    sub[name] = g["const"] if "const" in g else g.get("s")
                out.append((a["path"], sub))
        return out or [(None, {})]
    return [(None, {})]


def is_glue(body):
    """Macro-generated interpreter glue (pyo3 trampolines, create_exception! internals): analysed, but its
    sites (allocation / interpreter failures) are listed separately and are outside the properties."""
    if not body.file.startswith("src/"):
        return True
    p = body.path
    if body.from_expansion and ("pyo3::" in p) and any(x in p for x in ("IntoPy<", "PyClassImpl", "PyTypeInfo", "PyMethods", "type_object_raw", "PyClass", "IntoPyObject<'py>>::into_pyobject") if x != "IntoPyObject<'py>>::into_pyobject"):
        return True
    return False


def analyse_one(path):
    facts = _FACTS
    body = facts.bodies[path]
    out = {"path": path, "obs": [], "error": None, "unmodelled": {}, "notes": [], "lp": 0, "loops": []}
    merged = {}
    for label, sub in instantiations(facts, body):
        eng = NumEngine(facts, Contracts(), INVARIANTS)
        try:
            obs = eng.analyze(body, sub, label)
        except RecursionError:
            out["error"] = "recursion limit"
            continue
        except Exception as e:
            out["error"] = "%s: %s @ %s" % (type(e).__name__, e, traceback.format_exc().strip().splitlines()[-3:])
            continue
        out["lp"] += eng.lp_calls
        for (rp, blk, si), rec in eng.cast_facts.items():
            out.setdefault("casts", []).append({"block": blk, "stmt": si, "lo": rec["lo"] if rec["lo"] not in (float("inf"), float("-inf")) else None,
                                                "hi": rec["hi"] if rec["hi"] not in (float("inf"), float("-inf")) else None,
                                                "to": rec["to"], "from": rec["from"], "line": rec["line"], "inst": label})
        if not out["loops"]:
            out["loops"] = eng.loops
        else:
            for a, b in zip(out["loops"], eng.loops):
                if b.get("witness") is None:
                    a["witness"] = None
        for p, n in eng.unmodelled.items():
            out["unmodelled"][p] = out["unmodelled"].get(p, 0) + n
        out["notes"] += [n for n in eng.notes if n not in out["notes"]]
        for o in obs:
            d = merged.get(o.key)
            if d is None:
                merged[o.key] = {"key": o.key, "kind": o.kind, "line": o.line, "ok": o.ok, "detail": o.detail, "cls": o.cls, "n": o.n,
                                 "inst": [label] if label else []}
            else:
                if label:
                    d["inst"].append(label)
                d["n"] += o.n
                if not o.ok and d["ok"]:
                    d["ok"] = False
                    d["detail"] = "[%s] %s" % (label, o.detail)
    out["obs"] = list(merged.values())
    return out


class NumResults:
    def __init__(self, data):
        self.data = data
        self.by_body = {d["path"]: d for d in data["bodies"]}
        self.time = data["time"]
        self.cached = data.get("cached", False)

    def obligations(self, paths=None):
        for d in self.data["bodies"]:
            if paths is not None and d["path"] not in paths:
                continue
            for o in d["obs"]:
                yield d["path"], o

    def errors(self):
        return {d["path"]: d["error"] for d in self.data["bodies"] if d["error"]}

    def unmodelled(self):
        out = {}
        for d in self.data["bodies"]:
            for p, n in d["unmodelled"].items():
                out[p] = out.get(p, 0) + n
        return out

    def notes(self):
        out = []
        for d in self.data["bodies"]:
            for n in d["notes"]:
                if n not in out:
                    out.append(n)
        return out


def engine_hash():
    h = hashlib.sha256()
    for f in ("num.py", "models.py", "contracts.py", "lin.py", "numrun.py", "facts.py", "flow.py", "cfg.py", "inline.py", "loops.py", "baseline_fns.txt"):
        with open(os.path.join(HERE, f), "rb") as fh:
            h.update(fh.read())
    return h.hexdigest()[:12]


def run(ctx, jobs=None):
    if "num" in ctx.cache:
        return ctx.cache["num"]
    global _FACTS
    facts = ctx.facts
    from . import extract
    cdir = os.path.join(extract.CACHE, "num")
    os.makedirs(cdir, exist_ok=True)
    key = os.path.basename(ctx.facts_path).replace(".json", "") + "-" + engine_hash()
    cpath = os.path.join(cdir, key + ".json")
    if os.path.exists(cpath) and not os.environ.get("GSA_NUM_NOCACHE"):
        with open(cpath) as fh:
            data = json.load(fh)
        data["cached"] = True
        r = NumResults(data)
        ctx.cache["num"] = r
        return r
    t0 = time.time()
    _FACTS = facts
    # a helper whose every use was inlined is analysed in the context of its callers only
    paths = [b.path for b in facts.body_list if not b.dead and facts.bodies[b.path] is b and not b.inlined_everywhere]
    jobs = jobs or int(os.environ.get("GSA_JOBS", "12"))
    sys.setrecursionlimit(10000)
    if jobs > 1:
        ctxm = mp.get_context("fork")
        with ctxm.Pool(jobs) as pool:
            res = pool.map(analyse_one, paths, chunksize=4)
    else:
        res = [analyse_one(p) for p in paths]
    data = {"bodies": res, "time": round(time.time() - t0, 2)}
    tmp = cpath + ".tmp.%d" % os.getpid()
    with open(tmp, "w") as fh:
        json.dump(data, fh)
    os.replace(tmp, cpath)
    # keep the cache small
    def mt(f):
        try:
            return os.path.getmtime(f)
        except OSError:
            return 0
    files = sorted((os.path.join(cdir, f) for f in os.listdir(cdir)), key=mt)
    for old in files[:-12]:
        if time.time() - mt(old) < 3600:
            continue
        try:
            os.unlink(old)
        except OSError:
            pass
    r = NumResults(data)
    ctx.cache["num"] = r
    return r


if __name__ == "__main__":
    from .context import Context
    ctx = Context()
    sel = [a for a in sys.argv[1:] if not a.startswith("-")]
    if sel:
        _FACTS = ctx.facts
        sys.setrecursionlimit(10000)
        t0 = time.time()
        res = [analyse_one(b.path) for b in ctx.facts.body_list if any(s in b.path for s in sel)]
        data = {"bodies": res, "time": time.time() - t0}
        r = NumResults(data)
    else:
        os.environ["GSA_NUM_NOCACHE"] = "1"
        r = run(ctx)
    obs = list(r.obligations())
    bad = [(p, o) for p, o in obs if not o["ok"] and o["kind"] != "cover"]
    print("bodies %d obligations %d failed %d errors %d time %.1fs" % (len(r.data["bodies"]), len(obs), len(bad), len(r.errors()), r.time))
    for p, e in r.errors().items():
        print("ERROR", p, e)
    for p, o in sorted(bad, key=lambda x: (x[0], x[1]["line"])):
        b = ctx.facts.bodies[p]
        print("FAIL %s:%s %s [%s] %s" % (b.file, o["line"], p[-60:], o["key"][:90], o["detail"][:200]))
    if sel:
        for p, o in obs:
            if o["ok"]:
                print("ok   %s [%s] x%d" % (o["line"], o["key"][:110], o["n"]))
    for p, n in sorted(r.unmodelled().items()):
        print("UNMODELLED", n, p)
