"""Python AST facts for src/gufo/snmp: per-function statement contexts (enclosing
conditions with polarity, enclosing try handlers, statement order)."""
import ast
import os

from .extract import REPO

PKG = "src/gufo/snmp"
MODULES = {
    "sync_client": "sync_client/client.py",
    "sync_getnext": "sync_client/getnext.py",
    "sync_getbulk": "sync_client/getbulk.py",
    "async_client": "async_client/client.py",
    "policer": "policer.py",
    "user": "user.py",
    "version": "version.py",
}


def norm(node):
    """Canonical text of an expression: `not` is stripped by the caller, == / is are symmetric."""
    if isinstance(node, ast.Compare) and len(node.ops) == 1 and isinstance(node.ops[0], (ast.Eq, ast.Is)):
        a, b = ast.unparse(node.left), ast.unparse(node.comparators[0])
        return "eq(%s,%s)" % tuple(sorted((a, b)))
    if isinstance(node, ast.Compare) and len(node.ops) == 1 and isinstance(node.ops[0], (ast.NotEq, ast.IsNot)):
        a, b = ast.unparse(node.left), ast.unparse(node.comparators[0])
        return "ne(%s,%s)" % tuple(sorted((a, b)))
    return ast.unparse(node)


def cond_atoms(test, pol):
    """Decompose a test into atoms [(text, polarity)] that are all known to hold.
    `a and b` true -> both; `a or b` false -> both negated; `not x` flips."""
    if isinstance(test, ast.UnaryOp) and isinstance(test.op, ast.Not):
        return cond_atoms(test.operand, not pol)
    if isinstance(test, ast.BoolOp):
        if isinstance(test.op, ast.And) and pol:
            out = []
            for v in test.values:
                out += cond_atoms(v, True)
            return out
        if isinstance(test.op, ast.Or) and not pol:
            out = []
            for v in test.values:
                out += cond_atoms(v, False)
            return out
        return [(norm(test), pol)]
    t = norm(test)
    if t.startswith("ne("):
        return [("eq(" + t[3:], not pol)]
    return [(t, pol)]


def terminates(stmts):
    """True when the statement list always leaves the enclosing function/loop iteration."""
    for s in stmts:
        if isinstance(s, (ast.Return, ast.Raise, ast.Continue, ast.Break)):
            return True
        if isinstance(s, ast.If):
            if s.orelse and terminates(s.body) and terminates(s.orelse):
                return True
        if isinstance(s, ast.Try):
            if s.finalbody and terminates(s.finalbody):
                return True
            if terminates(s.body) and all(terminates(h.body) for h in s.handlers) and s.handlers:
                return True
    return False


class Ctx:
    """Context of one statement/expression inside a function."""
    __slots__ = ("conds", "tries", "excepts", "order", "loops", "func")

    def __init__(self, conds=(), tries=(), excepts=(), order=0, loops=(), func=None):
        self.conds = tuple(conds)      # ((text, polarity), ...)
        self.tries = tuple(tries)      # (ast.Try, ...) enclosing try *bodies*
        self.excepts = tuple(excepts)  # (handler type text, ...) when inside an except body
        self.order = order
        self.loops = tuple(loops)
        self.func = func

    def has(self, text, pol=True):
        return (text, pol) in self.conds


class FuncFacts:
    """All statements and calls of a function with their context (nested defs are separate)."""

    def __init__(self, node, qualname, module):
        self.node = node
        self.qualname = qualname
        self.module = module
        self.stmts = []   # (stmt, Ctx)
        self.calls = []   # (ast.Call, Ctx, enclosing stmt)
        self.nested = {}  # name -> FuncFacts
        self._n = 0
        self._walk(node.body, Ctx(func=self))

    def _ctx(self, base, **kw):
        d = dict(conds=base.conds, tries=base.tries, excepts=base.excepts, order=self._n, loops=base.loops, func=self)
        d.update(kw)
        return Ctx(**d)

    def _record(self, stmt, ctx, exprs):
        self._n += 1
        c = self._ctx(ctx)
        self.stmts.append((stmt, c))
        for e in exprs:
            if e is None:
                continue
            for n in ast.walk(e):
                if isinstance(n, ast.Call):
                    self.calls.append((n, c, stmt))

    def _walk(self, stmts, ctx):
        """Walk a statement list; returns the context that holds after it (or None if it terminates)."""
        cur = ctx
        for s in stmts:
            if isinstance(s, (ast.FunctionDef, ast.AsyncFunctionDef)):
                self.nested[s.name] = FuncFacts(s, self.qualname + "." + s.name, self.module)
                continue
            if isinstance(s, ast.If):
                self._record(s, cur, [s.test])
                t_ctx = self._ctx(cur, conds=cur.conds + tuple(cond_atoms(s.test, True)))
                f_ctx = self._ctx(cur, conds=cur.conds + tuple(cond_atoms(s.test, False)))
                self._walk(s.body, t_ctx)
                self._walk(s.orelse, f_ctx)
                bt, ot = terminates(s.body), (terminates(s.orelse) if s.orelse else False)
                if bt and not ot:
                    cur = f_ctx
                elif ot and not bt:
                    cur = t_ctx
                continue
            if isinstance(s, ast.Try):
                self._record(s, cur, [])
                b_ctx = self._ctx(cur, tries=cur.tries + (s,))
                self._walk(s.body, b_ctx)
                for h in s.handlers:
                    ht = ast.unparse(h.type) if h.type is not None else "BaseException"
                    self._walk(h.body, self._ctx(cur, excepts=cur.excepts + (ht,)))
                self._walk(s.orelse, cur)
                self._walk(s.finalbody, cur)
                continue
            if isinstance(s, (ast.While,)):
                self._record(s, cur, [s.test])
                self._walk(s.body, self._ctx(cur, conds=cur.conds + tuple(cond_atoms(s.test, True)), loops=cur.loops + (s,)))
                self._walk(s.orelse, cur)
                continue
            if isinstance(s, (ast.For, ast.AsyncFor)):
                self._record(s, cur, [s.iter])
                self._walk(s.body, self._ctx(cur, loops=cur.loops + (s,)))
                self._walk(s.orelse, cur)
                continue
            if isinstance(s, (ast.With, ast.AsyncWith)):
                self._record(s, cur, [i.context_expr for i in s.items])
                self._walk(s.body, cur)
                continue
            exprs = [n for n in ast.iter_child_nodes(s) if isinstance(n, ast.expr)]
            self._record(s, cur, exprs)
        return cur

    # --- queries
    def calls_to(self, pred):
        """Calls whose unparsed function expression satisfies pred(text)."""
        return [(c, ctx, st) for (c, ctx, st) in self.calls if pred(ast.unparse(c.func))]

    def assigns_to(self, target_text):
        out = []
        for st, ctx in self.stmts:
            if isinstance(st, ast.Assign):
                for t in st.targets:
                    if ast.unparse(t) == target_text:
                        out.append((st, ctx))
            elif isinstance(st, (ast.AnnAssign, ast.AugAssign)) and ast.unparse(st.target) == target_text:
                out.append((st, ctx))
        return out

    def raises(self):
        return [(st, ctx) for st, ctx in self.stmts if isinstance(st, ast.Raise)]

    def returns(self):
        return [(st, ctx) for st, ctx in self.stmts if isinstance(st, ast.Return)]

    def all_funcs(self):
        out = [self]
        for n in self.nested.values():
            out += n.all_funcs()
        return out


def try_maps(t, from_exc, to_exc):
    """True when `try` statement t has a handler for from_exc whose body raises to_exc."""
    for h in t.handlers:
        if h.type is None:
            continue
        names = [ast.unparse(h.type)] if not isinstance(h.type, ast.Tuple) else [ast.unparse(e) for e in h.type.elts]
        if from_exc in names:
            for s in h.body:
                if isinstance(s, ast.Raise) and s.exc is not None:
                    txt = ast.unparse(s.exc)
                    if txt == to_exc or txt.startswith(to_exc + "("):
                        return True
    return False


class PyFacts:
    def __init__(self, repo=None):
        repo = repo or REPO
        self.repo = repo
        self.modules = {}
        self.funcs = {}  # "module:Class.method" -> FuncFacts
        self.sources = {}
        for key, rel in MODULES.items():
            p = os.path.join(repo, PKG, rel)
            if not os.path.exists(p):
                continue
            src = open(p).read()
            tree = ast.parse(src)
            self.modules[key] = tree
            self.sources[key] = os.path.join(PKG, rel)
            for n in tree.body:
                if isinstance(n, ast.ClassDef):
                    for m in n.body:
                        if isinstance(m, (ast.FunctionDef, ast.AsyncFunctionDef)):
                            self.funcs["%s:%s.%s" % (key, n.name, m.name)] = FuncFacts(m, "%s.%s" % (n.name, m.name), key)
                elif isinstance(n, (ast.FunctionDef, ast.AsyncFunctionDef)):
                    self.funcs["%s:%s" % (key, n.name)] = FuncFacts(n, n.name, key)

    def func(self, key):
        return self.funcs.get(key)

    def loc(self, modkey, node):
        return "%s:%d" % (self.sources.get(modkey, modkey), getattr(node, "lineno", 0))

    def module_consts(self, modkey):
        out = {}
        tree = self.modules.get(modkey)
        if not tree:
            return out
        for n in tree.body:
            if isinstance(n, ast.Assign) and len(n.targets) == 1 and isinstance(n.targets[0], ast.Name):
                try:
                    out[n.targets[0].id] = ast.literal_eval(n.value)
                except Exception:
                    out[n.targets[0].id] = ast.unparse(n.value)
        return out

    def class_attrs(self, modkey, cls):
        out = {}
        tree = self.modules.get(modkey)
        if not tree:
            return out
        for n in tree.body:
            if isinstance(n, ast.ClassDef) and n.name == cls:
                for m in n.body:
                    if isinstance(m, ast.Assign) and len(m.targets) == 1 and isinstance(m.targets[0], ast.Name):
                        try:
                            out[m.targets[0].id] = ast.literal_eval(m.value)
                        except Exception:
                            out[m.targets[0].id] = ast.unparse(m.value)
        return out
