"""Fact extraction: hash the working tree of the repository, run the mirfacts driver
under cargo when the hash is new, cache the result under /verif/.cache/facts."""
import fcntl
import glob
import hashlib
import json
import os
import shutil
import subprocess
import sys
import time

VERIF = os.path.dirname(os.path.dirname(os.path.abspath(__file__)))
REPO = os.environ.get("GSA_REPO", "/repo")
CACHE = os.environ.get("GSA_CACHE", os.path.join(VERIF, ".cache"))
DRIVER = os.path.join(VERIF, "tools", "mirfacts", "target", "release", "mirfacts")
BODY_FLOOR = 440  # confirmed by hand on the pinned tree: 498 bodies


def tree_files(repo=None):
    repo = repo or REPO
    out = []
    for root, _dirs, files in os.walk(os.path.join(repo, "src")):
        for f in files:
            if f.endswith(".rs") or f.endswith(".py"):
                out.append(os.path.join(root, f))
    for f in ("Cargo.toml", "Cargo.lock", "build.rs"):
        p = os.path.join(repo, f)
        if os.path.exists(p):
            out.append(p)
    return sorted(out)


def tree_hash(repo=None):
    repo = repo or REPO
    h = hashlib.sha256()
    for p in tree_files(repo):
        h.update(os.path.relpath(p, repo).encode())
        h.update(b"\0")
        with open(p, "rb") as fh:
            h.update(fh.read())
        h.update(b"\0")
    # the driver is part of the key: a rebuilt driver invalidates cached facts
    try:
        st = os.stat(DRIVER)
        h.update(("%d:%d" % (st.st_size, int(st.st_mtime))).encode())
    except OSError:
        pass
    return h.hexdigest()[:24]


def nightly_sysroot():
    return subprocess.check_output(["rustc", "+nightly", "--print", "sysroot"], text=True).strip()


def build_driver():
    """Build the driver (setup step)."""
    d = os.path.join(VERIF, "tools", "mirfacts")
    env = dict(os.environ, CARGO_NET_OFFLINE="true")
    subprocess.check_call(["cargo", "+nightly", "build", "--release", "--offline"], cwd=d, env=env)


def extract(repo=None, force=False, quiet=True):
    """Return the path of the facts file for the current working tree of `repo`."""
    repo = repo or REPO
    os.makedirs(os.path.join(CACHE, "facts"), exist_ok=True)
    target = os.environ.get("GSA_TARGET", os.path.join(CACHE, "target"))
    os.makedirs(target, exist_ok=True)
    if not os.path.exists(DRIVER):
        build_driver()
    key = tree_hash(repo)
    out = os.path.join(CACHE, "facts", key + ".json")
    lock_path = os.path.join(target, ".gsa.lock")
    with open(lock_path, "w") as lock:
        fcntl.flock(lock, fcntl.LOCK_EX)
        if os.path.exists(out) and not force:
            return out
        t0 = time.time()
        # cargo's freshness cache would skip the wrapper: drop the member's fingerprints
        for fp in glob.glob(os.path.join(target, "debug", ".fingerprint", "gufo_snmp-*")):
            shutil.rmtree(fp, ignore_errors=True)
        env = dict(os.environ)
        env["LD_LIBRARY_PATH"] = os.path.join(nightly_sysroot(), "lib") + ":" + env.get("LD_LIBRARY_PATH", "")
        env["RUSTFLAGS"] = "-Zmir-opt-level=0 -Awarnings"
        env["RUSTC_WORKSPACE_WRAPPER"] = DRIVER
        env["MIRFACTS_OUT"] = out
        env["CARGO_TARGET_DIR"] = target
        env["CARGO_NET_OFFLINE"] = "true"
        env.pop("RUSTC_WRAPPER", None)
        p = subprocess.run(
            ["cargo", "+nightly", "check", "--offline", "--lib", "-j", "16"],
            cwd=repo, env=env, stdout=subprocess.PIPE, stderr=subprocess.STDOUT, text=True,
        )
        if p.returncode != 0 or not os.path.exists(out):
            sys.stderr.write(p.stdout[-6000:])
            raise SystemExit("gsa: fact extraction failed (the tree does not build under cargo +nightly check)")
        with open(out) as fh:
            n = len(json.load(fh)["bodies"])
        if n < BODY_FLOOR:
            os.unlink(out)
            raise SystemExit("gsa: fact file has %d bodies, floor is %d" % (n, BODY_FLOOR))
        if not quiet:
            sys.stderr.write("gsa: extracted %d bodies in %.1fs -> %s\n" % (n, time.time() - t0, out))
        # keep the cache small: files older than an hour beyond the 12 newest (never one a parallel run may be about to read)
        def mt(f):
            try:
                return os.path.getmtime(f)
            except OSError:
                return 0
        files = sorted(glob.glob(os.path.join(CACHE, "facts", "*.json")), key=mt)
        for old in files[:-12]:
            if time.time() - mt(old) < 3600:
                continue
            try:
                os.unlink(old)
            except OSError:
                pass
        return out


if __name__ == "__main__":
    if len(sys.argv) > 1 and sys.argv[1] == "setup":
        build_driver()
        print(extract(quiet=False))
    else:
        print(extract(quiet=False))
