"""Models of external callees for the `num` engine (trusted base, echoed in the evidence).
Each model takes a CallCtx and returns the list of successor states (the destination written),
or None to fall back to the generic treatment."""
from .lin import INF, Lin
from .num import ISIZE_MAX, TOP, V_int, c_not, ty_range

# ---------------------------------------------------------------------------- classes of harmless callees
# (no panic, no effect the analysis tracks beyond havocking &mut arguments)
HARMLESS_PREFIX = (
    "pyo3::", "<pyo3::", "core::fmt::", "std::fmt::", "<std::fmt::", "std::hint::", "digest::", "<digest::", "cipher::", "<T as cipher::",
    "rand::", "socket2::", "<socket2::", "std::sync::", "<std::sync::", "std::time::", "std::io::", "<std::io::", "nom::",
    "std::string::String::", "<std::string::String as", "std::str::", "core::str::", "<std::str::", "std::f64::", "std::boxed::",
    "std::mem::MaybeUninit", "std::marker::", "<std::marker::", "std::clone::", "std::cmp::", "<std::cmp::", "std::convert::",
    "<std::borrow::Cow", "std::iter::", "<std::iter::", "<std::slice::", "<std::vec::", "std::vec::", "std::array::", "<T as std::",
    "<I as std::", "core::num::", "std::default::", "<i64 as", "<u32 as", "<u64 as", "<std::option::", "<std::result::",
    "std::option::Option::<T>::", "std::result::Result::<T, E>::", "core::slice::", "std::slice::", "std::ptr::", "core::bool::",
    "<&u8 as", "<&A as", "<std::ops::", "md5::", "sha1::", "aes::", "des::", "cbc::", "cfb_mode::", "std::os::", "std::net::",
    "<&'a ", "<&", "std::borrow::", "std::alloc::", "core::panicking::", "std::process::", "<std::string::", "<std::net::", "std::ops::",
)
# APIs that can panic: a call to one of these without a model is a site the engine cannot discharge
PANICKY_SUFFIX = (
    "::unwrap", "::expect", "::unwrap_err", "::expect_err", "::index", "::index_mut", "::copy_from_slice", "::clone_from_slice",
    "::split_at", "::split_at_mut", "::swap", "::remove", "::insert", "::swap_remove", "::drain", "::split_off", "::truncate_front",
    "::copy_within", "::rotate_left", "::rotate_right", "::chunks", "::chunks_exact", "::windows", "::step_by", "::from_raw_parts",
    "::from_raw_parts_mut", "::unwrap_unchecked", "::get_unchecked", "::get_unchecked_mut", "::add", "::sub", "::offset",
    "::copy_nonoverlapping", "::copy", "::write", "::read", "::assume_init", "::from_utf8_unchecked", "::unreachable_unchecked",
    "::abs", "::pow", "::div_euclid", "::rem_euclid", "::next_power_of_two", "::from_digit", "::ilog2", "::ilog10", "::borrow_mut",
    "::with_capacity", "::reserve", "::resize", "::repeat", "::extend_from_within", "::fill_with", "::sort_by_key",
    # generic_array / cipher block views assert the length of the slice they are given
    "::from_slice", "::from_mut_slice", "::from_exact_iter", "::clone_from_slice",
)


def classify(path):
    if path is None:
        return None
    if path.startswith("core::panicking::") or path.startswith("std::rt::") or "begin_panic" in path:
        return "diverges"
    last = "::" + path.split("::")[-1]
    if path in ("std::iter::repeat", "std::iter::repeat_n", "std::iter::repeat_with", "core::iter::repeat"):
        return "harmless"  # the iterator constructors, not [T]::repeat / str::repeat (which allocate and can overflow)
    if last in PANICKY_SUFFIX and not (path.startswith("pyo3::") or path.startswith("<pyo3::") or "pyo3::types::" in path):
        return None
    for p in HARMLESS_PREFIX:
        if path.startswith(p):
            return "harmless"
    return None


# ---------------------------------------------------------------------------- helpers
def set_variant(ctx, st, vname, payload=None, payload_ty=None):
    """Write enum variant `vname` with an optional payload value into the destination of the call."""
    eng = ctx.eng
    dp = ctx.dest_path(st)
    if dp is None:
        return st
    eng.kill(st, dp)
    vi = None
    for i, v in enumerate(ctx.dty.get("variants", [])):
        if v["name"] == vname:
            vi = i
            st.env[dp + ("#d",)] = V_int(Lin.const(v["discr"]))
    if vi is not None and payload is not None:
        eng.write_path(st, dp + (("dc", vi), ("f", 0)), payload)
    return st


def enum_discr(ctx, st, val, ty):
    """(path, discr value) of an enum operand passed by value or by reference."""
    eng = ctx.eng
    t = ty
    path = None
    if val[0] == "agg":
        path = val[1]
    elif val[0] == "ptr":
        path = val[1]
        if t.get("k") in ("ref", "rawptr"):
            t = eng.ty(t["to"])
    if path is None:
        return None, None, t
    return path, eng.discr_of(st, path, t), t


def variant_index(t, name):
    for i, v in enumerate(t.get("variants", [])):
        if v["name"] == name:
            return i, v["discr"]
    return None, None


def split_enum(ctx, val, ty, names):
    """Split the current state by the variant of an enum operand: yields (state, variant name, payload path)."""
    eng = ctx.eng
    st = ctx.st
    path, d, t = enum_discr(ctx, st, val, ty)
    out = []
    if path is None:
        for n in names:
            out.append((st.copy(), n, None))
        return out, t
    dl = d[1]
    for n in names:
        vi, dv = variant_index(t, n)
        if vi is None:
            continue
        s2 = st.copy()
        s2.add_eq(dl - dv)
        if s2.dead:
            continue
        s2.env[path + ("#d",)] = V_int(Lin.const(dv))
        out.append((s2, n, path + (("dc", vi), ("f", 0))))
    return out, t


def payload_ty(eng, t, name):
    vi, _ = variant_index(t, name)
    if vi is None:
        return {"k": "unknown"}
    fs = t["variants"][vi]["fields"]
    if fs and "ty" in fs[0]:
        return eng.ty(fs[0]["ty"])
    return {"k": "unknown"}


def read_payload(eng, st, path, pty):
    if path is None:
        return ("agg", None) if eng.is_agg(pty) else eng.fresh_for(st, pty, "payload")
    if eng.is_agg(pty):
        return ("agg", path)
    return eng.read(st, path, pty, "payload")


def range_bounds(ctx, i, L):
    """(start, end) Lins of the range argument i, given the indexed length L."""
    eng, st = ctx.eng, ctx.st
    v, t = ctx.args[i], ctx.argtys[i]
    if t.get("k") == "int":
        return None
    p = t.get("path", "")
    path = v[1] if v[0] == "agg" else None

    def fld(j):
        if path is None:
            return None
        ft = {"k": "int", "bits": 64, "signed": False}
        x = eng.read(st, path + (("f", j),), ft, "rng")
        return x[1] if x[0] == "int" else None
    if p.endswith("RangeFull"):
        return Lin.const(0), L
    if p.endswith("RangeToInclusive"):
        e = fld(0)
        return (Lin.const(0), e + 1) if e is not None else None
    if p.endswith("RangeTo"):
        e = fld(0)
        return (Lin.const(0), e) if e is not None else None
    if p.endswith("RangeFrom"):
        s = fld(0)
        return (s, L) if s is not None else None
    if p.endswith("RangeInclusive"):
        s, e = fld(0), fld(1)
        return (s, e + 1) if s is not None and e is not None else None
    if p.endswith("Range"):
        s, e = fld(0), fld(1)
        return (s, e) if s is not None and e is not None else None
    return None


def slice_parts(ctx, i, st=None):
    """(base, off, len) of a slice-like argument."""
    eng = ctx.eng
    st = st or ctx.st
    v, t = ctx.args[i], ctx.argtys[i]
    if v[0] == "slice":
        return v[1], v[2], v[3]
    if v[0] == "ptr":
        L = eng.slice_len(st, ctx.fr, v, t)
        return eng.base_of(v[1]), Lin.const(0), L
    return None, None, None


# ---------------------------------------------------------------------------- slices / arrays / Vec
def m_len(ctx):
    L = ctx.len_of(0)
    if L is None:
        return None
    return [ctx.ret(V_int(L))]


def m_is_empty(ctx):
    L = ctx.len_of(0)
    if L is None:
        return None
    return [ctx.ret(("bool", ("eq", L)))]


def m_range_contains(ctx):
    """(lo..hi).contains(&x) / (lo..=hi).contains(&x) on integers: the conjunction of the two comparisons."""
    eng, st = ctx.eng, ctx.st
    r, x = ctx.args[0], ctx.args[1]
    if r[0] != "ptr" or x[0] != "ptr":
        return None
    it = ctx.argtys[1]
    ity = eng.ty(it["to"]) if it.get("k") in ("ref", "rawptr") else it
    if ity.get("k") != "int":
        return None
    lo = eng.read(st, r[1] + (("f", 0),), ity, "rng")
    hi = eng.read(st, r[1] + (("f", 1),), ity, "rng")
    xv = eng.read(st, x[1], ity, "item")
    if lo[0] != "int" or hi[0] != "int" or xv[0] != "int":
        return None
    incl = "RangeInclusive" in ctx.path
    return [ctx.ret(("bool", ("and", (("le", lo[1] - xv[1]), ("le", xv[1] - hi[1] + (0 if incl else 1))))))]


def m_index(ctx):
    eng, st = ctx.eng, ctx.st
    base, off, L = slice_parts(ctx, 0)
    it = ctx.argtys[1]
    kind = "index"
    if L is None:
        ctx.oblige(("const", False), kind, "always", "indexing a value of unknown length")
        return [ctx.ret_fresh()]
    if it.get("k") == "int":
        idx = eng.as_lin(st, ctx.args[1])
        if idx is None:
            ctx.oblige(("const", False), kind, "always", "unknown index")
        else:
            ctx.oblige(("le", idx - L + 1), kind, "always")
            st.add(idx - L + 1)
        return [ctx.ret(("ptr", (eng.new_obj(),)))]
    rb = range_bounds(ctx, 1, L)
    if rb is None:
        ctx.oblige(("const", False), kind, "always", "unknown range")
        return [ctx.ret_fresh()]
    s, e = rb
    ctx.oblige(("and", [("le", s - e), ("le", e - L)]), kind, "always")
    st.add(s - e)
    st.add(e - L)
    st.add(-s)
    return [ctx.ret(("slice", base, off + s, e - s))]


def m_get(ctx):
    eng, st = ctx.eng, ctx.st
    base, off, L = slice_parts(ctx, 0)
    if L is None:
        return None
    it = ctx.argtys[1]
    some = st.copy()
    none = st
    if it.get("k") == "int":
        idx = eng.as_lin(st, ctx.args[1])
        if idx is None:
            return None
        some.add(idx - L + 1)
        set_variant(ctx, some, "Some", ("ptr", (eng.new_obj(),)))
        none.add(L - idx)
    else:
        rb = range_bounds(ctx, 1, L)
        if rb is None:
            return None
        s, e = rb
        some.add(s - e)
        some.add(e - L)
        some.add(-s)
        set_variant(ctx, some, "Some", ("slice", base, off + s, e - s))
    set_variant(ctx, none, "None")
    return [x for x in (some, none) if not x.dead]


def m_split_at(ctx):
    """slice.split_at(mid) / split_at_mut(mid): panics unless mid <= len; yields (s[..mid], s[mid..])."""
    eng, st = ctx.eng, ctx.st
    base, off, L = slice_parts(ctx, 0)
    mid = eng.as_lin(st, ctx.args[1])
    kind = ctx.path.split("::")[-1]
    if L is None or mid is None:
        ctx.oblige(("const", False), kind, "always", "unknown length or split point")
        return [ctx.ret_fresh()]
    ctx.oblige(("le", mid - L), kind, "always")
    st.add(mid - L)
    st.add(-mid)
    dp = ctx.dest_path(st)
    if dp is None:
        return [ctx.ret_fresh()]
    eng.kill(st, dp)
    eng.write_path(st, dp + (("f", 0),), ("slice", base, off, mid))
    eng.write_path(st, dp + (("f", 1),), ("slice", base, off + mid, L - mid))
    return [st]


def m_same_len(ctx):
    a, b = ctx.len_of(0), ctx.len_of(1)
    kind = ctx.path.split("::")[-1]
    if a is None or b is None:
        ctx.oblige(("const", False), kind, "always", "unknown slice length")
    else:
        ctx.oblige(("eq", a - b), kind, "always")
        ctx.st.add_eq(a - b)
    return [ctx.ret_fresh()]


def m_first_last(ctx):
    eng, st = ctx.eng, ctx.st
    L = ctx.len_of(0)
    if L is None:
        return None
    some, none = st.copy(), st
    some.add(Lin.const(1) - L)
    none.add_eq(L)
    set_variant(ctx, some, "Some", ("ptr", (eng.new_obj(),)))
    set_variant(ctx, none, "None")
    return [x for x in (some, none) if not x.dead]


def m_split_first_last(ctx):
    """slice.split_first() / split_last(): Some((&elem, rest)) iff the slice is not empty; rest is the slice without its
    first (last) element."""
    eng, st = ctx.eng, ctx.st
    base, off, L = slice_parts(ctx, 0)
    if L is None:
        return None
    first = ctx.path.split("::")[-1].startswith("split_first")
    some, none = st.copy(), st
    some.add(Lin.const(1) - L)
    none.add_eq(L)
    set_variant(ctx, none, "None")
    dp = ctx.dest_path(some)
    if dp is None:
        return None
    set_variant(ctx, some, "Some")
    vi = [i for i, v in enumerate(ctx.dty.get("variants", [])) if v["name"] == "Some"]
    if not vi:
        return None
    pay = dp + (("dc", vi[0]), ("f", 0))
    eng.write_path(some, pay + (("f", 0),), ("ptr", (eng.new_obj(),)))
    eng.write_path(some, pay + (("f", 1),), ("slice", base, (off + 1) if first else off, L - 1))
    return [x for x in (some, none) if not x.dead]


def m_slice_iter(ctx):
    base, off, L = slice_parts(ctx, 0)
    if L is None:
        return None
    return [ctx.ret(("iter", (("base", base), ("count", L), ("kind", "slice"), ("off", off))))]


def it_get(v, k):
    if v[0] != "iter":
        return None
    for a, b in v[1]:
        if a == k:
            return b
    return None


def it_with(v, **kw):
    d = dict(v[1]) if v[0] == "iter" else {}
    d.update(kw)
    return ("iter", tuple(sorted(d.items(), key=lambda x: x[0])))


def iter_arg(ctx, i=0):
    """Iterator value of argument i (by value or by &mut reference)."""
    v = ctx.args[i]
    if v[0] == "iter":
        return v, None
    if v[0] == "ptr":
        x = ctx.st.env.get(v[1])
        if x is not None and x[0] == "iter":
            return x, v[1]
    if v[0] == "agg" and v[1] is not None:
        x = ctx.st.env.get(v[1])
        if x is not None and x[0] == "iter":
            return x, v[1]
    return None, None


def range_iter(ctx, v, t):
    """Iterator value of a std::ops::Range aggregate (None when v is not one)."""
    eng, st = ctx.eng, ctx.st
    if v[0] == "agg" and v[1] is not None and t.get("path", "") == "std::ops::Range":
        it = {"k": "int", "bits": 64, "signed": False}
        ft = t["variants"][0]["fields"][0].get("ty") if t.get("variants") else None
        ity = eng.ty(ft) if ft is not None else it
        s = eng.read(st, v[1] + (("f", 0),), ity, "start")
        e = eng.read(st, v[1] + (("f", 1),), ity, "end")
        if s[0] == "int" and e[0] == "int":
            return ("iter", (("hi", e[1]), ("kind", "range"), ("lo", s[1])))
    return None


def m_iter_adapter(ctx):
    """map / filter / rev / copied / cloned / skip_while ...: the count can only shrink or stay."""
    it, _ = iter_arg(ctx)
    name = ctx.path.split("::")[-1]
    if it is None:
        it = range_iter(ctx, ctx.args[0], ctx.argtys[0])
    if it is None:
        return [ctx.ret(("iter", (("kind", "unknown"),)))]
    if name == "rev" and it_get(it, "kind") == "range":
        return [ctx.ret(it_with(it, rev=not it_get(it, "rev")))]
    if it_get(it, "kind") == "range" and name not in ("map", "copied", "cloned", "inspect", "enumerate", "peekable", "fuse", "by_ref"):
        # a filtered / skipped range still yields values of the range; next() of the adapter cannot narrow it further
        return [ctx.ret(it_with(it, kind="range-sub"))]
    if name == "skip" and it_get(it, "count") is not None and it_get(it, "base") is not None and len(ctx.args) > 1 and not it_get(it, "enum"):
        # skip(n) over a slice iterator drops k = min(n, count) leading elements: the end (off + count) stays where it was
        c = it_get(it, "count")
        n = ctx.eng.as_lin(ctx.st, ctx.args[1])
        off = it_get(it, "off") or Lin.const(0)
        if n is not None and isinstance(c, Lin):
            if ctx.eng.holds(ctx.st, ("le", n - c), True):
                k = n
            elif ctx.eng.holds(ctx.st, ("le", c - n), True):
                k = c
            else:
                k = Lin.sym(ctx.eng.new_sym("skip", 0, ISIZE_MAX))
                ctx.st.add(k - n)
                ctx.st.add(k - c)
            return [ctx.ret(it_with(it, off=off + k, count=c - k, kind="adapter"))]
    if name in ("filter", "skip_while", "take_while", "filter_map", "skip", "step_by"):
        c = it_get(it, "count")
        if c is not None:
            f = Lin.sym(ctx.eng.new_sym("cnt", 0, ISIZE_MAX))
            ctx.st.add(f - c)
            return [ctx.ret(it_with(it, count=f, kind="adapter"))]
    return [ctx.ret(it_with(it, kind=it_get(it, "kind") or "adapter"))]


def m_take(ctx):
    it, _ = iter_arg(ctx)
    n = ctx.eng.as_lin(ctx.st, ctx.args[1])
    c0 = it_get(it, "count") if it is not None else None
    # min(count, n) is exact when one side is known to be the smaller
    if n is not None and c0 is not None and isinstance(c0, Lin):
        if ctx.eng.holds(ctx.st, ("le", n - c0), True):
            return [ctx.ret(it_with(it, count=n, kind="take"))]
        if ctx.eng.holds(ctx.st, ("le", c0 - n), True):
            return [ctx.ret(it_with(it, count=c0, kind="take"))]
    f = Lin.sym(ctx.eng.new_sym("take", 0, ISIZE_MAX))
    if it is not None and it_get(it, "count") is not None:
        ctx.st.add(f - it_get(it, "count"))
    if n is not None:
        ctx.st.add(f - n)
    return [ctx.ret(it_with(it if it is not None else ("iter", ()), count=f, kind="take"))]


def m_zip(ctx):
    a, _ = iter_arg(ctx, 0)
    b, _ = iter_arg(ctx, 1)
    f = Lin.sym(ctx.eng.new_sym("zip", 0, ISIZE_MAX))
    for x in (a, b):
        if x is not None and it_get(x, "count") is not None:
            ctx.st.add(f - it_get(x, "count"))
    return [ctx.ret(("iter", (("count", f), ("kind", "zip"))))]


def m_enumerate(ctx):
    it, _ = iter_arg(ctx)
    if it is None:
        it = ("iter", ())
    return [ctx.ret(it_with(it, enum=True))]


def m_into_iter(ctx):
    eng, st = ctx.eng, ctx.st
    v, t = ctx.args[0], ctx.argtys[0]
    if v[0] == "iter":
        return [ctx.ret(v)]
    if v[0] == "agg" and v[1] is not None:
        x = st.env.get(v[1])
        if x is not None and x[0] == "iter":
            return [ctx.ret(x)]
        p = t.get("path", "")
        ri = range_iter(ctx, v, t)
        if ri is not None:
            return [ctx.ret(ri)]
        if p == "std::vec::Vec":
            L = eng.len_field(st, v[1])
            return [ctx.ret(("iter", (("count", L), ("kind", "vec"))))]
    if v[0] in ("slice", "ptr"):
        # `for x in &s[a..b]`: the iterator keeps the slice's base and offset (the extent rule follows reads through it)
        try:
            base, off, L = slice_parts(ctx, 0)
        except Exception:
            base, off, L = None, None, None
        if L is not None and base is not None:
            return [ctx.ret(("iter", (("base", base), ("count", L), ("kind", "slice"), ("off", off))))]
        L = eng.slice_len(st, ctx.fr, v, t)
        if L is not None:
            return [ctx.ret(("iter", (("count", L), ("kind", "slice"))))]
    return [ctx.ret(("iter", (("kind", "unknown"),)))]


def m_next(ctx):
    """Iterator::next: Some(item) / None.  Enumerated iterators yield (index, item) with index < count."""
    eng, st = ctx.eng, ctx.st
    it, ipath = iter_arg(ctx)
    some, none = st.copy(), st
    dp = ctx.dest_path(some)
    set_variant(ctx, none, "None")
    if dp is None:
        return [some, none]
    vi, dv = variant_index(ctx.dty, "Some")
    eng.kill(some, dp)
    some.env[dp + ("#d",)] = V_int(Lin.const(dv if dv is not None else 1))
    pty = payload_ty(eng, ctx.dty, "Some")
    ppath = dp + (("dc", vi if vi is not None else 1), ("f", 0))
    if it is not None:
        kind = it_get(it, "kind")
        cnt = it_get(it, "count")
        if kind in ("range", "range-sub"):
            lo, hi = it_get(it, "lo"), it_get(it, "hi")
            if kind == "range" and getattr(eng, "exact_ranges", False) and lo is not None and hi is not None and pty.get("k") == "int" \
                    and not lo.t and not hi.t and ipath is not None and hi.c - lo.c <= 32:
                # inside an unrolled loop (Interp.unroll_loop) a range with constant bounds is stepped exactly: next()
                # yields the start (the end - 1 when reversed) and moves it by one; past the end it yields None
                if lo.c >= hi.c:
                    return [none]
                rev = bool(it_get(it, "rev"))
                x = Lin.const(hi.c - 1 if rev else lo.c)
                some.env[ppath] = V_int(x)
                some.env[ipath] = it_with(it, hi=hi - 1) if rev else it_with(it, lo=lo + 1)
                return [some]
            if lo is not None and hi is not None and pty.get("k") == "int":
                x = eng.fresh_int(pty, "i")
                some.add(lo - x)
                some.add(x - hi + 1)
                some.env[ppath] = V_int(x)
                # the consumed part is written back for the iterator adaptors that were always modelled; for a plain
                # `for k in a..b` (Range::next) the range is left as it is - k stays within [a, b) either way, and a
                # loop-carried bound that moves on every visit costs a template join per visit for nothing
                if ipath is not None and kind == "range" and not ctx.path.startswith("std::iter::range::<impl"):
                    some.env[ipath] = it_with(it, hi=x) if it_get(it, "rev") else it_with(it, lo=x + 1)
                if kind == "range":
                    none.add(hi - lo)
                return [s for s in (some, none) if not s.dead]
        if cnt is not None:
            some.add(Lin.const(1) - cnt)
            if it_get(it, "enum") and pty.get("k") == "tuple":
                ity = eng.ty(pty["elems"][0])
                idx = eng.fresh_int(ity, "idx")
                some.add(-idx)
                some.add(idx - cnt + 1)
                some.env[ppath + (("f", 0),)] = V_int(idx)
    return [s for s in (some, none) if not s.dead]


def m_count(ctx):
    it, _ = iter_arg(ctx)
    f = Lin.sym(ctx.eng.new_sym("count", 0, ISIZE_MAX))
    if it is not None and it_get(it, "count") is not None:
        ctx.st.add(f - it_get(it, "count"))
    return [ctx.ret(V_int(f))]


def m_collect(ctx):
    eng, st = ctx.eng, ctx.st
    it, _ = iter_arg(ctx)
    st2 = ctx.ret_fresh()
    if ctx.dty.get("path") == "std::vec::Vec":
        dp = ctx.dest_path(st2)
        if dp is not None:
            f = Lin.sym(eng.new_sym("vlen", 0, ISIZE_MAX))
            if it is not None and it_get(it, "count") is not None:
                st2.add(f - it_get(it, "count"))
            st2.env[dp + ("#len",)] = V_int(f)
    return [st2]


# Vec
def m_vec_new(ctx):
    st = ctx.ret_fresh()
    dp = ctx.dest_path(st)
    if dp is not None:
        st.env[dp + ("#len",)] = V_int(Lin.const(0))
    return [st]


def m_vec_push(ctx):
    eng, st = ctx.eng, ctx.st
    v = ctx.args[0]
    if v[0] == "ptr":
        L = eng.len_field(st, v[1])
        st.env[v[1] + ("#len",)] = V_int(L + 1)
        st.add(L + 1 - ISIZE_MAX)
    return [ctx.ret_fresh()]


def m_vec_extend(ctx):
    eng, st = ctx.eng, ctx.st
    v = ctx.args[0]
    n = ctx.len_of(1)
    if v[0] == "ptr":
        L = eng.len_field(st, v[1])
        if n is not None:
            st.env[v[1] + ("#len",)] = V_int(L + n)
            st.add(L + n - ISIZE_MAX)
        else:
            del st.env[v[1] + ("#len",)]
    return [ctx.ret_fresh()]


def m_vec_clear(ctx):
    eng, st = ctx.eng, ctx.st
    v = ctx.args[0]
    if v[0] == "ptr":
        st.env[v[1] + ("#len",)] = V_int(Lin.const(0))
    return [ctx.ret_fresh()]


def m_vec_truncate(ctx):
    eng, st = ctx.eng, ctx.st
    v = ctx.args[0]
    n = eng.as_lin(st, ctx.args[1])
    if v[0] == "ptr":
        L = eng.len_field(st, v[1])
        f = Lin.sym(eng.new_sym("trunc", 0, ISIZE_MAX))
        st.add(f - L)
        if n is not None:
            st.add(f - n)
            # exact when the relation between len and n is known
            if st.entails(n - L):
                f = n
            elif st.entails(L - n):
                f = L
        st.env[v[1] + ("#len",)] = V_int(f)
    return [ctx.ret_fresh()]


def m_vec_from_elem(ctx):
    eng = ctx.eng
    n = eng.as_lin(ctx.st, ctx.args[1])
    st = ctx.ret_fresh()
    dp = ctx.dest_path(st)
    if dp is not None and n is not None:
        st.env[dp + ("#len",)] = V_int(n)
    return [st]


def m_to_vec(ctx):
    L = ctx.len_of(0)
    st = ctx.ret_fresh()
    dp = ctx.dest_path(st)
    if dp is not None and L is not None and ctx.dty.get("k") == "adt":
        st.env[dp + ("#len",)] = V_int(L)
    return [st]


def m_deref_len(ctx):
    """Deref of Vec / String / Cow<[T]> / GenericArray / as_bytes / as_ref / as_slice: a slice over the container."""
    eng, st = ctx.eng, ctx.st
    v, t = ctx.args[0], ctx.argtys[0]
    if v[0] == "slice":
        return [ctx.ret(v)]
    if v[0] == "ptr":
        to = eng.ty(t["to"]) if t.get("k") in ("ref", "rawptr") else t
        if to.get("k") == "array":
            n = eng.array_len(ctx.fr, to)
            L = Lin.const(n) if n is not None else eng.slice_len(st, ctx.fr, v, t)
        elif to.get("path") == "digest::generic_array::GenericArray":
            L = generic_array_len(ctx, v, to)
        else:
            L = eng.len_field(st, v[1])
        dto = eng.ty(ctx.dty["to"]) if ctx.dty.get("k") in ("ref", "rawptr") else {}
        if dto.get("k") in ("slice", "str"):
            return [ctx.ret(("slice", eng.base_of(v[1]), Lin.const(0), L))]
    return None


DIGEST_SIZES = {"md5::Md5": 16, "sha1::Sha1": 20, "md5::Md5Core": 16, "sha1::Sha1Core": 20}


def generic_array_len(ctx, v, to):
    eng, st = ctx.eng, ctx.st
    d = ctx.fr.subst.get("D")
    if isinstance(d, str):
        for name, n in DIGEST_SIZES.items():
            if name.split("::")[-1] in d:
                note = "digest output size of %s taken as %d (model table)" % (d, n)
                if note not in eng.notes:
                    eng.notes.append(note)
                return Lin.const(n)
    return eng.len_field(st, v[1])


# Option / Result
def m_unwrap(ctx):
    eng, st = ctx.eng, ctx.st
    v, t = ctx.args[0], ctx.argtys[0]
    good = "Some" if t.get("path") == "std::option::Option" else "Ok"
    path, d, et = enum_discr(ctx, st, v, t)
    vi, dv = variant_index(et, good)
    kind = ctx.path.split("::")[-1]
    if path is None or dv is None:
        ctx.oblige(("const", False), kind, "always", "%s() on a value whose variant is unknown" % kind)
        return [ctx.ret_fresh()]
    ctx.oblige(("eq", d[1] - dv), kind, "always", "%s() on a value that may be %s" % (kind, "None" if good == "Some" else "Err"))
    st.add_eq(d[1] - dv)
    pty = payload_ty(eng, et, good)
    return [ctx.ret(read_payload(eng, st, path + (("dc", vi), ("f", 0)), pty))]


def m_unwrap_or(ctx):
    eng = ctx.eng
    v, t = ctx.args[0], ctx.argtys[0]
    good = "Some" if t.get("path") == "std::option::Option" else "Ok"
    bad = "None" if good == "Some" else "Err"
    parts, et = split_enum(ctx, v, t, [good, bad])
    out = []
    for s2, name, ppath in parts:
        if name == good:
            pty = payload_ty(eng, et, good)
            out.append(ctx.ret(read_payload(eng, s2, ppath, pty), s2))
        else:
            if len(ctx.args) > 1 and ctx.path.endswith("::unwrap_or"):
                out.append(ctx.ret(ctx.args[1], s2))
            elif ctx.path.endswith("unwrap_or_default") and ctx.dty.get("k") == "int":
                out.append(ctx.ret(V_int(Lin.const(0)), s2))
            else:
                out.append(ctx.ret_fresh(s2))
    return out


def m_variant_map(ctx):
    """ok_or / ok_or_else / map_err / map / Try::branch / as_ref / as_mut / as_deref ...: the variant is
    preserved (possibly renamed), the payload of the kept side is carried over."""
    eng = ctx.eng
    name = ctx.path.split("::")[-1]
    v, t = ctx.args[0], ctx.argtys[0]
    src_opt = (t.get("path") == "std::option::Option") or (t.get("k") in ("ref", "rawptr") and eng.ty(t["to"]).get("path") == "std::option::Option")
    if name in ("ok_or", "ok_or_else"):
        table = {"Some": ("Ok", True), "None": ("Err", False)}
    elif name == "map_err":
        table = {"Ok": ("Ok", True), "Err": ("Err", False)}
    elif name == "map" or name == "and_then":
        table = {"Some": ("Some", False), "None": ("None", False)} if src_opt else {"Ok": ("Ok", False), "Err": ("Err", True)}
    elif name == "ok":
        table = {"Ok": ("Some", True), "Err": ("None", False)}
    elif name == "branch":
        table = {"Some": ("Continue", True), "None": ("Break", False)} if src_opt else {"Ok": ("Continue", True), "Err": ("Break", False)}
    elif name in ("as_ref", "as_mut", "as_deref", "as_deref_mut", "copied", "cloned", "take"):
        table = {"Some": ("Some", name in ("copied", "cloned", "take")), "None": ("None", False)} if src_opt else {"Ok": ("Ok", False), "Err": ("Err", False)}
    else:
        return None
    parts, et = split_enum(ctx, v, t, list(table))
    out = []
    for s2, vn, ppath in parts:
        dst, keep = table[vn]
        if keep:
            pty = payload_ty(eng, et, vn)
            payload = read_payload(eng, s2, ppath, pty)
            if payload[0] == "agg" and payload[1] is not None:
                # copy before the destination overwrites a possibly overlapping source
                pass
            set_variant(ctx, s2, dst, payload)
        else:
            set_variant(ctx, s2, dst)
        if name == "take" and v[0] == "ptr":
            vi, dv = variant_index(et, "None")
            eng.kill(s2, v[1])
            s2.env[v[1] + ("#d",)] = V_int(Lin.const(dv))
        out.append(s2)
    return out


def m_from_residual(ctx):
    t = ctx.dty
    bad = "None" if t.get("path") == "std::option::Option" else "Err"
    return [set_variant(ctx, ctx.st, bad)]


def m_is_variant(ctx):
    name = ctx.path.split("::")[-1]
    want = {"is_ok": "Ok", "is_err": "Err", "is_some": "Some", "is_none": "None"}[name]
    path, d, et = enum_discr(ctx, ctx.st, ctx.args[0], ctx.argtys[0])
    vi, dv = variant_index(et, want)
    if path is None or dv is None:
        return None
    return [ctx.ret(("bool", ("eq", d[1] - dv)))]


def m_then_some(ctx):
    eng, st = ctx.eng, ctx.st
    c = eng.as_cond(ctx.args[0])
    some, none = st.copy(), st
    if c is not None:
        eng.assume(some, c, True)
        eng.assume(none, c, False)
    set_variant(ctx, some, "Some", ctx.args[1])
    set_variant(ctx, none, "None")
    return [x for x in (some, none) if not x.dead]


# integers
def m_wrapping(ctx):
    return [ctx.ret_fresh()]


def m_saturating_sub(ctx):
    eng, st = ctx.eng, ctx.st
    a, b = eng.as_lin(st, ctx.args[0]), eng.as_lin(st, ctx.args[1])
    f = eng.fresh_int(ctx.dty, "sat")
    if a is not None:
        st.add(f - a)
    return [ctx.ret(V_int(f))]


def m_size_of(ctx):
    """std::mem::size_of::<T>() for the primitive integer types (a compile-time constant)."""
    args = (ctx.t.get("callee") or {}).get("args") or []
    if len(args) == 1 and args[0].get("ty") is not None:
        t = ctx.eng.ty(args[0]["ty"])
        if t.get("k") == "int" and t.get("bits") and not t.get("ptr"):
            return [ctx.ret(V_int(Lin.const(t["bits"] // 8)))]
        if t.get("k") == "int" and t.get("ptr"):
            return [ctx.ret(V_int(Lin.const(8)))]
    return None


def m_next_multiple_of(ctx):
    """x.next_multiple_of(k), k a positive constant: the least multiple of k that is >= x (panics on overflow in debug builds)."""
    eng, st = ctx.eng, ctx.st
    a, b = eng.as_lin(st, ctx.args[0]), eng.as_lin(st, ctx.args[1])
    f = eng.fresh_int(ctx.dty, "nmo")
    r = ty_range(ctx.dty)
    if a is not None and b is not None and b.is_const() and b.c > 0:
        k = b.c
        if r is not None:
            ctx.oblige(("le", a + (k - 1) - r[1]), "overflow:Add", "overflow-checks")
        st.add(a - f)
        st.add(f - a - (k - 1))
        if f.t and len(f.t) == 1:
            st.mod[f.t[0][0]] = (k, 0)
    elif b is not None and b.is_const() and b.c <= 0:
        ctx.oblige(("const", False), "div-by-zero", "always", "next_multiple_of(0) panics")
    return [ctx.ret(V_int(f))]


def m_checked(ctx):
    eng, st = ctx.eng, ctx.st
    name = ctx.path.split("::")[-1]
    a, b = eng.as_lin(st, ctx.args[0]), eng.as_lin(st, ctx.args[1])
    pty = payload_ty(eng, ctx.dty, "Some")
    r = ty_range(pty)
    res = None
    if a is not None and b is not None and r is not None:
        op = {"checked_add": "Add", "checked_sub": "Sub", "checked_mul": "Mul"}.get(name)
        if op:
            res = eng.arith(st, op, a, b, pty)
    hi_ok = lo_ok = False
    if res is not None and isinstance(res, Lin):
        hi_ok = bool(st.entails(res - r[1]))               # the mathematical result can never exceed the type
        lo_ok = bool(st.entails(Lin.const(r[0]) - res))    # ... never fall below it
    some, none = st.copy(), st
    if res is not None:
        some.add(res - r[1])
        some.add(Lin.const(r[0]) - res)
        set_variant(ctx, some, "Some", V_int(res))
        # None means the result left the type's range: on the one side it can leave it
        if isinstance(res, Lin):
            if hi_ok and lo_ok:
                none.dead = True
            elif hi_ok:
                none.add(res - Lin.const(r[0]) + 1)
            elif lo_ok:
                none.add(Lin.const(r[1]) + 1 - res)
    else:
        set_variant(ctx, some, "Some", eng.fresh_for(some, pty, "chk"))
    set_variant(ctx, none, "None")
    return [x for x in (some, none) if not x.dead]


def m_minmax(ctx):
    eng, st = ctx.eng, ctx.st
    a, b = eng.as_lin(st, ctx.args[0]), eng.as_lin(st, ctx.args[1])
    if a is None or b is None or ctx.dty.get("k") != "int":
        return None
    is_min = ctx.path.endswith("::min")
    # exact when one side is known to be the smaller
    if eng.holds(st, ("le", a - b), True):
        return [ctx.ret(V_int(a if is_min else b))]
    if eng.holds(st, ("le", b - a), True):
        return [ctx.ret(V_int(b if is_min else a))]
    f = eng.fresh_int(ctx.dty, "mm")
    if is_min:
        st.add(f - a)
        st.add(f - b)
        la_, lb_ = st.lower(a), st.lower(b)
        if la_ is not None and lb_ is not None and -INF not in (la_, lb_):
            st.add(Lin.const(min(la_, lb_)) - f)      # the result is one of the two: not below the smaller lower bound
    else:
        st.add(a - f)
        st.add(b - f)
        ua_, ub_ = st.upper(a), st.upper(b)
        if ua_ is not None and ub_ is not None and INF not in (ua_, ub_):
            st.add(f - max(ua_, ub_))                 # ... nor above the larger upper bound
    return [ctx.ret(V_int(f))]


def m_euclid(ctx):
    """x.rem_euclid(k) / x.div_euclid(k) for a positive constant k: x = k*q + r with 0 <= r < k (no panic for k > 0)."""
    eng, st = ctx.eng, ctx.st
    a, b = eng.as_lin(st, ctx.args[0]), eng.as_lin(st, ctx.args[1])
    if a is None or b is None or b.t or b.c <= 0:
        return None
    k = b.c
    q = Lin.sym(eng.new_sym("eq"))
    r = Lin.sym(eng.new_sym("er", 0, k - 1))
    st.add(q.scale(k) + r - a)
    st.add(a - q.scale(k) - r)
    return [ctx.ret(V_int(r if ctx.path.endswith("rem_euclid") else q))]


def m_leading_zeros(ctx):
    f = ctx.eng.fresh_int(ctx.dty, "lz")
    t = ctx.argtys[0] if ctx.argtys else {}
    bits = t.get("bits") if t.get("k") == "int" else None
    ctx.st.add(-f)
    if bits:
        ctx.st.add(f - bits)
    return [ctx.ret(V_int(f))]


def m_div_ceil(ctx):
    """x.div_ceil(k) for unsigned x and a positive constant k: k*(r - 1) < x <= k*r."""
    eng, st = ctx.eng, ctx.st
    a, b = eng.as_lin(st, ctx.args[0]), eng.as_lin(st, ctx.args[1])
    if a is None or b is None or b.t or b.c <= 0 or not eng.holds(st, ("le", -a), True):
        return None
    k = b.c
    r = Lin.sym(eng.new_sym("dc", 0, ISIZE_MAX))
    st.add(a - r.scale(k))
    st.add(r.scale(k) - a - (k - 1))
    return [ctx.ret(V_int(r))]


def m_to_bytes(ctx):
    return [ctx.ret(("agg", None))]


def m_ref_binop(ctx):
    """<&u8 as BitAnd<u8>>::bitand & co (operators on references to integers)."""
    eng, st = ctx.eng, ctx.st
    name = ctx.path.split("::")[-1]
    op = {"bitand": "BitAnd", "bitor": "BitOr", "bitxor": "BitXor", "div": "Div", "rem": "Rem", "add": "Add", "sub": "Sub", "mul": "Mul",
          "shl": "Shl", "shr": "Shr"}.get(name)
    if op is None:
        return None
    vals = []
    for v, t in zip(ctx.args, ctx.argtys):
        if v[0] == "ptr":
            to = eng.ty(t["to"]) if t.get("k") in ("ref", "rawptr") else {"k": "unknown"}
            x = eng.read(st, v[1], to, "deref")
            vals.append(eng.as_lin(st, x))
        else:
            vals.append(eng.as_lin(st, v))
    if None in vals or ctx.dty.get("k") != "int":
        return [ctx.ret_fresh()]
    a, b = vals
    if op in ("Div", "Rem"):
        ctx.oblige(("not", ("eq", b)), name + "_by_zero", "always")
    r = ty_range(ctx.dty)
    res = eng.arith(st, op, a, b, ctx.dty)
    if res is None:
        return [ctx.ret_fresh()]
    if op in ("Add", "Sub", "Mul"):
        ctx.oblige(("and", [("le", res - r[1]), ("le", Lin.const(r[0]) - res)]), name + "_overflow", "overflow-checks")
    return [ctx.ret(V_int(res))]


def m_int_from(ctx):
    """From/Into between integer types (lossless) and TryFrom."""
    eng, st = ctx.eng, ctx.st
    a = eng.as_lin(st, ctx.args[0])
    ft, tt = ctx.argtys[0], ctx.dty
    if a is not None and tt.get("k") == "int" and ft.get("k") in ("int", "bool"):
        return [ctx.ret(V_int(a))]
    return None


# unsafe pointers: a raw pointer value carries the number of elements that are in bounds from it
def m_as_ptr(ctx):
    L = ctx.len_of(0)
    if L is None:
        return [ctx.ret(("raw", Lin.sym(ctx.eng.new_sym("rem", 0, ISIZE_MAX))))]
    return [ctx.ret(("raw", L))]


def m_ptr_add(ctx):
    eng, st = ctx.eng, ctx.st
    p = ctx.args[0]
    k = eng.as_lin(st, ctx.args[1])
    if p[0] != "raw" or k is None:
        ctx.oblige(("const", False), "ptr_add", "unsafe", "pointer arithmetic on a pointer of unknown extent")
        return [ctx.ret_fresh()]
    ctx.oblige(("and", [("le", k - p[1]), ("le", -k)]), "ptr_add", "unsafe")
    st.add(k - p[1])
    return [ctx.ret(("raw", p[1] - k))]


def m_from_raw_parts(ctx):
    eng, st = ctx.eng, ctx.st
    p = ctx.args[0]
    n = eng.as_lin(st, ctx.args[1])
    if p[0] != "raw" or n is None:
        ctx.oblige(("const", False), "from_raw_parts", "unsafe", "slice built from a pointer of unknown extent")
        return [ctx.ret_fresh()]
    ctx.oblige(("and", [("le", n - p[1]), ("le", -n)]), "from_raw_parts", "unsafe")
    return [ctx.ret(("slice", eng.new_obj(), Lin.const(0), n))]


def m_copy_nonoverlapping(ctx):
    eng, st = ctx.eng, ctx.st
    src, dst = ctx.args[0], ctx.args[1]
    n = eng.as_lin(st, ctx.args[2])
    if src[0] != "raw" or dst[0] != "raw" or n is None:
        ctx.oblige(("const", False), "copy_nonoverlapping", "unsafe", "copy between pointers of unknown extent")
    else:
        ctx.oblige(("and", [("le", n - src[1]), ("le", n - dst[1])]), "copy_nonoverlapping", "unsafe")
    return [ctx.ret_fresh()]


def m_ptr_write(ctx):
    p = ctx.args[0]
    if p[0] == "raw":
        ctx.oblige(("le", Lin.const(1) - p[1]), "ptr_write", "unsafe")
    return [ctx.ret_fresh()]


def m_maybeuninit_ptr(ctx):
    # &mut MaybeUninit<T> -> *mut T : one element in bounds
    return [ctx.ret(("raw", Lin.const(1)))]


def m_assume_init(ctx):
    # MaybeUninit::<[MaybeUninit<u8>; N]>::uninit().assume_init() is the documented idiom for an array of
    # MaybeUninit; any other use is flagged
    s = ctx.dty.get("s", "")
    ok = s.startswith("[std::mem::MaybeUninit<")
    ctx.oblige(("const", ok), "assume_init", "unsafe", "assume_init on %s" % s)
    return [ctx.ret_fresh()]


def m_panic(ctx):
    ctx.oblige(("const", False), "panic", "always", "explicit panic / todo! / unreachable! is reachable")
    ctx.st.dead = True
    return []


def m_recv(ctx):
    """socket2::Socket::recv(&self, buf) -> io::Result<usize>: Ok(n) with n <= len(buf)."""
    eng, st = ctx.eng, ctx.st
    L = ctx.len_of(1)
    ok, err = st.copy(), st
    pty = payload_ty(eng, ctx.dty, "Ok")
    n = eng.fresh_int(pty if pty.get("k") == "int" else {"k": "int", "bits": 64, "signed": False}, "nrecv")
    if L is not None:
        ok.add(n - L)
    set_variant(ctx, ok, "Ok", V_int(n))
    set_variant(ctx, err, "Err")
    return [ok, err]


def m_with_capacity(ctx):
    # capacity overflow aborts with an allocation error (out of scope), no length
    st = ctx.ret_fresh()
    dp = ctx.dest_path(st)
    if dp is not None and ctx.dty.get("k") == "adt":
        st.env[dp + ("#len",)] = V_int(Lin.const(0))
    return [st]


def m_harmless(ctx):
    for v, ty in zip(ctx.args, ctx.argtys):
        ctx.eng.havoc_arg(ctx.st, v, ty)
    return [ctx.ret_fresh()]


def m_cow_to_vec_clone(ctx):
    """Clone of Vec / Cow keeps the length."""
    eng, st = ctx.eng, ctx.st
    v = ctx.args[0]
    st2 = ctx.ret_fresh()
    if v[0] == "ptr":
        L = st.env.get(v[1] + ("#len",))
        dp = ctx.dest_path(st2)
        if L is not None and dp is not None:
            st2.env[dp + ("#len",)] = L
    return [st2]


EXACT = {
    "core::slice::<impl [T]>::len": m_len,
    "core::str::<impl str>::len": m_len,
    "std::vec::Vec::<T, A>::len": m_len,
    "std::string::String::len": m_len,
    "core::slice::<impl [T]>::is_empty": m_is_empty,
    "std::vec::Vec::<T, A>::is_empty": m_is_empty,
    "core::str::<impl str>::is_empty": m_is_empty,
    "core::slice::index::<impl std::ops::Index<I> for [T]>::index": m_index,
    "core::slice::index::<impl std::ops::IndexMut<I> for [T]>::index_mut": m_index,
    "std::array::<impl std::ops::Index<I> for [T; N]>::index": m_index,
    "std::array::<impl std::ops::IndexMut<I> for [T; N]>::index_mut": m_index,
    "<std::vec::Vec<T, A> as std::ops::Index<I>>::index": m_index,
    "<std::vec::Vec<T, A> as std::ops::IndexMut<I>>::index_mut": m_index,
    "core::slice::<impl [T]>::get": m_get,
    "core::slice::<impl [T]>::get_mut": m_get,
    "core::slice::<impl [T]>::split_at": m_split_at, "core::slice::<impl [T]>::split_at_mut": m_split_at,
    "core::slice::<impl [T]>::copy_from_slice": m_same_len,
    "core::slice::<impl [T]>::clone_from_slice": m_same_len,
    "std::ops::RangeInclusive::<Idx>::contains": m_range_contains, "std::ops::Range::<Idx>::contains": m_range_contains,
    "core::slice::<impl [T]>::first": m_first_last,
    "core::slice::<impl [T]>::split_first": m_split_first_last, "core::slice::<impl [T]>::split_last": m_split_first_last,
    "core::slice::<impl [T]>::last": m_first_last,
    "core::slice::<impl [T]>::iter": m_slice_iter,
    "core::slice::<impl [T]>::iter_mut": m_slice_iter,
    "core::slice::<impl [T]>::to_vec": m_to_vec,
    "std::slice::<impl [T]>::to_vec": m_to_vec,
    "<T as std::borrow::ToOwned>::to_owned": m_to_vec,
    "core::slice::<impl [T]>::as_ptr": m_as_ptr,
    "core::slice::<impl [T]>::as_mut_ptr": m_as_ptr,
    "std::iter::Iterator::map": m_iter_adapter, "std::iter::Iterator::filter": m_iter_adapter, "std::iter::Iterator::rev": m_iter_adapter,
    "std::iter::Iterator::copied": m_iter_adapter, "std::iter::Iterator::cloned": m_iter_adapter, "std::iter::Iterator::skip": m_iter_adapter,
    "std::mem::size_of": m_size_of, "core::mem::size_of": m_size_of,
    "std::iter::Iterator::take": m_take, "std::iter::Iterator::zip": m_zip, "std::iter::Iterator::enumerate": m_enumerate,
    "<I as std::iter::IntoIterator>::into_iter": m_into_iter, "<std::vec::Vec<T, A> as std::iter::IntoIterator>::into_iter": m_into_iter,
    "std::iter::Iterator::count": m_count, "<std::iter::Filter<I, P> as std::iter::Iterator>::count": m_count,
    "std::iter::Iterator::collect": m_collect,
    "std::vec::Vec::<T>::new": m_vec_new, "<std::vec::Vec<T> as std::default::Default>::default": m_vec_new,
    "std::vec::Vec::<T>::with_capacity": m_with_capacity, "std::string::String::with_capacity": m_with_capacity,
    "std::vec::Vec::<T, A>::push": m_vec_push, "std::vec::Vec::<T, A>::extend_from_slice": m_vec_extend,
    "std::vec::from_elem": m_vec_from_elem,
    "std::vec::Vec::<T, A>::clear": m_vec_clear, "std::vec::Vec::<T, A>::truncate": m_vec_truncate,
    "<std::vec::Vec<T, A> as std::clone::Clone>::clone": m_cow_to_vec_clone, "<std::borrow::Cow<'_, B> as std::clone::Clone>::clone": m_cow_to_vec_clone,
    "<std::vec::Vec<T, A> as std::ops::Deref>::deref": m_deref_len, "<std::vec::Vec<T, A> as std::ops::DerefMut>::deref_mut": m_deref_len,
    "<std::borrow::Cow<'_, B> as std::ops::Deref>::deref": m_deref_len, "<std::string::String as std::ops::Deref>::deref": m_deref_len,
    "std::string::String::as_bytes": m_deref_len, "<std::string::String as std::convert::AsRef<[u8]>>::as_ref": m_deref_len,
    "std::array::<impl std::convert::AsRef<[T]> for [T; N]>::as_ref": m_deref_len,
    "<digest::generic_array::GenericArray<T, N> as std::ops::Deref>::deref": m_deref_len,
    "core::str::<impl str>::as_bytes": m_deref_len,
    "std::option::Option::<T>::unwrap": m_unwrap, "std::result::Result::<T, E>::unwrap": m_unwrap,
    "std::option::Option::<T>::expect": m_unwrap, "std::result::Result::<T, E>::expect": m_unwrap,
    "std::option::Option::<T>::unwrap_or": m_unwrap_or, "std::option::Option::<T>::unwrap_or_default": m_unwrap_or,
    "std::result::Result::<T, E>::unwrap_or": m_unwrap_or, "std::result::Result::<T, E>::unwrap_or_default": m_unwrap_or,
    "std::option::Option::<T>::ok_or": m_variant_map, "std::option::Option::<T>::ok_or_else": m_variant_map,
    "std::result::Result::<T, E>::map_err": m_variant_map, "std::result::Result::<T, E>::map": m_variant_map,
    "std::option::Option::<T>::map": m_variant_map, "std::result::Result::<T, E>::ok": m_variant_map,
    "<std::result::Result<T, E> as std::ops::Try>::branch": m_variant_map, "<std::option::Option<T> as std::ops::Try>::branch": m_variant_map,
    "std::option::Option::<T>::as_ref": m_variant_map, "std::option::Option::<T>::as_mut": m_variant_map,
    "std::option::Option::<T>::as_deref": m_variant_map, "std::option::Option::<T>::take": m_variant_map,
    "std::option::Option::<&T>::copied": m_variant_map, "std::option::Option::<&T>::cloned": m_variant_map,
    "<std::result::Result<T, F> as std::ops::FromResidual<std::result::Result<std::convert::Infallible, E>>>::from_residual": m_from_residual,
    "<std::option::Option<T> as std::ops::FromResidual<std::option::Option<std::convert::Infallible>>>::from_residual": m_from_residual,
    "std::result::Result::<T, E>::is_ok": m_is_variant, "std::result::Result::<T, E>::is_err": m_is_variant,
    "std::option::Option::<T>::is_some": m_is_variant, "std::option::Option::<T>::is_none": m_is_variant,
    "core::bool::<impl bool>::then_some": m_then_some,
    "std::cmp::Ord::min": m_minmax, "std::cmp::Ord::max": m_minmax,
    "std::ptr::const_ptr::<impl *const T>::add": m_ptr_add, "std::ptr::mut_ptr::<impl *mut T>::add": m_ptr_add,
    "std::slice::from_raw_parts": m_from_raw_parts, "std::slice::from_raw_parts_mut": m_from_raw_parts,
    "std::ptr::copy_nonoverlapping": m_copy_nonoverlapping,
    "std::ptr::mut_ptr::<impl *mut T>::write": m_ptr_write,
    "std::mem::MaybeUninit::<T>::as_mut_ptr": m_maybeuninit_ptr, "std::mem::MaybeUninit::<T>::as_ptr": m_maybeuninit_ptr,
    "std::mem::MaybeUninit::<T>::assume_init": m_assume_init,
    "socket2::Socket::recv": m_recv,
}


def lookup(path, c):
    if path is None:
        return None
    m = EXACT.get(path)
    if m is not None:
        return m
    if path.startswith("core::panicking::") or path.startswith("std::rt::begin_panic") or path in ("std::process::abort",):
        return m_panic
    last = path.split("::")[-1]
    if path.endswith("as std::iter::Iterator>::next") or path.endswith("as std::iter::DoubleEndedIterator>::next_back"):
        return m_next
    if path.startswith("std::iter::range::<impl std::iter::Iterator for std::ops::Range<") and last == "next":
        return m_next
    if last == "into_iter" and path.startswith("core::slice::iter::<impl std::iter::IntoIterator for &"):
        return m_into_iter
    if path.startswith("core::num::<impl ") or path.startswith("std::num::<impl ") or path.startswith("core::num::"):
        if last in ("rem_euclid", "div_euclid"):
            return m_euclid
        if last in ("leading_zeros", "trailing_zeros", "count_ones"):
            return m_leading_zeros
        if last == "div_ceil":
            return m_div_ceil
        if last.startswith("wrapping_") or last.startswith("overflowing_") or last in ("swap_bytes", "rotate_left", "rotate_right", "count_ones", "leading_zeros", "trailing_zeros", "reverse_bits"):
            return m_wrapping
        if last == "saturating_sub":
            return m_saturating_sub
        if last == "next_multiple_of":
            return m_next_multiple_of
        if last in ("checked_add", "checked_sub", "checked_mul"):
            return m_checked
        if last.startswith("to_") and last.endswith("_bytes"):
            return m_to_bytes
        if last.startswith("saturating_"):
            return m_wrapping
    if path.startswith("<&u8 as std::ops::") or path.startswith("<&u32 as std::ops::") or path.startswith("<&usize as std::ops::") or \
            path.startswith("<&'a u8 as std::ops::") or path.startswith("<u8 as std::ops::"):
        return m_ref_binop
    if path in ("<T as std::convert::Into<U>>::into", "<T as std::convert::From<T>>::from") or path.startswith("std::convert::num::"):
        return m_int_from
    if classify(path) == "harmless":
        return m_harmless
    return None
