"""In-memory model of the MIR facts produced by tools/mirfacts."""
import json
import os


def place_key(pl):
    """Hashable form of a place: (local, (proj, ...))."""
    proj = []
    for e in pl["p"]:
        if e == "deref":
            proj.append("deref")
        elif isinstance(e, str):
            proj.append(e)
        elif "field" in e:
            proj.append(("f", e["field"]))
        elif "index" in e:
            proj.append(("i", e["index"]))
        elif "const_index" in e:
            proj.append(("ci", e["const_index"], e["min_length"], e["from_end"]))
        elif "subslice" in e:
            proj.append(("sub", e["subslice"], e["to"], e["from_end"]))
        elif "downcast" in e:
            proj.append(("dc", e["downcast"]))
        else:
            proj.append(("?", json.dumps(e, sort_keys=True)))
    return (pl["l"], tuple(proj))


def op_place(op):
    if "copy" in op:
        return op["copy"]
    if "move" in op:
        return op["move"]
    return None


def op_const(op):
    return op.get("const")


def const_int(op):
    """Integer value of a constant operand, or None."""
    c = op.get("const") if op else None
    if not c:
        return None
    v = c.get("v") or {}
    if "int" in v:
        x = v["int"]
        return int(x)
    if "bool" in v:
        return 1 if v["bool"] else 0
    return None


class Block:
    __slots__ = ("idx", "stmts", "term", "cleanup")

    def __init__(self, idx, j):
        self.idx = idx
        self.cleanup = bool(j.get("cleanup"))
        self.stmts = j.get("stmts", [])
        self.term = j.get("term")

    def succs(self):
        t = self.term
        if t is None:
            return []
        k = t["k"]
        if k == "goto":
            return [t["target"]]
        if k == "switch":
            return [x[1] for x in t["targets"]] + [t["otherwise"]]
        if k in ("call", "assert", "drop"):
            return [t["target"]] if t.get("target") is not None else []
        return []

    def edges(self):
        """(target, label) pairs; label identifies the branch taken."""
        t = self.term
        if t is None:
            return []
        k = t["k"]
        if k == "switch":
            out = [(tg, ("case", v)) for v, tg in t["targets"]]
            out.append((t["otherwise"], ("otherwise",)))
            return out
        return [(s, ("next",)) for s in self.succs()]


class Body:
    def __init__(self, facts, j, mir=None, promoted_idx=None):
        self.facts = facts
        self.j = j
        self.path = j["path"]
        self.kind = j["kind"]
        self.name = j.get("name")
        self.file = j["span"]["file"]
        self.line = j["span"]["line"]
        self.from_expansion = j["span"]["exp"]
        self.parent = j.get("parent")
        self.impl_self = j.get("impl_self")
        self.impl_trait = j.get("impl_trait")
        self.impl_trait_args = j.get("impl_trait_args") or []
        self.impl_trait_full = j.get("impl_trait_full")
        self.trait_default_of = j.get("trait_default_of")
        self.dead = j.get("dead", False)
        self.helper = j.get("helper", False)                       # not a function of the reference tree
        self.inlined_everywhere = j.get("inlined_everywhere", False)  # every use is a direct call that was inlined
        self.unsafe = j.get("unsafe", False)
        m = mir if mir is not None else j["mir"]
        self.arg_count = m["arg_count"]
        self.locals = m["locals"]
        self.names = {}
        for n in m.get("names", []):
            pk = place_key(n["place"])
            self.names.setdefault(pk, n["name"])
        self.blocks = [Block(i, b) for i, b in enumerate(m["blocks"])]
        self.promoted = []
        if mir is None:
            self.promoted = [Body(facts, j, mir=p, promoted_idx=i) for i, p in enumerate(j.get("promoted", []))]
        self._preds = None

    # --- structure
    def live_blocks(self):
        return [b for b in self.blocks if not b.cleanup]

    def preds(self):
        if self._preds is None:
            p = {b.idx: [] for b in self.blocks}
            for b in self.live_blocks():
                for s in b.succs():
                    p[s].append(b.idx)
            self._preds = p
        return self._preds

    def local_ty(self, l):
        return self.facts.types[self.locals[l]["ty"]]

    def local_name(self, l):
        return self.names.get((l, ()), "_%d" % l)

    def calls(self):
        for b in self.live_blocks():
            if b.term and b.term["k"] == "call":
                yield b

    def returns(self):
        return [b.idx for b in self.live_blocks() if b.term and b.term["k"] == "return"]

    def loc(self, line=None):
        return "%s:%s" % (self.file, line if line else self.line)

    def __repr__(self):
        return "<Body %s>" % self.path


def callee_path(term):
    """Resolved callee path when rustc could resolve it, the declared path otherwise."""
    c = term["callee"]
    if "path" not in c:
        return None
    r = c.get("resolved")
    if r:
        return r["path"]
    return c["path"]


def callee_is_local(term):
    c = term["callee"]
    r = c.get("resolved")
    if r:
        return r["local"]
    return c.get("local", False)


class Facts:
    def __init__(self, path):
        with open(path) as fh:
            d = json.load(fh)
        from . import inline
        if os.environ.get("GSA_NO_INLINE") != "1":
            inline.apply(d)
        self.inlined = d.get("inlined", {})
        self.path = path
        self.crate = d["crate"]
        self.types = d["types"]
        self.bodies = {}
        self.body_list = []
        self.helper_bodies = {}
        for j in d["bodies"]:
            b = Body(self, j)
            if b.inlined_everywhere:
                # a helper introduced after the reference tree whose every use was inlined into its callers:
                # its code is analysed there, in context; on its own it is not part of the program any more
                self.helper_bodies[b.path] = b
                continue
            self.body_list.append(b)
            # paths are unique except for closures in generic contexts; keep first
            self.bodies.setdefault(b.path, b)
        self.consts = {c["path"]: c for c in d["consts"]}
        self.const_list = d["consts"]
        self.impls = d["impls"]
        self.aliases = {a["path"]: a for a in d["aliases"]}
        self.adts = {a["path"]: self.types[a["ty"]] for a in d["adts"]}
        # trait -> list of impl records
        self.trait_impls = {}
        for im in self.impls:
            if "trait" in im:
                self.trait_impls.setdefault(im["trait"], []).append(im)

    def ty(self, i):
        return self.types[i]

    def body(self, path):
        return self.bodies.get(path)

    def need(self, path):
        b = self.bodies.get(path)
        if b is None:
            raise MissingAnchor("function %s not found in the crate" % path)
        return b

    def find(self, suffix):
        return [b for b in self.body_list if b.path.endswith(suffix)]

    def const_value(self, path):
        c = self.consts.get(path)
        if c is None:
            raise MissingAnchor("constant %s not found" % path)
        v = c["v"]
        if v is None:
            return None
        if "int" in v:
            return int(v["int"])
        if "bool" in v:
            return v["bool"]
        if "mem" in v:
            return bytes(v["mem"])
        if "zst" in v:
            return b""
        return v

    def closures_of(self, path):
        return [b for b in self.body_list if b.kind == "Closure" and b.parent == path]

    def resolve_call(self, term, caller=None):
        """Return the list of local bodies a call may reach (CHA for unresolved trait calls)."""
        c = term["callee"]
        if "path" not in c:
            return []
        r = c.get("resolved")
        if r:
            b = self.bodies.get(r["path"]) if r["local"] else None
            return [b] if b else []
        # unresolved: trait method in a generic context
        tr = c.get("trait")
        if not tr:
            b = self.bodies.get(c["path"]) if c.get("local") else None
            return [b] if b else []
        meth = c.get("method")
        out = []
        # generic args of the trait ref beyond Self
        targs = [a.get("s") for a in c.get("args", [])]
        for im in self.trait_impls.get(tr, []):
            for it in im["items"]:
                if it["name"] == meth and it["kind"] == "AssocFn":
                    b = self.bodies.get(it["path"])
                    if b is not None and self._trait_args_compatible(im, targs):
                        out.append(b)
        # default method of the trait itself
        d = self.bodies.get(c["path"])
        if d is not None and d not in out:
            # keep the default only when some impl does not override it
            overriding = {b.impl_self for b in out}
            all_impls = {im["self"] for im in self.trait_impls.get(tr, [])}
            if not out or (all_impls - overriding):
                out.append(d)
        return out

    @staticmethod
    def _trait_args_compatible(im, call_args):
        """Filter impls of generic traits (TryFrom<&[u8]> vs TryFrom<&str>) by the non-Self type args."""
        ia = [a.get("s") for a in im.get("trait_args", [])][1:]
        ca = call_args[1:1 + len(ia)]
        for x, y in zip(ia, ca):
            if x is None or y is None:
                continue
            # a type parameter or projection on either side matches anything
            if _is_generic_name(x) or _is_generic_name(y):
                continue
            if _strip_lt(x) != _strip_lt(y):
                return False
        return True


def _is_generic_name(s):
    return (len(s) <= 2 and s[:1].isupper()) or s.startswith("<") or "::" not in s and s[:1].isupper() and s.isalnum() and len(s) <= 3


def _strip_lt(s):
    import re
    return re.sub(r"'[a-z_0-9]+ ?", "", s).replace("& ", "&")


class MissingAnchor(Exception):
    pass
