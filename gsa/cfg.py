"""CFG utilities over a facts.Body (unwind edges are not part of the model)."""


def successors(body, b, cut=None):
    """Successor blocks of b, skipping edges in `cut` (set of (src, dst) or (src, dst, label))."""
    out = []
    for tgt, label in body.blocks[b].edges():
        if cut and ((b, tgt) in cut or (b, tgt, label) in cut):
            continue
        out.append(tgt)
    return out


def reachable(body, starts, cut=None, stop=None):
    """Blocks reachable from `starts` (inclusive) without crossing `cut` edges or leaving `stop` blocks."""
    seen = set()
    work = list(starts)
    while work:
        b = work.pop()
        if b in seen:
            continue
        seen.add(b)
        if stop and b in stop:
            continue
        for s in successors(body, b, cut):
            if s not in seen:
                work.append(s)
    return seen


def find_path(body, starts, goals, cut=None):
    """A shortest path (list of blocks) from any start to any goal avoiding cut edges, or None."""
    from collections import deque
    goals = set(goals)
    prev = {}
    dq = deque()
    for s in starts:
        prev[s] = None
        dq.append(s)
    while dq:
        b = dq.popleft()
        if b in goals:
            path = []
            while b is not None:
                path.append(b)
                b = prev[b]
            return list(reversed(path))
        for s in successors(body, b, cut):
            if s not in prev:
                prev[s] = b
                dq.append(s)
    return None


def rpo(body, entry=0):
    seen = set()
    order = []
    # iterative DFS post-order
    stack = [(entry, iter(body.blocks[entry].succs()))]
    seen.add(entry)
    while stack:
        b, it = stack[-1]
        adv = False
        for s in it:
            if s not in seen and not body.blocks[s].cleanup:
                seen.add(s)
                stack.append((s, iter(body.blocks[s].succs())))
                adv = True
                break
        if not adv:
            order.append(b)
            stack.pop()
    order.reverse()
    return order


def dominators(body, entry=0):
    """Immediate-dominator-free formulation: dom[b] = set of dominators of b."""
    order = rpo(body, entry)
    preds = body.preds()
    allb = set(order)
    dom = {b: set(allb) for b in order}
    dom[entry] = {entry}
    changed = True
    while changed:
        changed = False
        for b in order:
            if b == entry:
                continue
            ps = [p for p in preds[b] if p in dom]
            if not ps:
                continue
            new = set.intersection(*[dom[p] for p in ps]) | {b}
            if new != dom[b]:
                dom[b] = new
                changed = True
    return dom


def back_edges(body, entry=0):
    dom = dominators(body, entry)
    out = []
    for b in dom:
        for s in body.blocks[b].succs():
            if s in dom.get(b, ()):  # s dominates b
                out.append((b, s))
    return out


def natural_loops(body, entry=0):
    """dict head -> set of blocks in the loop (union over back edges to that head)."""
    preds = body.preds()
    loops = {}
    for (t, h) in back_edges(body, entry):
        blocks = loops.setdefault(h, {h})
        work = [t]
        while work:
            b = work.pop()
            if b in blocks:
                continue
            blocks.add(b)
            for p in preds[b]:
                if not body.blocks[p].cleanup:
                    work.append(p)
    return loops


def must_pass(body, starts, goals, cut):
    """True when every path from starts to goals crosses an edge in `cut`
    (decided by deleting `cut` and testing reachability)."""
    r = reachable(body, starts, cut=cut)
    return not (r & set(goals))
