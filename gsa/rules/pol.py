"""C19: the slot arithmetic of RPSPolicer.get_timeout, decided as an inductive invariant in linear integer arithmetic.

Every path of get_timeout (gsa/pysym) is a guarded command over ts (the clock), P (the slot self._prev before the call)
and D (the interval self._delta, D >= 1):   conds  ->  P' := f(ts, P, D) ; return r(ts, P, D)   (None counts as 0).
With R = ts + r the moment of release, the rule proves on every path that is feasible under the property's premises
(monotonic clock, each request asked for after the previous one was released, i.e. ts >= R_prev >= P):

   (delay)    0 <= r <= D                 a request is never delayed by more than one interval
   (booked)   P' <= R                      the slot booked is not later than the release
   (tight)    R <  P' + D                  ... and the release lies within the booked slot
   (advance)  P' >= P + D                  every call books a later slot             (not for the first call)

(booked) re-establishes the premise ts_next >= R >= P' for the next call.  From the four, for releases R_i with slots
S_i:  R_{i+k} >= S_{i+k} >= S_i + k*D > R_i - D + k*D, i.e. any k+1 consecutive releases span more than (k-1)/rps.
Entailment is decided with the exact rational simplex of gsa/lin (the engine of `num`); floor division by the interval is
modelled by M = D*(X // D) with  M <= X <= M + D - 1  and  M >= D when X >= D is entailed; min/max and != split cases.
An expression or condition outside this fragment makes the rule inconclusive (never a violation)."""
import ast

from .. import pysym
from ..lin import Lin, lp_max, INF
from . import py as R


class Untranslatable(Exception):
    pass


class _Tr:
    def __init__(self, consts):
        self.consts = consts
        self.msyms = {}  # Lin X -> symbol name of D*(X//D)

    def m_of(self, x):
        if x not in self.msyms:
            self.msyms[x] = "M%d" % len(self.msyms)
        return Lin.sym(self.msyms[x])

    def axioms(self):
        out = []
        d = Lin.sym("D")
        for x, m in self.msyms.items():
            ml = Lin.sym(m)
            out.append(ml - x)            # M <= X
            out.append(x - ml - d + 1)    # X <= M + D - 1
        return out

    def alts(self, node, cur):
        """[(Lin, [side constraints])] for an integer expression."""
        if isinstance(node, ast.Constant):
            if node.value is None:
                return [(Lin.const(0), [])]
            if isinstance(node.value, bool) or not isinstance(node.value, int):
                raise Untranslatable(ast.unparse(node))
            return [(Lin.const(node.value), [])]
        if isinstance(node, ast.Name):
            if node.id == "ts":
                return [(Lin.sym("ts"), [])]
            if node.id in self.consts and isinstance(self.consts[node.id], int) and not isinstance(self.consts[node.id], bool):
                return [(Lin.const(self.consts[node.id]), [])]
            if node.id in ("None",):
                return [(Lin.const(0), [])]
            # an unresolved local is not an arbitrary value
            raise Untranslatable("unresolved name %s" % node.id)
        if isinstance(node, ast.Attribute):
            t = ast.unparse(node)
            if t == "self._prev":
                return [(cur, [])]
            if t == "self._delta":
                return [(Lin.sym("D"), [])]
            return [(Lin.sym("v:" + t), [])]
        if isinstance(node, ast.Call):
            f = ast.unparse(node.func)
            if f == "old" and len(node.args) == 1 and ast.unparse(node.args[0]) == "self._prev":
                return [(Lin.sym("P"), [])]
            if f == "old" and len(node.args) == 1:
                return self.alts(node.args[0], cur)
            if f == "int" and len(node.args) == 1:
                return self.alts(node.args[0], cur)
            if f in ("min", "max") and len(node.args) == 2 and not node.keywords:
                out = []
                for a, ca in self.alts(node.args[0], cur):
                    for b, cb in self.alts(node.args[1], cur):
                        lo, hi = (a, b) if f == "min" else (b, a)
                        out.append((a, ca + cb + [lo - hi]))      # a is the result: a <= b (min) / b <= a (max)
                        lo, hi = (b, a) if f == "min" else (a, b)
                        out.append((b, ca + cb + [lo - hi]))
                return out
            raise Untranslatable(ast.unparse(node))
        if isinstance(node, ast.UnaryOp) and isinstance(node.op, ast.USub):
            return [(-a, c) for a, c in self.alts(node.operand, cur)]
        if isinstance(node, ast.UnaryOp) and isinstance(node.op, ast.UAdd):
            return self.alts(node.operand, cur)
        if isinstance(node, ast.BinOp):
            if isinstance(node.op, (ast.Add, ast.Sub)):
                out = []
                for a, ca in self.alts(node.left, cur):
                    for b, cb in self.alts(node.right, cur):
                        out.append(((a + b) if isinstance(node.op, ast.Add) else (a - b), ca + cb))
                return out
            if isinstance(node.op, ast.Mult):
                return self._mult(node.left, node.right, cur)
            if isinstance(node.op, ast.Mod):
                out = []
                for x, cx in self.alts(node.left, cur):
                    for d, cd in self.alts(node.right, cur):
                        if d != Lin.sym("D"):
                            raise Untranslatable(ast.unparse(node))
                        out.append((x - self.m_of(x), cx + cd))
                return out
        raise Untranslatable(ast.unparse(node))

    def _quot(self, node, cur):
        """node is X // D (possibly inside min/max with constants): alternatives of D * node."""
        d = Lin.sym("D")
        if isinstance(node, ast.BinOp) and isinstance(node.op, ast.FloorDiv):
            out = []
            for x, cx in self.alts(node.left, cur):
                for dd, cd in self.alts(node.right, cur):
                    if dd != d:
                        raise Untranslatable(ast.unparse(node))
                    out.append((self.m_of(x), cx + cd))
            return out
        if isinstance(node, ast.Call) and ast.unparse(node.func) in ("min", "max") and len(node.args) == 2 and not node.keywords:
            f = ast.unparse(node.func)
            out = []
            for a, ca in self._quot(node.args[0], cur):
                for b, cb in self._quot(node.args[1], cur):
                    lo, hi = (a, b) if f == "min" else (b, a)
                    out.append((a, ca + cb + [lo - hi]))
                    lo, hi = (b, a) if f == "min" else (a, b)
                    out.append((b, ca + cb + [lo - hi]))
            return out
        if isinstance(node, ast.Call) and ast.unparse(node.func) == "int" and len(node.args) == 1:
            return self._quot(node.args[0], cur)
        if isinstance(node, ast.BinOp) and isinstance(node.op, (ast.Add, ast.Sub)):
            return [((a + b) if isinstance(node.op, ast.Add) else (a - b), ca + cb)
                    for a, ca in self._quot(node.left, cur) for b, cb in self._quot(node.right, cur)]
        # a constant number of intervals
        al = self.alts(node, cur)
        if all(a.is_const() for a, _ in al):
            return [(d.scale(a.c), c) for a, c in al]
        raise Untranslatable(ast.unparse(node))

    def _mult(self, l, r, cur):
        d = Lin.sym("D")
        for a, b in ((l, r), (r, l)):
            try:
                al = self.alts(a, cur)
            except Untranslatable:
                continue
            if all(x.is_const() for x, _ in al):
                try:
                    return [(y.scale(x.c), cx + cy) for x, cx in al for y, cy in self.alts(b, cur)]
                except Untranslatable:
                    pass
            if len(al) == 1 and al[0][0] == d:
                return [(q, al[0][1] + cq) for q, cq in self._quot(b, cur)]
        raise Untranslatable("%s * %s" % (ast.unparse(l), ast.unparse(r)))

    def cond(self, text, truth, cur):
        """Alternatives (lists of constraints `lin <= 0`) under which the condition has this truth value."""
        node = ast.parse(text, mode="eval").body
        while isinstance(node, ast.UnaryOp) and isinstance(node.op, ast.Not):
            node, truth = node.operand, not truth
        if isinstance(node, ast.Compare) and len(node.ops) == 1:
            op = node.ops[0]
            out = []
            for a, ca in self.alts(node.left, cur):
                for b, cb in self.alts(node.comparators[0], cur):
                    k = type(op)
                    if not truth:
                        k = {ast.Lt: ast.GtE, ast.LtE: ast.Gt, ast.Gt: ast.LtE, ast.GtE: ast.Lt, ast.Eq: ast.NotEq, ast.NotEq: ast.Eq}.get(k)
                    if k is ast.Lt:
                        out.append(ca + cb + [a - b + 1])
                    elif k is ast.LtE:
                        out.append(ca + cb + [a - b])
                    elif k is ast.Gt:
                        out.append(ca + cb + [b - a + 1])
                    elif k is ast.GtE:
                        out.append(ca + cb + [b - a])
                    elif k is ast.Eq:
                        out.append(ca + cb + [a - b, b - a])
                    elif k is ast.NotEq:
                        out.append(ca + cb + [a - b + 1])
                        out.append(ca + cb + [b - a + 1])
                    else:
                        raise Untranslatable(text)
            return out
        if isinstance(node, (ast.BinOp, ast.Name, ast.Attribute, ast.Call)):
            # truthiness of an integer
            out = []
            for a, ca in self.alts(node, cur):
                if truth:
                    out.append(ca + [a + 1])
                    out.append(ca + [Lin.const(1) - a])
                else:
                    out.append(ca + [a, -a])
            return out
        raise Untranslatable(text)


def _first_marker(text):
    t = text.replace(" ", "")
    return t in ("eq(None,old(self._prev))", "eq(None,self._prev)", "eq(old(self._prev),None)", "eq(self._prev,None)")


def _entails(cons, lo, expr):
    v = lp_max(expr, cons, lo, {})
    return v is None or (v != INF and v <= 0), v


def invariant(ctx, rep, rule):
    py = ctx.py
    ps = R.paths(ctx, rep, rule, "policer", "RPSPolicer", "get_timeout")
    if not ps:
        return
    node = R.fn_node(ctx, "policer", "RPSPolicer", "get_timeout")
    where = py.loc("policer", node)
    consts = py.module_consts("policer")
    d, p0, ts = Lin.sym("D"), Lin.sym("P"), Lin.sym("ts")
    lo = {"D": 1}
    names = {"delay>=0": "0 <= delay", "delay<=D": "delay <= interval", "booked": "slot <= release", "tight": "release < slot + interval",
             "advance": "slot advances by at least one interval"}
    proved = {k: 0 for k in names}
    failed = {}
    n_feasible = 0
    seen = set()
    try:
        for p in ps:
            key = (p.conds, tuple(e.value for i, e in R.stores(p, "self._prev")), pysym.text(p.ret) if p.ret is not None else None, p.done)
            if key in seen:
                continue
            seen.add(key)
            tr = _Tr(consts)
            first = None
            rest = []
            for text, truth in p.conds:
                if _first_marker(text):
                    first = truth
                else:
                    rest.append((text, truth))
            if first is None:
                raise Untranslatable("a path does not test whether a slot was booked before (self._prev is None)")
            sts = R.stores(p, "self._prev")
            if len(sts) > 1 and any("old(" in e.value for i, e in sts):
                raise Untranslatable("several updates of self._prev on one path")
            # slot update, in order; a bare self._prev inside a stored value is the value before that store
            curs = [(p0, [])]
            for i, e in sts:
                nxt = []
                for cur, cc in curs:
                    for v, cv in tr.alts(ast.parse(e.value, mode="eval").body, cur):
                        nxt.append((v, cc + cv))
                curs = nxt
            for cur, cc in curs:
                ralts = tr.alts(ast.parse(pysym.text(p.ret), mode="eval").body, cur) if p.ret is not None else [(Lin.const(0), [])]
                calts = [[]]
                for text, truth in rest:
                    ca = tr.cond(text, truth, cur)
                    calts = [x + y for x in calts for y in ca]
                    if len(calts) > 64:
                        raise Untranslatable("too many cases")
                for r, cr in ralts:
                    for cnd in calts:
                        cons = list(cc) + list(cr) + list(cnd)
                        if not first:
                            cons.append(p0 - ts)  # premise: ts >= previous release >= P
                        cons += tr.axioms()
                        # M >= D when X >= D is entailed (q >= 1), M >= 0 when X >= 0 is entailed
                        for x, m in tr.msyms.items():
                            if _entails(cons, lo, d - x)[0]:
                                cons.append(d - Lin.sym(m))
                            elif _entails(cons, lo, -x)[0]:
                                cons.append(-Lin.sym(m))
                        if lp_max(Lin.const(0), cons, lo, {}) is None:
                            continue  # outside the premises (e.g. the clock stepped back)
                        n_feasible += 1
                        if p.done == "raise":
                            failed.setdefault("raises", "get_timeout raises %s under %s although the clock is monotonic" % (p.raised, list(p.conds)))
                            continue
                        rel = ts + r
                        obs = [("delay>=0", -r), ("delay<=D", r - d), ("booked", cur - rel), ("tight", rel - cur - d + 1)]
                        if not first:
                            obs.append(("advance", p0 + d - cur))
                        for k, expr in obs:
                            ok, v = _entails(cons, lo, expr)
                            if ok:
                                proved[k] += 1
                            else:
                                failed.setdefault(k, "under %s (slot := %s ; delay %s) `%s` is not entailed (it can fail by %s ns)" % (
                                    [("%s" if tv else "not (%s)") % R.strip_old(t) for t, tv in p.conds], [R.strip_old(e.value) for i, e in sts] or "unchanged",
                                    R.strip_old(pysym.text(p.ret)) if p.ret is not None else "None", names[k], "unboundedly many" if v == INF else v))
    except Untranslatable as e:
        rep.inconclusive(rule, "RPSPolicer.get_timeout|slot-invariant", "outside the linear fragment (%s): the slot invariant is not decided" % e, where)
        return
    except (SyntaxError, ValueError) as e:
        rep.inconclusive(rule, "RPSPolicer.get_timeout|slot-invariant", "expression not parsed (%s)" % e, where)
        return
    if not n_feasible:
        rep.missing(rule, "RPSPolicer.get_timeout: a feasible path")
        return
    for k in list(names) + ["raises"]:
        if k in failed:
            rep.violation(rule, "RPSPolicer.get_timeout|slot-invariant:" + k, failed[k], where, obligation=True)
        elif k in names:
            rep.ok(rule, "RPSPolicer.get_timeout|slot-invariant:" + k, "%s on all %d feasible cases" % (names[k], proved[k]), where)


# ----------------------------------------------------------------------------- the interval itself
_BASE = r"int\((?:NS|1000000000(?:\.0)?|1e9) //? \(?rps\)?\)"


class _Ti:
    """Integer expressions over d0 = int(NS / rps) and constants: + - , * and // and % by positive constants, `a or b`,
    min / max.  alts() -> [(Lin, [constraints])]."""

    def __init__(self, consts):
        self.consts = consts
        self.n = 0

    def fresh(self, p):
        self.n += 1
        return Lin.sym("%s%d" % (p, self.n))

    def alts(self, node):
        if isinstance(node, ast.Constant) and isinstance(node.value, int) and not isinstance(node.value, bool):
            return [(Lin.const(node.value), [])]
        if isinstance(node, ast.Name):
            if node.id == "d0":
                return [(Lin.sym("d0"), [])]
            v = self.consts.get(node.id)
            if isinstance(v, int) and not isinstance(v, bool):
                return [(Lin.const(v), [])]
            if isinstance(v, float) and v == int(v):
                return [(Lin.const(int(v)), [])]
            raise Untranslatable(node.id)
        if isinstance(node, ast.Call) and ast.unparse(node.func) == "int" and len(node.args) == 1:
            return self.alts(node.args[0])
        if isinstance(node, ast.Call) and ast.unparse(node.func) in ("min", "max") and len(node.args) == 2:
            f = ast.unparse(node.func)
            out = []
            for a, ca in self.alts(node.args[0]):
                for b, cb in self.alts(node.args[1]):
                    lo, hi = (a, b) if f == "min" else (b, a)
                    out.append((a, ca + cb + [lo - hi]))
                    out.append((b, ca + cb + [hi - lo]))
            return out
        if isinstance(node, ast.BoolOp) and isinstance(node.op, ast.Or) and len(node.values) == 2:
            out = []
            for a, ca in self.alts(node.values[0]):
                out.append((a, ca + [Lin.const(1) - a]))      # a >= 1: truthy
                out.append((a, ca + [a + 1]))                  # a <= -1: truthy
                for b, cb in self.alts(node.values[1]):
                    out.append((b, ca + cb + [a, -a]))         # a == 0: the other operand
            return out
        if isinstance(node, ast.UnaryOp) and isinstance(node.op, ast.USub):
            return [(-a, c) for a, c in self.alts(node.operand)]
        if isinstance(node, ast.BinOp):
            if isinstance(node.op, (ast.Add, ast.Sub)):
                return [((a + b) if isinstance(node.op, ast.Add) else (a - b), ca + cb) for a, ca in self.alts(node.left) for b, cb in self.alts(node.right)]
            if isinstance(node.op, ast.Mult):
                out = []
                for a, ca in self.alts(node.left):
                    for b, cb in self.alts(node.right):
                        if not b.t:
                            out.append((a.scale(b.c), ca + cb))
                        elif not a.t:
                            out.append((b.scale(a.c), ca + cb))
                        else:
                            raise Untranslatable(ast.unparse(node))
                return out
            if isinstance(node.op, (ast.FloorDiv, ast.Mod)):
                out = []
                for a, ca in self.alts(node.left):
                    for b, cb in self.alts(node.right):
                        if b.t or b.c <= 0:
                            raise Untranslatable(ast.unparse(node))
                        q = self.fresh("q")
                        cons = ca + cb + [q.scale(b.c) - a, a - q.scale(b.c) - (b.c - 1)]
                        out.append((q if isinstance(node.op, ast.FloorDiv) else a - q.scale(b.c), cons))
                return out
        raise Untranslatable(ast.unparse(node))


def interval(ctx, rep, rule):
    """The interval stored by RPSPolicer.__init__ is int(NS / rps) itself: any rounding of it (to a grid, to a minimum, to a
    maximum) makes the limiter faster than rps when it shortens the interval and delays a request by more than 1/rps when
    it lengthens it.  Decided in linear integer arithmetic over d0 = int(NS / rps) >= 1 (exact simplex of gsa/lin)."""
    import re
    py = ctx.py
    ps = R.paths(ctx, rep, rule, "policer", "RPSPolicer", "__init__")
    if not ps:
        return
    node = R.fn_node(ctx, "policer", "RPSPolicer", "__init__")
    where = py.loc("policer", node)
    consts = py.module_consts("policer")
    seen = set()
    for p in ps:
        if p.done == "raise":
            continue
        d = [e.value for i, e in R.stores(p, "self._delta")]
        if not d or d[-1] in seen:
            continue
        seen.add(d[-1])
        v = re.sub(_BASE, "d0", d[-1])
        key = "RPSPolicer.__init__|interval is int(NS / rps)"
        if v == "d0":
            rep.ok(rule, key, "self._delta = int(NS / rps)", where, obligation=True)
            continue
        if "d0" not in v:
            continue   # another formula altogether: C19.core speaks about it
        try:
            alts = _Ti(consts).alts(ast.parse(v, mode="eval").body)
        except (Untranslatable, SyntaxError) as e:
            rep.inconclusive(rule, key, "self._delta = %s: outside the linear fragment (%s)" % (d[-1], e), where)
            continue
        d0 = Lin.sym("d0")
        worst = None
        for a, cons in alts:
            lo = {"d0": 1}
            if lp_max(Lin.const(0), cons, lo, {}) is None:
                continue
            for name, expr in (("shorter", d0 - a), ("longer", a - d0)):
                m = lp_max(expr, cons, lo, {})
                if m is not None and (m == INF or m > 0):
                    worst = worst or (name, m)
        if worst is None:
            rep.ok(rule, key, "self._delta = %s equals int(NS / rps)" % d[-1], where, obligation=True)
        else:
            rep.violation(rule, key, "self._delta = %s can be %s than int(NS / rps) (by %s ns): the limiter then %s" % (
                d[-1], worst[0], "any amount of" if worst[1] == INF else worst[1],
                "releases requests faster than rps" if worst[0] == "shorter" else "delays a request by more than one interval 1/rps"), where, obligation=True)

