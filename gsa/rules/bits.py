"""Bit-field composition: where a value is put together from shifted pieces (`(acc << 8) | x`, `(b << 7) + (c & 0x7f)`,
`(x << 14) | (y << 7) | z`), the pieces do not overlap.  Each operand gets the set of bit positions it can occupy, computed
on the MIR: a constant occupies its one bits, `x & m` the bits of m that x can occupy, `x << k` those of x moved up by k, a
cast from an unsigned n-bit type at most n bits, a variable at most the width of its type.  An `|` or `+` one of whose
sides contains a constant left shift must have disjoint sides; otherwise a piece spills into its neighbour (a continuation
bit ORed into bit 14 of a sub-identifier) and the composed number is wrong for the inputs that set the shared bit."""
from .. import flow
from ..facts import callee_path


def _defs(body):
    out = {}
    for blk in body.live_blocks():
        for st in blk.stmts:
            if st["k"] == "assign" and not st["place"]["p"]:
                out.setdefault(st["place"]["l"], []).append(st["rv"])
        t = blk.term
        if t and t["k"] == "call" and not t["dest"]["p"]:
            out.setdefault(t["dest"]["l"], []).append(("call", t))
    return out


def _width(facts, tyidx):
    t = facts.types[tyidx] if tyidx is not None else {}
    if t.get("k") == "int":
        return t["bits"], bool(t.get("signed"))
    if t.get("k") == "bool":
        return 1, False
    return None, False


class Occ:
    def __init__(self, body):
        self.body = body
        self.facts = body.facts
        self.defs = _defs(body)
        self.has_shl = {}

    def operand(self, op, depth=0):
        """(bit mask of positions that may be set, contains a constant left shift) or (None, False) when unknown."""
        if "const" in op:
            v = (op["const"].get("v") or {})
            if "int" in v and isinstance(v["int"], int) and v["int"] >= 0:
                return v["int"], False
            if "bool" in v:
                return (1 if v["bool"] else 0), False
            return None, False
        pl = op.get("move") or op.get("copy")
        if pl is None:
            return None, False
        if pl["p"]:
            # a field of a checked-arithmetic pair `(_t.0)`: the value of the operation
            if len(pl["p"]) == 1 and isinstance(pl["p"][0], dict) and pl["p"][0].get("field") == 0:
                return self.local(pl["l"], depth, pair=True)
            w, signed = _width(self.facts, pl.get("ty"))
            return ((1 << w) - 1 if w and not signed else None), False
        return self.local(pl["l"], depth)

    def local(self, l, depth, pair=False):
        ty = self.body.locals[l]["ty"]
        w, signed = _width(self.facts, ty)
        full = ((1 << w) - 1) if (w and not signed) else None
        ds = self.defs.get(l, [])
        if 0 < l <= self.body.arg_count:
            return None, False   # a parameter: what it can hold is the caller's business (fold closures get widened octets)
        if depth <= 10 and len(ds) == 1 and isinstance(ds[0], tuple):
            # u64::from(x) / x.into(): the value of the (narrower) argument
            t = ds[0][1]
            cp = callee_path(t) or ""
            if cp.split("::")[-1] in ("from", "into") and len(t["args"]) == 1 and ("convert::From" in cp or "convert::Into" in cp or "convert::num" in cp):
                m, sh = self.operand(t["args"][0], depth + 1)
                if m is not None:
                    return (m & full if full is not None else m), sh
        if depth > 10 or len(ds) != 1 or isinstance(ds[0], tuple):
            return (None if pair else full), False
        rv = ds[0]
        k = rv["k"]
        if k == "use":
            return self.operand(rv["op"], depth + 1)
        if k == "cast" and rv.get("ck") == "IntToInt":
            fw, fs = _width(self.facts, rv.get("from"))
            tw, ts = _width(self.facts, rv.get("to"))
            m, sh = self.operand(rv["op"], depth + 1)
            if fw and not fs:
                lim = (1 << min(fw, tw or fw)) - 1
                return (lim if m is None else (m & lim)), sh
            if m is not None and tw:
                return m & ((1 << tw) - 1), sh
            return None, sh
        if k == "bin":
            op = (rv.get("op") or "").replace("WithOverflow", "").replace("Unchecked", "")
            a, sa = self.operand(rv["a"], depth + 1)
            b, sb = self.operand(rv["b"], depth + 1)
            tw, ts = _width(self.facts, rv["a"].get("copy", rv["a"].get("move", {})).get("ty") if isinstance(rv["a"], dict) else None)
            if op == "BitAnd":
                if a is not None and b is not None:
                    return a & b, sa or sb
                return (a if b is None else b), sa or sb
            if op == "Shl" and "const" in rv["b"]:
                kk = (rv["b"]["const"].get("v") or {}).get("int")
                if isinstance(kk, int) and a is not None:
                    m = a << kk
                    if full is not None:
                        m &= full
                    elif pair:
                        pass
                    return m, True
                return None, True
            if op == "Shr" and "const" in rv["b"]:
                kk = (rv["b"]["const"].get("v") or {}).get("int")
                if isinstance(kk, int) and a is not None:
                    return a >> kk, sa
                return None, sa
            if op in ("BitOr", "BitXor", "Add"):
                if a is not None and b is not None and op != "Add":
                    return a | b, sa or sb
                if a is not None and b is not None and (a & b) == 0:
                    return a | b, sa or sb
                return None, sa or sb
            return None, False
        return (None if pair else full), False


def compose(ctx, rep, rule):
    facts = ctx.facts
    n = 0
    for body in facts.body_list:
        if not (body.path.startswith("ber::") or body.path.startswith("<ber::") or body.path.startswith("snmp::") or body.path.startswith("<snmp::")):
            continue
        occ = None
        for blk in body.live_blocks():
            for st in blk.stmts:
                if not (st["k"] == "assign" and st["rv"]["k"] == "bin"):
                    continue
                op = (st["rv"].get("op") or "").replace("WithOverflow", "").replace("Unchecked", "")
                if op not in ("BitOr", "Add", "BitXor"):
                    continue
                occ = occ or Occ(body)
                a, sa = occ.operand(st["rv"]["a"])
                b, sb = occ.operand(st["rv"]["b"])
                if not (sa or sb):
                    continue
                n += 1
                key = "%s|pieces of %s at line %s" % (body.path, op, "")
                if a is None or b is None:
                    continue
                if a & b:
                    shared = a & b
                    low = (shared & -shared).bit_length() - 1
                    rep.violation(rule, "%s|shifted pieces overlap" % body.path, "the two sides of a %s that composes a value from shifted pieces can both set bit %d "
                                  "(occupancy 0x%x and 0x%x): a piece is not masked to its field and spills into the neighbouring one" % (op, low, a, b),
                                  body.loc(st.get("line")), obligation=True)
    rep.info(rule, "value compositions with a constant left shift examined", str(n))
    if n < 6:
        rep.violation(rule, "floor-compositions", "only %d compositions found, floor is 6" % n)
