"""USM authentication / privacy rules (C09, C11, C12, C14) and buffer / wire rules (C03, C17)."""
import ast

from .. import cells, cfg, flow, numrun
from ..facts import callee_path
from .numrules import report_sites, scope_closure, SEND_ROOTS
from .v3 import V3, V3T, _agg_fields, _is_call, fp

DES = "privacy::des::DesKey"
AES = "privacy::aes128::Aes128Key"
DIGEST = "auth::digest::DigestAuth<D, KS, SS>"


def _body(ctx, rep, rule, name):
    b = ctx.facts.body(name)
    if b is None:
        rep.missing(rule, name)
    return b


# ---------------------------------------------------------------------------- C09
def sign_order(ctx, rep, rule):
    """push_pdu: with an auth key, sign runs on every Ok path, after msg.push_ber(buf), on the whole buffer, and nothing is
    written to the buffer afterwards."""
    body = _body(ctx, rep, rule, V3T + "::push_pdu")
    if body is None:
        return
    prov = flow.Prov(body)
    key = V3 + "::push_pdu"
    sign = [b for b in body.calls() if (callee_path(b.term) or "").endswith("SnmpAuth>::sign")]
    pb = [b for b in body.calls() if (callee_path(b.term) or "").endswith("SnmpV3Message<'_> as ber::BerEncoder>::push_ber")]
    if len(sign) != 1 or len(pb) != 1:
        rep.missing(rule, key + ": one sign and one msg.push_ber call")
        return
    gs = flow.guards(body, prov)
    ga = [g for g in gs if _is_call(g.term, "::has_auth", ("arg1", "auth_key"))]
    oks = flow.blocks_assigning_return(body, lambda rv: rv["k"] == "agg" and rv.get("vname") == "Ok")
    # every Ok return crosses sign or the has_auth false edge
    cut = {(sign[0].idx, s) for s in sign[0].succs()} | {g.false_edge for g in ga}
    rep.check(rule, key + "|signed-on-every-ok-path", bool(oks) and cfg.must_pass(body, [0], oks, cut),
              "every successful serialisation of an authenticated session is signed",
              "a message can be returned for sending without being signed although the session holds an auth key", body.loc(sign[0].term["line"]),
              obligation=True)
    # the only conditions on the signing path are has_auth (no extra exemption such as `!flag_report`)
    dom_guards = [g for g in gs if g.block != sign[0].idx and cfg.must_pass(body, [pb[0].idx], [sign[0].idx], {g.true_edge}) and g not in ga
                  and not (g.term[0] == "discr")]
    extra = [g for g in dom_guards if g.block in cfg.reachable(body, [pb[0].idx])]
    rep.check(rule, key + "|no-extra-condition", not extra, "signing depends on has_auth() only",
              "signing is additionally conditional on %s: some authenticated messages go out unsigned" % [flow.fmt(g.term) for g in extra],
              body.loc(sign[0].term["line"]), obligation=True)
    dom = cfg.dominators(body)
    rep.check(rule, key + "|sign-after-serialisation", pb[0].idx in dom.get(sign[0].idx, ()), "sign follows msg.push_ber(buf)",
              "sign does not come after the serialisation of the message", body.loc(sign[0].term["line"]), obligation=True)
    a = [prov.operand(x) for x in sign[0].term["args"]]
    rep.check(rule, key + "|sign-key", fp(a[0]) == ("arg1", "auth_key"), "self.auth_key", "signed with %s" % flow.fmt(a[0]), body.loc(), obligation=True)
    rep.check(rule, key + "|sign-whole-message", _is_call(a[1], "Buffer::data_mut") and a[1][2][0] == ("arg", 3), "buf.data_mut(): the whole message",
              "MAC computed over %s" % flow.fmt(a[1]), body.loc(), obligation=True)
    rep.check(rule, key + "|sign-offset", _is_call(a[2], "Buffer::get_bookmark") and a[2][2][0] == ("arg", 3), "offset = buf.get_bookmark()",
              "MAC placed at %s" % flow.fmt(a[2]), body.loc(), obligation=True)
    after = cfg.reachable(body, [sign[0].idx]) - {sign[0].idx}
    wr = [b for b in body.calls() if b.idx in after and "Buffer::" in (callee_path(b.term) or "") and
          (callee_path(b.term) or "").split("::")[-1] not in ("data", "len", "get_bookmark")]
    rep.check(rule, key + "|nothing-after-sign", not wr, "buffer untouched after signing", "buffer modified after signing: %s" % [callee_path(b.term) for b in wr],
              body.loc(), obligation=True)


def hmac_consts(ctx, rep, rule):
    facts = ctx.facts
    want = {"auth::digest::IPAD_VALUE": 0x36, "auth::digest::OPAD_VALUE": 0x5C, "auth::digest::PADDED_LENGTH": 64, "auth::digest::MEGABYTE": 1048576}
    for c, v in want.items():
        cv = facts.const_value(c)
        rep.check(rule, c, cv == v, "= %s" % v, "%s = %s; RFC 2104 / RFC 3414 require %s" % (c, cv, v), obligation=True)
    for c, v in (("auth::digest::IPAD_MASK", 0x36), ("auth::digest::OPAD_MASK", 0x5C), ("auth::digest::ZEROES", 0)):
        try:
            cv = facts.const_value(c)
        except Exception:
            rep.info(rule, c, "table not present in this tree (the pad octets are then written another way; IPAD_VALUE / OPAD_VALUE are checked above)")
            continue
        rep.check(rule, c, isinstance(cv, bytes) and len(cv) == 64 and set(cv) == {v}, "64 x 0x%02x" % v, "%s is not 64 octets of 0x%02x" % (c, v))
    # aliases: (digest, KS, SS)
    sizes = {"Md5": 16, "Sha1": 20}
    n = 0
    for a in facts.aliases.values():
        t = facts.types[a["ty"]]
        if t.get("k") == "adt" and t.get("path") == "auth::digest::DigestAuth":
            n += 1
            args = t.get("args", [])
            d = args[0].get("s", "")
            ks, ss = args[1].get("const"), args[2].get("const")
            out = [v for k, v in sizes.items() if k in d]
            rep.check(rule, a["path"], bool(out) and ks == out[0] and ss == 12, "KS = digest size %s, SS = 12" % (out[0] if out else "?"),
                      "%s = DigestAuth<%s, %s, %s>: the key size must equal the digest size and the MAC is 12 octets (HMAC-96)" % (a["path"], d, ks, ss),
                      obligation=True)
    if n < 2:
        rep.missing(rule, "DigestAuth aliases (Md5AuthKey, Sha1AuthKey)")
    codes = {"auth::NO_AUTH": 0, "auth::MD5_AUTH": 1, "auth::SHA1_AUTH": 2}
    for c, v in codes.items():
        rep.check(rule, c, facts.const_value(c) == v, "= %d" % v, "%s = %s" % (c, facts.const_value(c)))
    # placeholder: SS zero octets / none
    pb = facts.body("<%s as auth::SnmpAuth>::placeholder" % DIGEST)
    if pb is not None:
        t = flow.Prov(pb).local(0)
        ok = t[0] == "call" and (t[1] or "").endswith("::index") and flow.mentions(t, lambda s: s[0] == "const" and s[1:2] and isinstance(s[1], tuple) and set(s[1]) == {0}) and \
            flow.mentions(t, lambda s: s[0] == "agg" and s[1] == "std::ops::RangeTo" and s[3][0][1] == ("cparam", "SS"))
        rep.check(rule, "DigestAuth::placeholder", ok, "&ZEROES[..SS]", "placeholder is %s" % flow.fmt(t), pb.loc(), obligation=True)
    for nm, want_b in (("<auth::noauth::NoAuth as auth::SnmpAuth>::has_auth", False), ("<%s as auth::SnmpAuth>::has_auth" % DIGEST, True)):
        b = facts.body(nm)
        if b is None:
            rep.missing(rule, nm)
            continue
        t = flow.Prov(b).local(0)
        rep.check(rule, nm.split(" as ")[0].lstrip("<") + "::has_auth", t == ("const", want_b), str(want_b), "has_auth returns %s" % flow.fmt(t), b.loc(), obligation=True)


def _part_of(t):
    """The term is cut out of something: an index by a range that is not provably the whole (`[..]`, `[..x.len()]` of the same
    x), or one of the slice-splitting calls."""
    def full_range(x, rng):
        if rng[0] == "agg" and (rng[1] or "").endswith("RangeFull"):
            return True
        if rng[0] == "agg" and (rng[1] or "").endswith("RangeTo") and rng[3]:
            e = rng[3][0][1]
            while e[0] == "cast":
                e = e[1]
            if (e[0] == "call" and (e[1] or "").split("::")[-1] == "len" and e[2] and e[2][0] == x) or (e[0] == "un" and e[1] == "PtrMetadata" and e[2] == x):
                return True
        return False
    for s_ in flow.subterms(t):
        if s_[0] != "call":
            continue
        last = (s_[1] or "").split("::")[-1]
        if last in ("index", "index_mut") and len(s_[2]) == 2:
            rng = s_[2][1]
            if rng[0] == "agg" and "Range" in (rng[1] or "") and not full_range(s_[2][0], rng):
                return True
        if last in ("split_at", "split_at_mut", "get", "get_mut", "first_chunk", "last_chunk", "split_first", "split_last", "take", "skip", "strip_prefix", "strip_suffix",
                    "split_at_checked", "chunks", "chunks_exact"):
            return True
    return False


def hmac_shape(ctx, rep, rule):
    """Canonical HMAC shape of DigestAuth::sign (tolerant) and sibling check of the key installers."""
    facts = ctx.facts
    body = _body(ctx, rep, rule, "<%s as auth::SnmpAuth>::sign" % DIGEST)
    if body is None:
        return
    prov = flow.Prov(body)
    ups = [b for b in sorted(body.calls(), key=lambda b: b.idx) if _is_update(b.term["callee"].get("path") or "")]
    news = [b for b in body.calls() if (b.term["callee"].get("path") or "").endswith("Digest::new")]
    key = "DigestAuth::sign"
    if len(ups) != 6 or len(news) != 2:
        rep.inconclusive(rule, key + "|shape", "%d update / %d new calls: HMAC shape not recognised" % (len(ups), len(news)), body.loc())
    else:
        args = [prov.operand(b.term["args"][1]) for b in ups]

        def xor_key(t, const_name):
            # collect(map(iter(self.key), closure)) : check the closure xors with the constant
            return flow.mentions(t, lambda s: fp(s) == ("arg1", "key"))

        def mask(t, name):
            return flow.mentions(t, lambda s: s[0] == "const" and len(s) > 2 and s[2] == name) and \
                flow.mentions(t, lambda s: s[0] == "agg" and s[1] == "std::ops::RangeTo")
        checks = [
            ("k1 = key ^ ipad", xor_key(args[0], "IPAD")), ("ipad rest", mask(args[1], "auth::digest::IPAD_MASK")),
            ("whole message", (args[2] == ("arg", 2) or fp(args[2]) == ("arg2",) or flow.mentions(args[2], lambda s: s == ("arg", 2))) and not _part_of(args[2])),
            ("k2 = key ^ opad", xor_key(args[3], "OPAD")), ("opad rest", mask(args[4], "auth::digest::OPAD_MASK")),
            ("inner digest", flow.mentions(args[5], lambda s: s[0] == "call" and (s[1] or "").endswith("Digest::finalize"))),
        ]
        keyed = [ok for name, ok in checks if name in ("k1 = key ^ ipad", "ipad rest", "k2 = key ^ opad", "opad rest")]
        if not any(keyed):
            # none of the four pad pieces has the shape this rule knows (key xored in place into a pad block, a helper ...)
            rep.inconclusive(rule, key + "|pads", "the padded key blocks are built in a shape the rule does not follow", body.loc())
            checks = [c_ for c_ in checks if c_[0] in ("whole message", "inner digest")]
        if _part_of(args[2]) and flow.mentions(args[2], lambda s: s[0] == "idx" and flow.mentions(s[1], lambda y: y == ("arg", 2))):
            # the extent is re-derived from the octets of the message (its own BER header): whether that is the whole message
            # depends on the arithmetic being right for every length form - not decided here
            rep.inconclusive(rule, key + "|whole message", "the hashed extent is computed from the contents of the message (%s)" % flow.fmt(args[2])[:120], body.loc())
            checks = [c_ for c_ in checks if c_[0] != "whole message"]
        for name, ok in checks:
            ai = {"k1 = key ^ ipad": 0, "ipad rest": 1, "whole message": 2, "k2 = key ^ opad": 3, "opad rest": 4, "inner digest": 5}[name]
            rep.check(rule, key + "|" + name, ok, name, "HMAC step `%s` is fed %s" % (name, flow.fmt(args[ai])[:200]), body.loc(), obligation=True)
        # the two xor closures use IPAD_VALUE / OPAD_VALUE respectively, in this order (constant in the closure body, or
        # captured by the closure when the xor lives in a shared helper)
        vals = []
        for a in (args[0], args[3]):
            cl = [s_ for s_ in flow.subterms(a) if s_[0] == "agg" and s_[1] == "closure"]
            v = None
            for c in cl[:1]:
                cap = [f[1][1] for f in c[3] if f[1][0] == "const" and isinstance(f[1][1], int)]
                if cap:
                    v = cap[0]
                else:
                    cb = facts.body(c[2])
                    if cb is not None:
                        t = flow.Prov(cb).local(0)
                        cs = [s_[1] for s_ in flow.subterms(t) if s_[0] == "const" and isinstance(s_[1], int)]
                        v = cs[0] if cs else None
            vals.append(v)
        if any(keyed):
            rep.check(rule, key + "|xor constants", vals == [0x36, 0x5C], "inner pad 0x36, outer pad 0x5c", "xor constants are %s" % vals, body.loc(), obligation=True)
    # MAC copy: data[offset..offset+SS] <- d2[0..SS]
    cp = [b for b in body.calls() if (callee_path(b.term) or "").endswith("copy_from_slice")]
    if len(cp) == 1:
        a = [prov.operand(x) for x in cp[0].term["args"]]
        okd = flow.mentions(a[0], lambda s: s == ("arg", 2)) and flow.mentions(a[0], lambda s: s == ("arg", 3)) and flow.mentions(a[0], lambda s: s == ("cparam", "SS"))
        oks = flow.mentions(a[1], lambda s: s[0] == "call" and (s[1] or "").endswith("Digest::finalize")) and \
            flow.mentions(a[1], lambda s: s[0] == "agg" and s[1] == "std::ops::Range" and s[3][0][1] == ("const", 0) and s[3][1][1] == ("cparam", "SS"))
        rep.check(rule, key + "|mac placement", okd and oks, "data[offset..offset+SS] = d2[0..SS]", "MAC copy is %s <- %s" % (flow.fmt(a[0])[:120], flow.fmt(a[1])[:120]),
                  body.loc(cp[0].term["line"]), obligation=True)
    else:
        rep.inconclusive(rule, key + "|mac placement", "copy of the MAC not recognised", body.loc())
    # sibling check: every field of DigestAuth written by one key installer is written by the other too
    adt = "auth::digest::DigestAuth"
    wsets = {}
    for m in ("as_localized", "as_master"):
        b = facts.body("<%s as auth::SnmpAuth>::%s" % (DIGEST, m))
        if b is None:
            rep.missing(rule, "DigestAuth::" + m)
            continue
        fields = set()
        for (bi, kind, st, line) in _field_writes_any(b, adt):
            fields.add(kind)
        wsets[m] = fields
    if len(wsets) == 2:
        rep.check(rule, "DigestAuth|installers-write-same-state", wsets["as_localized"] == wsets["as_master"],
                  "as_localized and as_master refresh the same fields %s" % sorted(wsets["as_master"]),
                  "as_localized writes %s but as_master writes %s: state derived from the key is stale after one of them" %
                  (sorted(wsets["as_localized"]), sorted(wsets["as_master"])), obligation=True)
    # sign reads only `key` (plus fields every installer writes)
    rd = set()
    for blk in body.live_blocks():
        for st in blk.stmts:
            if st["k"] == "assign":
                for pl in _places_in_rv(st["rv"]):
                    pts = flow.prefix_types(body, pl)
                    for i, e in enumerate(pl["p"]):
                        if isinstance(e, dict) and "field" in e and pts[i].get("path") == adt:
                            rd.add(e["name"])
    inst = wsets.get("as_localized", set()) & wsets.get("as_master", set())
    rep.check(rule, "DigestAuth::sign|reads-installed-state", rd <= (inst | {"key"}) and "key" in (inst | {"key"}),
              "sign reads %s" % sorted(rd), "sign reads %s, of which %s is not refreshed by every key installer" % (sorted(rd), sorted(rd - inst)), body.loc(),
              obligation=True)


def _places_in_rv(rv):
    out = []
    for k in ("place",):
        if k in rv:
            out.append(rv[k])
    for k in ("op", "a", "b"):
        o = rv.get(k)
        if isinstance(o, dict):
            pl = o.get("copy") or o.get("move")
            if pl:
                out.append(pl)
    for o in rv.get("ops", []):
        pl = o.get("copy") or o.get("move")
        if pl:
            out.append(pl)
    return out


def _field_writes_any(body, adt):
    """(block, field name, stmt, line) for writes / mutable borrows of any field of adt."""
    out = []
    for b in body.live_blocks():
        for st in b.stmts:
            if st["k"] != "assign":
                continue
            cands = [st["place"]]
            rv = st["rv"]
            if rv["k"] in ("ref", "rawptr") and (rv.get("mut") or rv.get("kind") == "Mut"):
                cands.append(rv["place"])
            for pl in cands:
                pts = flow.prefix_types(body, pl)
                for i, e in enumerate(pl["p"]):
                    if isinstance(e, dict) and "field" in e and pts[i].get("k") == "adt" and pts[i].get("path") == adt:
                        if pl is st["place"] or True:
                            out.append((b.idx, e["name"], st, st["line"]))
                        break
    return out


# ---------------------------------------------------------------------------- C12
def key_dispatch(ctx, rep, rule):
    facts = ctx.facts
    consts = {"auth::KT_ALG_MASK": 0x3F, "auth::KT_TYPE_MASK": 0xC0, "auth::KT_PASSWORD": 0, "auth::KT_MASTER": 0x40, "auth::KT_LOCALIZED": 0x80,
              "privacy::KT_ALG_MASK": 0x3F, "privacy::NO_PRIV": 0, "privacy::DES": 1, "privacy::AES128": 2}
    for c, v in consts.items():
        cv = facts.const_value(c)
        rep.check(rule, c, cv == v, "= 0x%02x" % v, "%s = %s, the Python layer encodes 0x%02x" % (c, cv, v), obligation=True)
    for fn, adt, table in (("auth::AuthKey::new", "auth::AuthKey", {0: "NoAuth", 1: "Md5", 2: "Sha1"}),
                           ("privacy::PrivKey::new", "privacy::PrivKey", {0: "NoPriv", 1: "Des", 2: "Aes128"})):
        body = _body(ctx, rep, rule, fn)
        if body is None:
            continue
        prov = flow.Prov(body)
        for raw in range(0, 256):
            code = raw & 0x3F

            def ev(t, raw=raw):
                # the cell fixes the whole code octet: the algorithm is its low six bits whatever the key-type bits say
                if t == ("arg", 1):
                    return raw
                return None
            blocks, _ = cells.feasible(body, prov, ev)
            tg = cells.tags(body, blocks)
            vs = sorted({x[2] for x in tg if x[0] == "agg" and x[1] == adt})
            key = "%s|code %d" % (fn, code) if raw < 64 else "%s|code 0x%02x" % (fn, raw)
            if raw >= 64:
                # key-type bits set: same algorithm as the low bits select
                if code in table and vs != [table[code]]:
                    rep.violation(rule, key, "algorithm code 0x%02x (algorithm %d with key-type bits 0x%02x) builds %s, expected %s: the key-type "
                                  "bits change the algorithm" % (raw, code, raw & 0xC0, vs, table[code]), body.loc(), obligation=True)
                elif code not in table and vs:
                    rep.violation(rule, key, "unknown algorithm code 0x%02x is accepted as %s" % (raw, vs), body.loc(), obligation=True)
                continue
            if code in table:
                rep.check(rule, key, vs == [table[code]], "-> " + table[code], "algorithm code %d builds %s, expected %s" % (code, vs, table[code]), body.loc(),
                          obligation=True)
            elif vs:
                rep.violation(rule, key, "unknown algorithm code %d is accepted as %s" % (code, vs), body.loc(), obligation=True)
        # the mask is applied
        hasmask = any(t["k"] == "switch" and flow.mentions(prov.operand(t["discr"]), lambda s: s[0] == "bin" and s[1] == "BitAnd" and s[3] == ("const", 0x3F))
                      for t in [b.term for b in body.live_blocks() if b.term])
        rep.check(rule, fn + "|mask", hasmask, "code & 0x3f", "the algorithm code is not masked with 0x3f", body.loc())
    body = _body(ctx, rep, rule, "auth::AuthKey::as_key_type")
    if body is not None:
        prov = flow.Prov(body)
        table = {0x00: "as_password", 0x40: "as_master", 0x80: "as_localized", 0xC0: None}
        for kt, meth in table.items():
            def ev(t, kt=kt):
                if t[0] == "bin" and t[1] == "BitAnd" and t[2] == ("arg", 2) and t[3] == ("const", 0xC0):
                    return kt
                if t[0] == "call" and (t[1] or "").endswith("::has_auth"):
                    return 1
                return None
            blocks, _ = cells.feasible(body, prov, ev)
            tg = cells.tags(body, blocks)
            called = sorted({x[1].split("::")[-1] for x in tg if x[0] == "call" and x[1] and x[1].startswith("<auth::AuthKey as auth::SnmpAuth>::as_")})
            key = "AuthKey::as_key_type|type bits 0x%02x" % kt
            if meth:
                rep.check(rule, key, called == [meth], "-> " + meth, "key type 0x%02x is installed with %s, expected %s" % (kt, called, meth), body.loc(), obligation=True)
                # ... on every successful path: nothing (an empty key, a flag) lets as_key_type return Ok with the old key in place
                inst = [b for b in body.calls() if b.idx in blocks and (callee_path(b.term) or "").endswith("::" + meth)]
                oks_ = [b_ for b_ in flow.blocks_assigning_return(body, lambda rv: rv["k"] == "agg" and rv.get("vname") == "Ok") if b_ in blocks]
                cut_ = {(b.idx, s_) for b in inst for s_ in b.succs()}
                pth = (sorted(cells.variant_reach(body, cut=frozenset(cut_), within=blocks) & set(oks_)) or None) if oks_ else None
                rep.check(rule, key + "|always installs", pth is None, "every Ok return follows " + meth,
                          "with an authentication algorithm configured as_key_type can return Ok without installing the key (blocks %s): the "
                          "all-zero default key stays in use" % pth, body.loc(), obligation=True)
            else:
                rep.check(rule, key, not called and cells.has_agg(tg, "error::SnmpError", "InvalidKey"), "refused with InvalidKey",
                          "key type 0xc0 is installed with %s" % called, body.loc(), obligation=True)


def _is_update(path):
    # hasher.update(data) and the builder form D::new().chain_update(data): both take (hasher, data)
    return path.endswith("Digest::update") or path.endswith("Digest::chain_update")


def key_chain(ctx, rep, rule):
    """as_password = password_to_master . as_master ; as_master = localize then store; canonical shapes of the two digests."""
    facts = ctx.facts
    pre = "<%s as auth::SnmpAuth>::" % DIGEST
    def root_local(body, op, depth=0):
        """The local a reference / slice operand ultimately points into (through moves, reborrows, unsizing casts, as_ref)."""
        pl = op.get("move") or op.get("copy")
        if pl is None or depth > 12:
            return None
        l = pl["l"]
        if l <= body.arg_count:
            return ("arg", l) if not [e for e in pl["p"] if e != "deref"] else ("arg", l, tuple(str(e) for e in pl["p"]))
        defs = []
        for blk in body.live_blocks():
            for st_ in blk.stmts:
                if st_["k"] == "assign" and st_["place"]["l"] == l and not st_["place"]["p"]:
                    defs.append(st_["rv"])
            t_ = blk.term
            if t_ and t_["k"] == "call" and t_["dest"]["l"] == l and not t_["dest"]["p"]:
                defs.append(("call", t_))
        if len(defs) != 1:
            return ("local", l)
        rv = defs[0]
        if isinstance(rv, tuple):
            cp_ = callee_path(rv[1]) or ""
            if flow.is_transparent(cp_) or cp_.endswith("::deref") or cp_.endswith("::deref_mut") or cp_.endswith("::as_mut_slice") or cp_.endswith("::index") or cp_.endswith("::index_mut"):
                return root_local(body, rv[1]["args"][0], depth + 1)
            return ("local", l)
        if rv["k"] == "use":
            return root_local(body, rv["op"], depth + 1)
        if rv["k"] == "cast":
            return root_local(body, rv["op"], depth + 1)
        if rv["k"] == "ref" or rv["k"] == "rawptr":
            pl2 = rv["place"]
            if pl2["l"] <= body.arg_count and any(isinstance(e, dict) and "field" in e for e in pl2["p"]):
                return ("argfield", pl2["l"], tuple(e.get("name") for e in pl2["p"] if isinstance(e, dict) and "field" in e))
            return root_local(body, {"copy": {"l": pl2["l"], "p": [], "ty": None}}, depth + 1) if any(e == "deref" for e in pl2["p"]) else ("local", pl2["l"])
        return ("local", l)

    def key_stores(body, prov_):
        """[(rpo position, root of the value stored into self.key)]"""
        order = {bi: i for i, bi in enumerate(cfg.rpo(body))}
        out = []
        for blk in body.calls():
            cp_ = callee_path(blk.term) or ""
            if cp_.endswith("clone_from_slice") or cp_.endswith("copy_from_slice"):
                d_ = prov_.operand(blk.term["args"][0])
                if fp(d_) == ("arg1", "key"):
                    out.append((order.get(blk.idx, 0), root_local(body, blk.term["args"][1])))
        for blk in body.live_blocks():
            for st_ in blk.stmts:
                if st_["k"] == "assign" and st_["place"]["l"] == 1 and [e.get("name") for e in st_["place"]["p"] if isinstance(e, dict) and "field" in e] == ["key"] \
                        and st_["rv"]["k"] == "use":
                    out.append((order.get(blk.idx, 0), root_local(body, st_["rv"]["op"])))
        return out

    def localize_then_store(body, prov_, master_ok):
        """A localize(master, locality=arg3, out) call whose out buffer is what self.key receives afterwards."""
        order = {bi: i for i, bi in enumerate(cfg.rpo(body))}
        for x in body.calls():
            if (callee_path(x.term) or "") != pre + "localize":
                continue
            a = [prov_.operand(y) for y in x.term["args"]]
            if not (a[0] == ("arg", 1) and master_ok(x.term["args"][1], a[1]) and a[2] == ("arg", 3)):
                continue
            r = root_local(body, x.term["args"][3])
            if any(pos > order.get(x.idx, 0) and rr == r for pos, rr in key_stores(body, prov_)):
                return True
        return False

    b = _body(ctx, rep, rule, pre + "as_password")
    if b is not None:
        p = flow.Prov(b)
        order = {bi: i for i, bi in enumerate(cfg.rpo(b))}
        ptm = [x for x in b.calls() if (callee_path(x.term) or "") == pre + "password_to_master"]
        ok = False
        names = [(callee_path(x.term) or "").split("::")[-1] for x in sorted(b.calls(), key=lambda x: order.get(x.idx, 0)) if (callee_path(x.term) or "").startswith(pre)]
        if len(ptm) == 1:
            a0 = [p.operand(x) for x in ptm[0].term["args"]]
            m_root = root_local(b, ptm[0].term["args"][2])
            if a0[0] == ("arg", 1) and a0[1] == ("arg", 2):
                # either as_master(&master, locality) or its body spelled out: localize(&master, locality, out); self.key = out
                for x in b.calls():
                    if (callee_path(x.term) or "") == pre + "as_master" and order.get(x.idx, 0) > order.get(ptm[0].idx, 0):
                        a1 = [p.operand(y) for y in x.term["args"]]
                        if a1[0] == ("arg", 1) and a1[2] == ("arg", 3) and root_local(b, x.term["args"][1]) == m_root:
                            ok = True
                if not ok:
                    ok = localize_then_store(b, p, lambda op_, t_: root_local(b, op_) == m_root)
        rep.check(rule, "DigestAuth::as_password", ok, "key = localize(password_to_master(password), locality)", "as_password does %s" % names, b.loc(),
                  obligation=True)
    b = _body(ctx, rep, rule, pre + "as_master")
    if b is not None:
        p = flow.Prov(b)
        ok = localize_then_store(b, p, lambda op_, t_: t_ == ("arg", 2))
        rep.check(rule, "DigestAuth::as_master", ok, "key = localize(master, locality)", "as_master does not store localize(key, locality)", b.loc(), obligation=True)
    b = _body(ctx, rep, rule, pre + "localize")
    if b is not None:
        p = flow.Prov(b)
        ups = [x for x in sorted(b.calls(), key=lambda x: x.idx) if _is_update(x.term["callee"].get("path") or "")]
        args = [p.operand(x.term["args"][1]) for x in ups]
        want = [("arg", 2), ("arg", 3), ("arg", 2)]
        # no short cut: every way out of localize runs the digest (an early return for a special engine id or key would hand
        # back something that is not H(Ku | engineID | Ku))
        fin = [x for x in b.calls() if (x.term["callee"].get("path") or "").endswith("Digest::finalize")]
        rets = b.returns()
        if ups and fin and rets:
            cut = {(x.idx, s_) for x in fin for s_ in x.succs()}
            rep.check(rule, "DigestAuth::localize|every-exit-hashes", cfg.must_pass(b, [0], rets, cut), "all exits go through the digest",
                      "localize can return without computing the digest (an early return by-passes H(key | engine id | key))", b.loc(), obligation=True)
        if len(ups) == 3 and all(a[0] == "arg" for a in args):
            rep.check(rule, "DigestAuth::localize|H(key|engine|key)", args == want, "update(key), update(locality), update(key)",
                      "the localisation hash is fed %s (RFC 3414 A.2: key, engine id, key)" % [flow.fmt(a) for a in args], b.loc(), obligation=True)
        elif len(ups) != 3 and all(a[0] == "arg" for a in args):
            rep.violation(rule, "DigestAuth::localize|H(key|engine|key)", "the localisation hash is fed %s (RFC 3414 A.2: key, engine id, key)" % [flow.fmt(a) for a in args],
                          b.loc(), obligation=True)
        elif any(a[0] == "call" and ((a[1] or "").endswith("::index") or (a[1] or "").split("::")[-1] in ("get", "split_at", "first_chunk", "take")) for a in args) or \
                any(a[0] == "f" and a[1][0] == "call" and (a[1][1] or "").split("::")[-1] in ("split_at",) for a in args):
            rep.violation(rule, "DigestAuth::localize|H(key|engine|key)", "the localisation hash is fed a part of an argument only (%s): RFC 3414 A.2 hashes the "
                          "whole key and the whole engine id" % [flow.fmt(a)[:60] for a in args], b.loc(), obligation=True)
        else:
            rep.inconclusive(rule, "DigestAuth::localize|H(key|engine|key)", "shape not recognised: %s" % [flow.fmt(a) for a in args], b.loc())
    b = _body(ctx, rep, rule, pre + "password_to_master")
    if b is not None:
        p = flow.Prov(b)
        ups = [x for x in sorted(b.calls(), key=lambda x: x.idx) if _is_update(x.term["callee"].get("path") or "")]
        loops = cfg.natural_loops(b)
        inloop = set()
        for h, bl in loops.items():
            inloop |= bl
        kinds = []
        for x in ups:
            a = p.operand(x.term["args"][1])
            if a == ("arg", 2) and x.idx in inloop:
                kinds.append("whole-in-loop")
            elif a[0] == "call" and (a[1] or "").endswith("::index") and a[2][0] == ("arg", 2) and a[2][1][0] == "agg" and a[2][1][1] == "std::ops::RangeTo" and \
                    flow.mentions(a[2][1], lambda s: s[0] == "bin" and s[1] == "Rem"):
                kinds.append("prefix-rem")
            elif a == ("arg", 2):
                kinds.append("whole-outside-loop")
            else:
                kinds.append("other:" + flow.fmt(a)[:60])
        # the whole copies may be fed from a closure handed to an iterator consumer: repeat(password).take(n).for_each(|c| update(c))
        for c in facts.closures_of(b.path):
            cups = [x for x in c.calls() if _is_update(x.term["callee"].get("path") or "")]
            if not cups:
                continue
            feed = cells.closure_feed(facts, c)
            pc = flow.Prov(c)
            for x in cups:
                a = pc.operand(x.term["args"][1])
                src = feed[3] if feed is not None and feed[0] is b else None
                whole = src is not None and a == ("arg", 2) and src[0] == "call" and (src[1] or "").split("::")[-1] == "take" and \
                    src[2] and src[2][0][0] == "call" and (src[2][0][1] or "") in ("std::iter::repeat", "core::iter::repeat") and src[2][0][2][0] == ("arg", 2)
                kinds.append("whole-in-loop" if whole else "other:closure %s fed by %s" % (flow.fmt(a)[:30], flow.fmt(src)[:60] if src else "?"))
        okk = sorted(kinds) == ["prefix-rem", "whole-in-loop"]
        if okk:
            rep.ok(rule, "DigestAuth::password_to_master|expansion", "n whole copies then password[..rem]", b.loc(), obligation=True)
        elif any(k.startswith("other") for k in kinds):
            rep.inconclusive(rule, "DigestAuth::password_to_master|expansion", "shape not recognised: %s" % kinds, b.loc())
        else:
            rep.violation(rule, "DigestAuth::password_to_master|expansion", "the 1 MiB expansion feeds the hash with %s; RFC 3414 A.2 requires exactly "
                          "MEGABYTE/len whole copies (in the loop) and then the first MEGABYTE%%len octets" % kinds, b.loc(), obligation=True)
        # n and rem
        t_n = [p.rvalue(st["rv"]) for blk in b.live_blocks() for st in blk.stmts if st["k"] == "assign" and st["rv"]["k"] == "bin" and st["rv"]["op"] in ("Div", "Rem")]
        M_ = ("const", 1048576)
        # the remainder as 2^20 % len, or as 2^20 - (2^20 / len) * len
        t_s = [p.rvalue(st["rv"]) for blk in b.live_blocks() for st in blk.stmts if st["k"] == "assign" and st["rv"]["k"] == "bin" and
               st["rv"]["op"] in ("Sub", "SubWithOverflow")]
        def _is_div(x):
            while x[0] == "f":
                x = x[1]
            return x[0] == "bin" and x[1] == "Div" and x[2] == M_
        def _is_prod(x):
            while x[0] == "f":
                x = x[1]
            return x[0] == "bin" and x[1] in ("Mul", "MulWithOverflow") and (_is_div(x[2]) or _is_div(x[3]))
        rem_alt = any(t[2] == M_ and _is_prod(t[3]) for t in t_s)
        okn = any(t[1] == "Div" and t[2] == M_ for t in t_n) and (any(t[1] == "Rem" and t[2] == M_ for t in t_n) or rem_alt)
        rep.check(rule, "DigestAuth::password_to_master|n,rem", okn, "n = 2^20 / len, rem = 2^20 % len", "n / rem are computed as %s" % [flow.fmt(t) for t in t_n], b.loc(),
                  obligation=True)
    # util entry points
    for fn, meth in (("util::get_master_key", "password_to_master"), ("util::get_localized_key", "localize")):
        b = _body(ctx, rep, rule, fn)
        if b is None:
            continue
        p = flow.Prov(b)
        cs = [x for x in b.calls() if (callee_path(x.term) or "").endswith("SnmpAuth>::" + meth)]
        ok = len(cs) == 1
        if ok:
            a = [p.operand(x) for x in cs[0].term["args"]]
            ok = _is_call(a[0], "AuthKey::new") or flow.mentions(a[0], lambda s: _is_call(s, "AuthKey::new") and s[2] and s[2][0] == ("arg", 2))
            ok = ok and a[1] == ("arg", 3)
            if meth == "localize":
                ok = ok and a[2] == ("arg", 4)
        rep.check(rule, fn, ok, "AuthKey::new(alg).%s(..) on the caller's material" % meth, "%s does not call %s on the caller's arguments" % (fn, meth), b.loc(), obligation=True)


def pysym_text(node):
    from .. import pysym
    return pysym.text(node) if node is not None else "None"


def key_ffi(ctx, rep, rule):
    """Python constants agree with the Rust tables; padding of aligned keys uses the privacy key's own type."""
    py = ctx.py
    facts = ctx.facts
    exp = {("Md5Key", "AUTH_ALG"): 1, ("Md5Key", "KEY_LENGTH"): 16, ("Sha1Key", "AUTH_ALG"): 2, ("Sha1Key", "KEY_LENGTH"): 20,
           ("DesKey", "PRIV_ALG"): 1, ("Aes128Key", "PRIV_ALG"): 2}
    for (cls, attr), v in exp.items():
        a = py.class_attrs("user", cls).get(attr)
        rep.check(rule, "user.%s.%s" % (cls, attr), a == v, "= %d" % v, "Python %s.%s = %r, the Rust side expects %d" % (cls, attr, a, v), obligation=True)
    kt = py.class_attrs("user", "KeyType")
    rep.check(rule, "user.KeyType", (kt.get("Password"), kt.get("Master"), kt.get("Localized")) == (0, 1, 2), "Password 0, Master 1, Localized 2",
              "KeyType values are %s" % kt, obligation=True)
    from . import py as pyr
    ps = pyr.paths(ctx, rep, rule, "user", "KeyType", "_mask")
    if ps:
        r = sorted({pysym_text(p.ret) for p in ps if p.done == "return"})
        def _mask_ok(exprs):
            # the same number for the three key types, however it is spelled (value << 6, value * 64 ...)
            import ast as _a
            if len(exprs) != 1:
                return False
            try:
                tree = _a.parse(exprs[0], mode="eval").body
            except SyntaxError:
                return False
            mconsts = ctx.py.module_consts("user") if hasattr(ctx.py, "module_consts") else {}

            def ev(n, val):
                if isinstance(n, _a.Constant) and isinstance(n.value, int):
                    return n.value
                if isinstance(n, _a.Name) and isinstance(mconsts.get(n.id), int):
                    return mconsts[n.id]       # a module-level integer constant (`_MASK_SCALE = 64`)
                if isinstance(n, _a.Attribute) and _a.unparse(n) == "self.value":
                    return val
                if isinstance(n, _a.BinOp):
                    a, b = ev(n.left, val), ev(n.right, val)
                    if a is None or b is None:
                        return None
                    ops = {_a.LShift: lambda x, y: x << y, _a.Mult: lambda x, y: x * y, _a.BitOr: lambda x, y: x | y, _a.Add: lambda x, y: x + y,
                           _a.BitAnd: lambda x, y: x & y}
                    f = ops.get(type(n.op))
                    return f(a, b) if f else None
                if isinstance(n, _a.Call) and _a.unparse(n.func) == "int" and len(n.args) == 1:
                    return ev(n.args[0], val)
                return None
            return all(ev(tree, v) == (v << 6) for v in (0, 1, 2, 3))
        rep.check(rule, "user.KeyType._mask", r == ["self.value << 6"] or _mask_ok(r), "value << 6 (bits 7-6 of the algorithm code)", "_mask returns %s" % r,
                  py.loc("user", pyr.fn_node(ctx, "user", "KeyType", "_mask")), obligation=True)
    for fn, keyattr, present, absent in (("get_auth_alg", "auth_key", "self.auth_key.AUTH_ALG | self.auth_key.key_type._mask", "0"),
                                         ("get_priv_alg", "priv_key", "self.priv_key.PRIV_ALG | self.priv_key.key_type._mask", "0"),
                                         ("get_auth_key", "auth_key", "self.auth_key.key", "b''"), ("get_priv_key", "priv_key", "self.priv_key.key", "b''")):
        ps = pyr.paths(ctx, rep, rule, "user", "User", fn)
        if not ps:
            continue
        k = "self." + keyattr
        bad = None
        n1 = n0 = 0
        for p in ps:
            if p.done != "return":
                continue
            v = pysym_text(p.ret)
            has = (k, True) in p.conds or ("eq(None,%s)" % k, False) in p.conds
            hasnt = (k, False) in p.conds or ("eq(None,%s)" % k, True) in p.conds
            if has:
                n1 += 1
                if v not in (present, " | ".join(reversed(present.split(" | ")))):
                    bad = bad or "with a key %s returns %s" % (fn, v)
            elif hasnt:
                n0 += 1
                if v != absent:
                    bad = bad or "without a key %s returns %s" % (fn, v)
            else:
                bad = bad or "%s returns %s on a path that does not test %s" % (fn, v, k)
        if not n1 or not n0:
            bad = bad or "%s does not distinguish a configured key from none" % fn
        rep.check(rule, "user.User." + fn, bad is None, "%s if %s else %s" % (present, k, absent), bad or "", py.loc("user", pyr.fn_node(ctx, "user", "User", fn)), obligation=True)
    ps = pyr.paths(ctx, rep, rule, "user", "User", "__init__")
    if ps:
        n = 0
        seen = set()

        def un(t):   # self.priv_key holds the parameter priv_key in this constructor (store forwarded by the path unfolding)
            return t.replace("self.", "")
        for p in ps:
            for i, e in pyr.calls(p, lambda f: un(f) == "priv_key._pad"):
                n += 1
                conds = {(un(t), v) for t, v in e.conds}
                kk = (tuple(e.args), tuple(sorted(conds)))
                if kk in seen:
                    continue
                seen.add(kk)
                rep.check(rule, "user.User.__init__|pad-length", [un(a) for a in e.args] == ["auth_key.KEY_LENGTH"], "padded to the auth digest size", "padded to %s" % e.args,
                          pyr.loc(ctx, "user", e), obligation=True)
                rep.check(rule, "user.User.__init__|pad-when-priv-key-aligned", ("priv_key.key_type._is_aligned", True) in conds and
                          (("priv_key", True) in conds or ("eq(None,priv_key)", False) in conds) and
                          (("auth_key", True) in conds or ("eq(None,auth_key)", False) in conds),
                          "only master / localized privacy keys are padded", "the privacy key is padded under %s: a password would be truncated or zero-padded" % (e.conds,),
                          pyr.loc(ctx, "user", e), obligation=True)
        if not n:
            rep.missing(rule, "user.User.__init__: self.priv_key._pad")
        # the keys the user keeps are the ones handed in: nothing else is ever stored into them
        seen_st = set()
        for p in ps:
            for e in p.events:
                if e.kind == "store" and e.target in ("self.priv_key", "self.auth_key"):
                    kk = (e.target, e.value)
                    if kk in seen_st:
                        continue
                    seen_st.add(kk)
                    rep.check(rule, "user.User.__init__|%s = %s" % (e.target, e.value[:40]), e.value == e.target[len("self."):], "the caller's key object",
                              "%s is overwritten with %s: the configured key is lost (a None privacy key silently disables privacy)" % (e.target, e.value),
                              pyr.loc(ctx, "user", e), obligation=True)
    ps = pyr.paths(ctx, rep, rule, "user", "BaseAuthKey", "__init__")
    if ps:
        pads = [e for p in ps for i, e in pyr.calls(p, lambda f: f in ("self._padded", "cls._padded")) if "@inlined" in (e.origin or ()) or not e.origin]
        ok = bool(pads) and all(e.args == ["key", "self.KEY_LENGTH"] and ("key_type._is_aligned", True) in e.conds for e in pads)
        rep.check(rule, "user.BaseAuthKey.__init__|pad", ok, "aligned auth keys padded to KEY_LENGTH", "auth key padding changed",
                  py.loc("user", pyr.fn_node(ctx, "user", "BaseAuthKey", "__init__")))
        # the key octets are taken as given: the only rewriting between the caller's bytes and the stored key is the
        # alignment above (no stripping, decoding or case folding of key material)
        import ast as _ast
        odd = []
        for p in ps:
            for e in p.events:
                if e.kind == "bind" and e.target == "key":
                    try:
                        tree = _ast.parse(e.value, mode="eval")
                    except SyntaxError:
                        continue
                    for n_ in _ast.walk(tree):
                        if isinstance(n_, _ast.Call) and _ast.unparse(n_.func) not in ("len", "bytes", "self._padded", "cls._padded"):
                            odd.append((_ast.unparse(n_)[:60], e))
        rep.check(rule, "user.BaseAuthKey.__init__|key taken as given", not odd, "only aligned", "the key material is rewritten before use (%s): keys "
                  "containing such octets are silently replaced by another key" % (odd[0][0] if odd else ""),
                  pyr.loc(ctx, "user", odd[0][1]) if odd else py.loc("user", pyr.fn_node(ctx, "user", "BaseAuthKey", "__init__")), obligation=True)
    ps = pyr.paths(ctx, rep, rule, "user", "BaseKey", "__init__")
    if ps:
        vals = {e.value for p in ps for i, e in pyr.stores(p, "self.key")}
        rep.check(rule, "user.BaseKey.__init__|key stored as given", vals == {"key"}, "self.key = key", "self.key = %s" % sorted(vals),
                  py.loc("user", pyr.fn_node(ctx, "user", "BaseKey", "__init__")), obligation=True)
    ps = pyr.paths(ctx, rep, rule, "user", "BaseKey", "_padded")
    if ps:
        rows = sorted({(tuple(sorted(set(p.conds))), pysym_text(p.ret)) for p in ps if p.done == "return"})
        want = sorted([((("eq(key_len,len(key))", True),), "key"), ((("eq(key_len,len(key))", False), ("key_len < len(key)", True)), "key[:key_len]"),
                       ((("eq(key_len,len(key))", False), ("key_len < len(key)", False)), "key + b'\\x00' * (key_len - len(key))")])
        rep.check(rule, "user.BaseKey._padded", rows == want or sorted(r[1] for r in rows) == sorted(w[1] for w in want), "truncate or zero-extend to key_len",
                  "_padded returns %s" % rows, py.loc("user", pyr.fn_node(ctx, "user", "BaseKey", "_padded")), obligation=True)
    ps = pyr.paths(ctx, rep, rule, "user", "KeyType", "_is_aligned")
    if ps:
        r = sorted({pysym_text(p.ret) for p in ps if p.done == "return"})
        good = (["self.is_master or self.is_localized"], ["self.is_localized or self.is_master"], ["not self.is_password"],
                ["self in (self.Master, self.Localized)"], ["self != self.Password"])
        where = py.loc("user", pyr.fn_node(ctx, "user", "KeyType", "_is_aligned"))
        if r in good:
            rep.ok(rule, "user.KeyType._is_aligned", r[0], where, obligation=True)
        elif all(x in ("self.is_master", "self.is_localized", "self.is_password", "True", "False", "self.is_password or self.is_master",
                       "self.is_password or self.is_localized") for x in r):
            rep.violation(rule, "user.KeyType._is_aligned", "_is_aligned returns %s: master and localized keys (and only they) are fixed-length" % r, where, obligation=True)
        else:
            rep.inconclusive(rule, "user.KeyType._is_aligned", "_is_aligned returns %s" % r, where)


# ---------------------------------------------------------------------------- C11 / C14
def priv_fresh(ctx, rep, rule):
    """encrypt / decrypt re-initialise the cipher's private buffer before using it (history independence)."""
    for adt in (DES, AES):
        for meth in ("encrypt", "decrypt"):
            body = _body(ctx, rep, rule, "<%s as privacy::SnmpPriv>::%s" % (adt, meth))
            if body is None:
                continue
            prov = flow.Prov(body)
            key = "%s::%s" % (adt, meth)
            resets = [b for b in body.calls() if (callee_path(b.term) or "").endswith("Buffer::reset") and fp(prov.operand(b.term["args"][0])) == ("arg1", "buf")]
            uses = [b for b in body.calls() if b not in resets and any(fp(prov.operand(a)) == ("arg1", "buf") for a in b.term["args"])]
            if not uses:
                rep.missing(rule, key + ": use of self.buf")
                continue
            if not resets:
                rep.violation(rule, key + "|buffer-reset-first", "self.buf is used without being reset first: the output depends on what earlier requests and "
                              "replies left in the cipher's private buffer", body.loc(uses[0].term["line"]), obligation=True)
                continue
            cut = {(r.idx, s) for r in resets for s in r.succs()}
            ok = cfg.must_pass(body, [0], [u.idx for u in uses], cut)
            rep.check(rule, key + "|buffer-reset-first", ok, "self.buf.reset() precedes every use", "self.buf can be used before it is reset", body.loc(resets[0].term["line"]),
                      obligation=True)


def priv_layout(ctx, rep, rule):
    """Key / IV layouts of RFC 3414 8.1.1.1 (DES) and RFC 3826 3.1.2.1 (AES), and the encrypted range."""
    facts = ctx.facts

    def rng_of(t):
        # Index(base, Range*) -> (base term, (start, end)) with None for open ends; the halves of split_at(_mut) likewise
        if t[0] == "call" and ((t[1] or "").endswith("::index") or (t[1] or "").endswith("::index_mut")) and len(t[2]) == 2 and t[2][1][0] == "agg":
            r = t[2][1]
            d = dict(r[3])
            return t[2][0], (d.get("start"), d.get("end"), r[1].split("::")[-1])
        pc = piece(t)
        if pc is not None and (pc[1] != 0 or pc[2] is not None):
            b, s_, e_ = pc
            return b, (("const", s_) if s_ else None, ("const", e_) if e_ is not None else None, "Range")
        return None, None

    def piece(t):
        """(base, start, end|None) of a slice obtained by split_at / split_at_mut / constant range indexing / get(range)?."""
        t = flow.success_value(t)
        if t[0] == "some" and (t[1][1] or "").split("::")[-1] in ("get", "get_mut") and len(t[1][2]) == 2 and t[1][2][1][0] == "agg":
            t = ("call", "::index", t[1][2])
        if t[0] == "f" and t[2] in ("0", "1") and t[1][0] == "call" and ((t[1][1] or "").endswith("::split_at_mut") or (t[1][1] or "").endswith("::split_at")) \
                and len(t[1][2]) == 2:
            n = _cv(facts, t[1][2][1])
            inner = piece(t[1][2][0]) or (t[1][2][0], 0, None)
            if not isinstance(n, int):
                return None
            b, s_, e_ = inner
            return (b, s_, s_ + n) if t[2] == "0" else (b, s_ + n, e_)
        if t[0] == "call" and ((t[1] or "").endswith("::index") or (t[1] or "").endswith("::index_mut")) and len(t[2]) == 2 and t[2][1][0] == "agg":
            d = dict(t[2][1][3])
            a_, b_ = _cv(facts, d.get("start")), _cv(facts, d.get("end"))
            if (a_ is None or isinstance(a_, int)) and (b_ is None or isinstance(b_, int)):
                inner = piece(t[2][0]) or (t[2][0], 0, None)
                return (inner[0], inner[1] + (a_ or 0), inner[1] + b_ if b_ is not None else inner[2])
        return None

    def cst(x):
        if x is None:
            return None
        if x[0] == "const":
            return x[1]
        if x[0] == "uneval" or (x[0] == "const" and len(x) > 2):
            return x
        return flow.fmt(x)
    # --- DES as_localized
    body = _body(ctx, rep, rule, "<%s as privacy::SnmpPriv>::as_localized" % DES)
    if body is not None:
        prov = flow.Prov(body)
        cps = [b for b in body.calls() if (callee_path(b.term) or "").endswith("copy_from_slice") or (callee_path(b.term) or "").endswith("clone_from_slice")]
        got = {}
        for b in cps:
            d, s = prov.operand(b.term["args"][0]), prov.operand(b.term["args"][1])
            base, r = rng_of(s)
            if fp(d) and base == ("arg", 2) and r:
                got[fp(d)[-1]] = (_cv(facts, r[0]), _cv(facts, r[1]))
        rep.check(rule, "DesKey::as_localized|key", got.get("key") == (None, 8), "DES key = Kul[0..8]", "DES key taken from key[%s]" % (got.get("key"),), body.loc(),
                  obligation=True)
        rep.check(rule, "DesKey::as_localized|pre-IV", got.get("pre_iv") == (8, 16), "pre-IV = Kul[8..16]", "pre-IV taken from key[%s]" % (got.get("pre_iv"),), body.loc(),
                  obligation=True)
    body = _body(ctx, rep, rule, "<%s as privacy::SnmpPriv>::as_localized" % AES)
    if body is not None:
        prov = flow.Prov(body)
        cps = [b for b in body.calls() if (callee_path(b.term) or "").endswith("copy_from_slice") or (callee_path(b.term) or "").endswith("clone_from_slice")]
        got = {}
        for b in cps:
            d, s = prov.operand(b.term["args"][0]), prov.operand(b.term["args"][1])
            base, r = rng_of(s)
            if fp(d) and base == ("arg", 2) and r:
                got[fp(d)[-1]] = (_cv(facts, r[0]), _cv(facts, r[1]))
        rep.check(rule, "Aes128Key::as_localized|key", got.get("key") == (None, 16), "AES key = Kul[0..16]", "AES key taken from key[%s]" % (got.get("key"),), body.loc(),
                  obligation=True)
    # --- encrypt: salt layout
    for adt, exp in ((DES, [((None, 4), "arg3", 4), ((4, None), "salt", 4)]), (AES, [((None, 4), "arg3", 4), ((4, 8), "arg4", 4), ((8, None), "salt", 8)])):
        body = _body(ctx, rep, rule, "<%s as privacy::SnmpPriv>::encrypt" % adt)
        if body is None:
            continue
        prov = flow.Prov(body)
        nm = adt.split("::")[-1]
        cps = sorted([b for b in body.calls() if (callee_path(b.term) or "").endswith("clone_from_slice") or (callee_path(b.term) or "").endswith("copy_from_slice")], key=lambda b: b.idx)
        got = []
        for b in cps:
            d, s = prov.operand(b.term["args"][0]), prov.operand(b.term["args"][1])
            base, r = rng_of(d)
            if base is not None and fp(base) == ("arg1", "priv_params") and r:
                src = "?"
                if _is_call(s, "::to_be_bytes"):
                    x = s[2][0]
                    if x[0] == "arg":
                        src = "arg%d" % x[1]
                    elif fp(x) == ("arg1", "salt_value"):
                        src = "salt"
                    else:
                        src = flow.fmt(x)[:60]
                got.append(((_cv(facts, r[0]), _cv(facts, r[1])), src))
        want = [(rg, src) for rg, src, _ in exp]
        if not got:
            # nothing this rule recognises as a copy into priv_params (built as one integer, through an iterator chain ...)
            rep.inconclusive(rule, "%s::encrypt|salt layout" % nm, "no piecewise copy into priv_params found: the layout is not decided in this shape", body.loc())
        else:
            rep.check(rule, "%s::encrypt|salt layout" % nm, got == want, "priv_params = %s" % want,
                      "privacy parameters are assembled as %s, the RFC layout is %s (arg3 = engine boots, arg4 = engine time)" % (got, want), body.loc(), obligation=True)
        # cipher construction
        nf = [b for b in body.calls() if (b.term["callee"].get("path") or "").endswith(("KeyIvInit::new_from_slices", "KeyIvInit::new"))]
        if len(nf) == 1:
            a = [prov.operand(x) for x in nf[0].term["args"]]
            rep.check(rule, "%s::encrypt|cipher key" % nm, fp(a[0]) == ("arg1", "key"), "self.key", "cipher keyed with %s" % flow.fmt(a[0]), body.loc(nf[0].term["line"]),
                      obligation=True)
            if adt == AES:
                rep.check(rule, "%s::encrypt|iv" % nm, fp(a[1]) == ("arg1", "priv_params"), "IV = boots|time|salt (self.priv_params)", "IV is %s" % flow.fmt(a[1]),
                          body.loc(nf[0].term["line"]), obligation=True)
        else:
            rep.missing(rule, "%s::encrypt: new_from_slices" % nm)
        if adt == DES:
            _des_iv(rep, rule, body, prov, "DesKey::encrypt", ("arg1", "priv_params"))
        # encrypted range == returned range == b[..padded_len], b = self.buf.data_mut()
        enc = [b for b in body.calls() if (b.term["callee"].get("path") or "").endswith("encrypt_padded_mut")]
        if len(enc) == 1:
            a = [prov.operand(x) for x in enc[0].term["args"]]
            base, r = rng_of(a[1])
            okb = base is not None and _is_call(base, "Buffer::data_mut", ("arg1", "buf")) and r and r[0] is None
            rep.check(rule, "%s::encrypt|encrypted range" % nm, okb and r[1] == a[2], "encrypt b[..padded_len] with length padded_len",
                      "the cipher runs over %s with length %s" % (flow.fmt(a[1])[:100], flow.fmt(a[2])[:100]), body.loc(enc[0].term["line"]), obligation=True)
            # returned data
            oks = [st for blk in body.live_blocks() for st in blk.stmts if st["k"] == "assign" and st["place"]["l"] == 0 and st["rv"]["k"] == "agg" and st["rv"].get("vname") == "Ok"]
            for st in oks:
                t = prov.operand(st["rv"]["ops"][0])
                if t[0] == "agg" and len(t[3]) == 2:
                    rb, rr = rng_of(t[3][0][1])
                    okr = rb is not None and _is_call(rb, "Buffer::data_mut", ("arg1", "buf")) and rr and rr[0] is None and rr[1] == a[2]
                    rep.check(rule, "%s::encrypt|returned range" % nm, okr, "returns the encrypted range b[..padded_len]",
                              "returns %s, the encrypted range is b[..%s]" % (flow.fmt(t[3][0][1])[:100], flow.fmt(a[2])[:60]), body.loc(st["line"]), obligation=True)
                    pp = t[3][1][1]
                    if adt == DES:
                        okp = fp(pp) == ("arg1", "priv_params")
                    else:
                        pb_, pr_ = rng_of(pp)
                        okp = pb_ is not None and fp(pb_) == ("arg1", "priv_params") and (_cv(facts, pr_[0]), _cv(facts, pr_[1])) == (8, None)
                    rep.check(rule, "%s::encrypt|returned salt" % nm, okp, "msgPrivacyParameters = the 8 salt octets", "returned privacy parameters are %s" % flow.fmt(pp)[:100],
                              body.loc(st["line"]), obligation=True)
        else:
            rep.missing(rule, "%s::encrypt: encrypt_padded_mut" % nm)
    # --- decrypt: IV from the message's USM parameters, same layout
    body = _body(ctx, rep, rule, "<%s as privacy::SnmpPriv>::decrypt" % AES)
    if body is not None:
        prov = flow.Prov(body)
        cps = sorted([b for b in body.calls() if (callee_path(b.term) or "").endswith("clone_from_slice")], key=lambda b: b.idx)
        got = []
        for b in cps:
            d, s = prov.operand(b.term["args"][0]), prov.operand(b.term["args"][1])
            base, r = rng_of(d)
            if r:
                if _is_call(s, "::to_be_bytes"):
                    x = s[2][0]
                    while x[0] == "cast":
                        x = x[1]
                    src = ".".join(fp(x)) if fp(x) else flow.fmt(x)[:50]
                else:
                    src = ".".join(fp(s)) if fp(s) else flow.fmt(s)[:50]
                got.append(((_cv(facts, r[0]), _cv(facts, r[1])), src))
        want = [((None, 4), "arg3.engine_boots"), ((4, 8), "arg3.engine_time"), ((8, None), "arg3.privacy_params")]
        if not got:
            rep.inconclusive(rule, "Aes128Key::decrypt|iv layout", "no piecewise copy into the IV found: the layout is not decided in this shape", body.loc())
        else:
            rep.check(rule, "Aes128Key::decrypt|iv layout", got == want, "IV = usm.boots | usm.time | usm.privacy_params",
                      "the decryption IV is assembled as %s, RFC 3826 requires %s" % (got, want), body.loc(), obligation=True)
    body = _body(ctx, rep, rule, "<%s as privacy::SnmpPriv>::decrypt" % DES)
    if body is not None:
        _des_iv(rep, rule, body, flow.Prov(body), "DesKey::decrypt", ("arg3", "privacy_params"))
    for adt in (DES, AES):
        body = facts.body("<%s as privacy::SnmpPriv>::decrypt" % adt)
        if body is None:
            continue
        prov = flow.Prov(body)
        nm = adt.split("::")[-1]
        # skip(data.len()) then decrypt into data_mut(), then parse data()
        sk = [b for b in body.calls() if (callee_path(b.term) or "").endswith("Buffer::skip")]
        dec = [b for b in body.calls() if (b.term["callee"].get("path") or "").split("::")[-1] in ("decrypt_padded_b2b_mut", "decrypt_b2b")]
        tf = [b for b in body.calls() if (callee_path(b.term) or "").endswith("ScopedPdu<'a> as std::convert::TryFrom<&'a [u8]>>::try_from")]
        if not (sk and dec and tf):
            rep.missing(rule, "%s::decrypt: skip / decrypt / ScopedPdu::try_from" % nm)
            continue
        a = prov.operand(sk[0].term["args"][1])
        rep.check(rule, "%s::decrypt|room" % nm, _is_call(a, "[T]>::len") and a[2][0] == ("arg", 2), "room for data.len() octets", "skip(%s)" % flow.fmt(a), body.loc(),
                  obligation=True)
        d = [prov.operand(x) for x in dec[0].term["args"]]
        rep.check(rule, "%s::decrypt|in/out" % nm, d[1] == ("arg", 2) and _is_call(d[2], "Buffer::data_mut", ("arg1", "buf")), "ciphertext -> self.buf",
                  "decrypts %s into %s" % (flow.fmt(d[1])[:60], flow.fmt(d[2])[:60]), body.loc(dec[0].term["line"]), obligation=True)
        # the parse happens only on the success edge of the decryption
        sw = flow.discr_switches(body, prov, lambda t: flow.mentions(t, lambda s: s[0] == "call" and (s[1] or "").split("::")[-1] in ("decrypt_padded_b2b_mut", "decrypt_b2b")))
        okp = False
        for blk, term in sw:
            errt = [tg for tg, lb in blk.edges() if lb == ("case", 1)]
            if errt and tf[0].idx not in cfg.reachable(body, errt):
                okp = True
        rep.check(rule, "%s::decrypt|parse-after-success" % nm, okp, "uninitialised buffer is parsed only after a successful decryption",
                  "the skipped (unwritten) buffer can be parsed although decryption failed", body.loc(tf[0].term["line"]), obligation=True)
        t = prov.operand(tf[0].term["args"][0])
        rep.check(rule, "%s::decrypt|parse-source" % nm, _is_call(t, "Buffer::data", ("arg1", "buf")), "ScopedPdu::try_from(self.buf.data())", "parses %s" % flow.fmt(t)[:80],
                  body.loc(tf[0].term["line"]), obligation=True)


def _cv(facts, x):
    """Constant value of a range bound term (ints, or named constants evaluated by the driver)."""
    if x is None:
        return None
    if x[0] == "const" and isinstance(x[1], int):
        return x[1]
    if x[0] == "bin" and x[1] in ("Sub", "Add") and x[2][0] == "const" and x[3][0] == "const":
        return x[2][1] - x[3][1] if x[1] == "Sub" else x[2][1] + x[3][1]
    return flow.fmt(x)[:40]


def _des_iv(rep, rule, body, prov, name, salt_path):
    """iv[idx] = salt[k] ^ pre_iv[k] over zip(salt.iter(), self.pre_iv.iter()).enumerate()"""
    zips = [b for b in body.calls() if (callee_path(b.term) or "") == "std::iter::Iterator::zip"]
    xors = [b for b in body.calls() if "BitXor" in (callee_path(b.term) or "")]
    if len(zips) != 1 or len(xors) != 1:
        rep.inconclusive(rule, name + "|iv", "IV construction not recognised", body.loc())
        return
    a = [prov.operand(x) for x in zips[0].term["args"]]
    ok = fp(a[0]) == salt_path and fp(a[1]) == ("arg1", "pre_iv")
    rep.check(rule, name + "|iv", ok, "IV = salt xor pre-IV", "the IV combines %s with %s (RFC 3414: salt xor pre-IV)" % (flow.fmt(a[0])[:60], flow.fmt(a[1])[:60]),
              body.loc(zips[0].term["line"]), obligation=True)
    nf = [b for b in body.calls() if (b.term["callee"].get("path") or "").endswith(("KeyIvInit::new_from_slices", "KeyIvInit::new"))]
    if nf:
        k = prov.operand(nf[0].term["args"][0])
        rep.check(rule, name + "|cipher key", fp(k) == ("arg1", "key"), "self.key", "cipher keyed with %s" % flow.fmt(k), body.loc(nf[0].term["line"]), obligation=True)


def salt_counter(ctx, rep, rule):
    """salt_value is written only at key installation (random) and in encrypt (wrapping +1, on every path that used it)."""
    facts = ctx.facts
    for adt in (DES, AES):
        nm = adt.split("::")[-1]
        t = facts.adts.get(adt)
        if t is None or not any(f["name"] == "salt_value" for f in t["variants"][0]["fields"]):
            rep.violation(rule, "%s.salt_value" % nm, "the cipher state has no salt_value counter any more: the uniqueness argument (a counter that advances by "
                          "one per message, written only by encrypt and key installation) cannot be made", obligation=True)
            continue
        writers = {}
        for body in facts.body_list:
            for (bi, kind, st, line) in flow.field_writes(body, adt, "salt_value"):
                writers.setdefault(body.path, []).append((bi, kind, st, line))
        allowed = {"<%s as privacy::SnmpPriv>::as_localized" % adt, "<%s as privacy::SnmpPriv>::encrypt" % adt}
        for w in writers:
            rep.check(rule, "%s.salt_value|written in %s" % (nm, w), w in allowed, "", "the salt counter is modified in %s" % w, facts.bodies[w].loc(), obligation=True)
        # also: the fields that carry the salt to the wire (priv_params) are written only in encrypt
        for body in facts.body_list:
            fw = flow.field_writes(body, adt, "priv_params")
            if fw:
                rep.check(rule, "%s.priv_params|written in %s" % (nm, body.path), body.path == "<%s as privacy::SnmpPriv>::encrypt" % adt, "",
                          "the transmitted privacy parameters are modified in %s" % body.path, body.loc(fw[0][3]), obligation=True)
        enc = facts.body("<%s as privacy::SnmpPriv>::encrypt" % adt)
        if enc is None:
            rep.missing(rule, nm + "::encrypt")
            continue
        prov = flow.Prov(enc)
        ws = [w for w in writers.get(enc.path, []) if w[1] == "assign"]
        if not ws:
            rep.violation(rule, "%s::encrypt|increment" % nm, "encrypt never advances salt_value: every message is encrypted under the same IV", enc.loc(), obligation=True)
            continue
        for bi, kind, st, line in ws:
            tt = prov.rvalue(st["rv"])
            ok = tt[0] == "call" and (tt[1] or "").endswith("::wrapping_add") and fp(tt[2][0]) == ("arg1", "salt_value") and tt[2][1] == ("const", 1)
            rep.check(rule, "%s::encrypt|increment" % nm, ok, "salt_value = salt_value.wrapping_add(1)",
                      "the counter is advanced with %s: +1 modulo 2^w is what makes every value distinct over 2^w messages" % flow.fmt(tt), enc.loc(line), obligation=True)
        # every exit passes the increment once the salt was copied out
        uses = [b.idx for b in enc.calls() if _is_call(prov.call_term(b.term), "::to_be_bytes") and fp(prov.call_term(b.term)[2][0]) == ("arg1", "salt_value")]
        if not uses:
            # the salt may leave through another conversion (`salt_value as u128`, a shift into a wider word ...): any read
            # of the field that is not the operand of the increment
            def reads_salt(op):
                pl = op.get("move") or op.get("copy") if isinstance(op, dict) else None
                return bool(pl) and pl["l"] == 1 and any(isinstance(e, dict) and e.get("name") == "salt_value" for e in pl["p"])
            inc_blocks = {b.idx for b in enc.calls() if (callee_path(b.term) or "").endswith("::wrapping_add") and b.term["args"] and reads_salt(b.term["args"][0])}
            for blk in enc.live_blocks():
                hit = False
                for st_ in blk.stmts:
                    if st_["k"] == "assign":
                        rv_ = st_["rv"]
                        hit = hit or any(reads_salt(rv_.get(k_)) for k_ in ("op", "a", "b") if rv_.get(k_) is not None)
                if blk.term and blk.term["k"] == "call" and blk.idx not in inc_blocks:
                    hit = hit or any(reads_salt(a_) for a_ in blk.term["args"])
                if hit:
                    uses.append(blk.idx)
        rets = enc.returns()
        cut = {(w[0], s) for w in ws for s in enc.blocks[w[0]].succs()}
        # statements inside the same block: the write happens in block w[0]; leaving that block counts as crossing
        ok = bool(uses) and not (cfg.reachable(enc, uses, cut=cut) - {w[0] for w in ws}) & set(rets) if uses else False
        # the whole counter goes on the wire: on its way into the message it is not masked or narrowed below the width of the
        # RFC's field (RFC 3414: 32-bit local integer for DES; RFC 3826: 64 bits for AES) - fewer bits repeat sooner
        need = 32 if adt == DES else 64
        for blk in enc.live_blocks():
            for st_ in blk.stmts:
                if st_["k"] != "assign":
                    continue
                rv_ = st_["rv"]
                if rv_["k"] == "bin" and rv_.get("op") == "BitAnd":
                    for x_, y_ in ((rv_["a"], rv_["b"]), (rv_["b"], rv_["a"])):
                        m_ = (y_.get("const", {}).get("v") or {}).get("int") if "const" in y_ else None
                        if isinstance(m_, int) and flow.mentions(prov.operand(x_), lambda s_: fp(s_) == ("arg1", "salt_value")) and bin(m_ & ((1 << need) - 1)).count("1") < need:
                            rep.violation(rule, "%s::encrypt|whole counter on the wire" % nm, "the salt counter is masked with 0x%x before it is copied into the message: "
                                          "only %d of its %d bits reach the wire, the salt repeats after 2^%d messages" % (m_, bin(m_).count("1"), need, bin(m_).count("1")),
                                          enc.loc(st_.get("line")), obligation=True)
                if rv_["k"] == "cast" and rv_.get("ck") == "IntToInt" and "const" not in rv_["op"]:
                    tt_ = facts.types[rv_["to"]]
                    if tt_.get("k") == "int" and tt_["bits"] < need and flow.mentions(prov.operand(rv_["op"]), lambda s_: fp(s_) == ("arg1", "salt_value")):
                        rep.violation(rule, "%s::encrypt|whole counter on the wire" % nm, "the salt counter is narrowed to %d bits before it is copied into the message "
                                      "(the field holds %d)" % (tt_["bits"], need), enc.loc(st_.get("line")), obligation=True)
        if not uses:
            rep.inconclusive(rule, "%s::encrypt|no-exit-without-increment" % nm, "no read of salt_value found besides the increment", enc.loc())
        else:
            rep.check(rule, "%s::encrypt|no-exit-without-increment" % nm, ok, "no return between using the salt and advancing it",
                      "encrypt can return after copying the salt into the message without advancing the counter", enc.loc(), obligation=True)
        al = facts.body("<%s as privacy::SnmpPriv>::as_localized" % adt)
        if al is not None:
            p2 = flow.Prov(al)
            w2 = [w for w in writers.get(al.path, []) if w[1] in ("assign", "call_dest")]
            okr = bool(w2) and all((w[1] == "call_dest" and (callee_path(w[2]) or "").endswith("Rng::random")) or
                                   (w[1] == "assign" and flow.mentions(p2.rvalue(w[2]["rv"]), lambda s: _is_call(s, "Rng::random"))) for w in w2)
            rep.check(rule, "%s::as_localized|seed" % nm, okr, "seeded from the RNG at key installation", "salt seed is not random", al.loc(), obligation=True)
        # returned privacy parameters have length 8 (type level)
        ft = {f["name"]: dict(facts.types[f["ty"]]) for f in t["variants"][0]["fields"] if "ty" in f}
        for v in ft.values():
            # array lengths written with a named constant are left unevaluated by rustc in the struct definition
            if isinstance(v.get("len"), str):
                mod = adt.rsplit("::", 1)[0]
                c = facts.consts.get(mod + "::" + v["len"].split("::")[-1])
                if c and c.get("v") and "int" in c["v"]:
                    v["len"] = int(c["v"]["int"])
        if adt == DES:
            rep.check(rule, nm + ".priv_params|8 octets", ft.get("priv_params", {}).get("len") == 8, "[u8; 8]", "priv_params is %s" % ft.get("priv_params", {}).get("s"), obligation=True)
        else:
            rep.check(rule, nm + ".priv_params|16 octets, last 8 sent", ft.get("priv_params", {}).get("len") == 16, "[u8; 16]", "priv_params is %s" % ft.get("priv_params", {}).get("s"),
                      obligation=True)


# ---------------------------------------------------------------------------- C03 / C17 wire
def fresh_buffers(ctx, rep, rule):
    facts = ctx.facts
    # (i) Buffer::default: pos = MAX_SIZE
    b = _body(ctx, rep, rule, "<buf::buffer::Buffer as std::default::Default>::default")
    if b is not None:
        p = flow.Prov(b)
        for (bi, st, f, vn) in flow.aggregate_inits(b, "buf::buffer::Buffer"):
            t = p.operand(f["pos"])
            ms = facts.const_value("buf::buffer::MAX_SIZE")
            rep.check(rule, "Buffer::default|empty", t == ("const", ms), "pos = MAX_SIZE (empty)", "a new buffer starts with pos = %s" % flow.fmt(t), b.loc(st["line"]),
                      obligation=True)
    b = _body(ctx, rep, rule, "buf::buffer::Buffer::reset")
    if b is not None:
        ws = flow.field_writes(b, "buf::buffer::Buffer", "pos")
        ms = facts.const_value("buf::buffer::MAX_SIZE")
        ok = len(ws) == 1 and flow.Prov(b).rvalue(ws[0][2]["rv"]) == ("const", ms)
        rep.check(rule, "Buffer::reset|empty", ok, "pos = MAX_SIZE", "reset does not empty the buffer", b.loc(), obligation=True)
    # (ii) BufferHandle::drop: reset() crossed on every path to pool.push(buf)
    b = _body(ctx, rep, rule, "<buf::pool::BufferHandle as std::ops::Drop>::drop")
    if b is not None:
        rs = [x for x in b.calls() if (callee_path(x.term) or "").endswith("Buffer::reset")]
        ps = [x for x in b.calls() if (callee_path(x.term) or "") == "std::vec::Vec::<T, A>::push"]
        if not ps:
            rep.missing(rule, "BufferHandle::drop: pool.push")
        else:
            cut = {(r.idx, s) for r in rs for s in r.succs()}
            rep.check(rule, "BufferHandle::drop|reset-before-return-to-pool", bool(rs) and cfg.must_pass(b, [0], [x.idx for x in ps], cut),
                      "a buffer is reset before it goes back to the pool", "a buffer can return to the pool without being reset: the next request built in it carries the "
                      "left-over octets inside its outer SEQUENCE", b.loc(ps[0].term["line"]), obligation=True)
    # (iii) the pool Vec is used only in buf::pool
    for body in facts.body_list:
        for blk in body.calls():
            cp = callee_path(blk.term) or ""
            if cp in ("std::vec::Vec::<T, A>::pop", "std::vec::Vec::<T, A>::push") and "Buffer" in str(blk.term["callee"].get("args")):
                rep.check(rule, "pool Vec<Buffer>|%s in %s" % (cp.split("::")[-1], body.path), body.path.startswith("buf::pool") or body.path.startswith("<buf::pool"), "",
                          "the buffer pool is manipulated in %s" % body.path, body.loc(blk.term["line"]))
    # (iv) _send_inner: the buffer handed to push_pdu is the freshly acquired one, nothing written before, data() of the same buffer is sent
    b = _body(ctx, rep, rule, "socket::snmpsocket::SnmpSocket::_send_inner")
    if b is not None:
        p = flow.Prov(b)
        pp = [x for x in b.calls() if (x.term["callee"].get("path") or "").endswith("::push_pdu")]
        sd = [x for x in b.calls() if (callee_path(x.term) or "").endswith("Socket::send")]
        if len(pp) != 1 or len(sd) != 1:
            rep.missing(rule, "_send_inner: push_pdu / send")
        else:
            bt = p.operand(pp[0].term["args"][2])
            ok = flow.mentions(bt, lambda s: _is_call(s, "BufferPool::acquire"))
            rep.check(rule, "_send_inner|fresh-buffer", ok, "push_pdu(pdu, freshly acquired buffer)", "push_pdu writes into %s" % flow.fmt(bt)[:100], b.loc(pp[0].term["line"]),
                      obligation=True)
            pre = [x for x in b.calls() if x.idx in _reaching_blocks(b, pp[0].idx) and x.idx != pp[0].idx and
                   "Buffer::" in (callee_path(x.term) or "") and (callee_path(x.term) or "").split("::")[-1].startswith("push")]
            rep.check(rule, "_send_inner|nothing-before", not pre, "the buffer is untouched before push_pdu", "the buffer is written before push_pdu", b.loc())
            st_ = p.operand(sd[0].term["args"][1])
            oks = _is_call(st_, "Buffer::data") and flow.mentions(st_, lambda s: _is_call(s, "BufferPool::acquire"))
            rep.check(rule, "_send_inner|sends-what-was-built", oks, "send(buf.data()) of the same buffer", "the datagram sent is %s" % flow.fmt(st_)[:100], b.loc(sd[0].term["line"]),
                      obligation=True)
            # send only across the Ok edge of push_pdu
            sw = flow.discr_switches(b, p, lambda t: flow.mentions(t, lambda s: s[0] == "call" and (s[1] or "").endswith("::push_pdu")))
            okk = False
            for blk, term in sw:
                brk = [tg for tg, lb in blk.edges() if lb == ("case", 1)]
                if brk and sd[0].idx not in cfg.reachable(b, brk):
                    okk = True
            # ... and the outcome is inspected before sending: every way to the send crosses a success edge
            okedges = {(blk.idx, tg) for blk, term in sw for tg, lb in blk.edges() if lb == ("case", 0)}
            okk = okk and bool(okedges) and cfg.must_pass(b, [0], [sd[0].idx], okedges)
            rep.check(rule, "_send_inner|send-only-after-success", okk, "nothing is sent when serialisation fails",
                      "a datagram can be sent although push_pdu failed (e.g. OutOfBuffer)", b.loc(sd[0].term["line"]), obligation=True)


def _reaching_blocks(body, target):
    preds = body.preds()
    seen = set()
    work = [target]
    while work:
        x = work.pop()
        if x in seen:
            continue
        seen.add(x)
        work += preds[x]
    return seen


def op_tables(ctx, rep, rule):
    """Operation -> request PDU (A.3): variant, non-repeaters 0, max-repetitions from the caller, OIDs in order, NULL values."""
    facts = ctx.facts
    table = (("get::OpGet", "GetRequest", "snmp::get::SnmpGet"), ("getmany::OpGetMany", "GetRequest", "snmp::get::SnmpGet"),
             ("refresh::OpRefresh", "GetRequest", "snmp::get::SnmpGet"), ("getnext::OpGetNext", "GetNextRequest", "snmp::get::SnmpGet"),
             ("getbulk::OpGetBulk", "GetBulkRequest", "snmp::getbulk::SnmpGetBulk"))
    for op, variant, payload in table:
        bs = [b for b in facts.body_list if b.path.startswith("<snmp::op::%s as snmp::op::PyOp" % op) and b.path.endswith("::from_python")]
        if not bs:
            rep.missing(rule, op + "::from_python")
            continue
        body = bs[0]
        prov = flow.Prov(body)
        ag = flow.aggregate_inits(body, "snmp::pdu::SnmpPdu")
        rep.check(rule, "%s::from_python|pdu type" % op, [a[3] for a in ag] == [variant], "-> " + variant, "%s builds %s, the API call requires %s" % (op, [a[3] for a in ag], variant),
                  body.loc(), obligation=True)
        for (bi, st, f, vn) in flow.aggregate_inits(body, payload):
            rid = prov.operand(f["request_id"])
            rep.check(rule, "%s::from_python|request-id" % op, rid == ("arg", 2), "request_id = the id drawn for this request", "request_id is %s" % flow.fmt(rid), body.loc(st["line"]),
                      obligation=True)
            if "non_repeaters" in f:
                t = prov.operand(f["non_repeaters"])
                rep.check(rule, "%s::from_python|non-repeaters" % op, t == ("const", 0), "0", "non-repeaters is %s" % flow.fmt(t), body.loc(st["line"]), obligation=True)
                t = prov.operand(f["max_repetitions"])
                rep.check(rule, "%s::from_python|max-repetitions" % op, fp(t) == ("arg1", "1"), "the caller's max_repetitions", "max-repetitions is %s" % flow.fmt(t),
                          body.loc(st["line"]), obligation=True)
    # encoders keep the caller's order: vars.iter().rev() pushed into a back-to-front buffer, NULL value after each OID
    for nm in ("<snmp::get::SnmpGet<'_> as ber::BerEncoder>::push_ber", "<snmp::getbulk::SnmpGetBulk<'_> as ber::BerEncoder>::push_ber"):
        body = _body(ctx, rep, rule, nm)
        if body is None:
            continue
        prov = flow.Prov(body)
        rev = [b for b in body.calls() if (callee_path(b.term) or "") == "std::iter::Iterator::rev"]
        it = [b for b in body.calls() if (callee_path(b.term) or "").endswith("[T]>::iter")]
        okr = len(rev) == 1 and len(it) == 1 and flow.mentions(prov.operand(it[0].term["args"][0]), lambda s: fp(s) == ("arg1", "vars"))
        short = nm.split(" as ")[0].lstrip("<")
        rep.check(rule, short + "::push_ber|order", okr, "self.vars.iter().rev() into the back-to-front buffer", "varbinds are not pushed in reverse: the wire order differs from "
                  "the requested order", body.loc(), obligation=True)
        # the per-varbind code: the loop of this body (or the closure handed to for_each / try_for_each) that pushes the OID
        def pushes(bd, only=None):
            order = cfg.rpo(bd)
            return [(callee_path(b.term) or "") for b in sorted(bd.calls(), key=lambda b: order.index(b.idx) if b.idx in order else 0)
                    if (only is None or b.idx in only) and ("push_ber" in (callee_path(b.term) or "") or "push_tag_len" in (callee_path(b.term) or ""))]
        cands = [pushes(body, bl) for h, bl in cfg.natural_loops(body).items()]
        cands += [pushes(c) for c in facts.closures_of(body.path)]
        cands = [c for c in cands if any("SnmpOid" in x or "SnmpNull" in x for x in c)]
        seq = cands[0] if len(cands) == 1 else [x for c in cands for x in c]
        okv = len(seq) == 3 and "SnmpNull" in seq[0] and "SnmpOid" in seq[1] and seq[2].endswith("push_tag_len")
        rep.check(rule, short + "::push_ber|varbind", okv, "NULL, then the OID, then the SEQUENCE header (back to front)", "a varbind is serialised as %s" % [s.split("::")[-2:] for s in seq],
                  body.loc(), obligation=True)
    # getmany keeps the list order
    bs = [b for b in facts.body_list if b.path.startswith("<snmp::op::getmany::OpGetMany as snmp::op::PyOp") and b.path.endswith("::from_python")]
    if bs:
        body = bs[0]
        calls = [(callee_path(b.term) or "") for b in body.calls()]
        rep.check(rule, "OpGetMany::from_python|order", any(c.endswith("IntoIterator>::into_iter") for c in calls) and not any(c.endswith("::rev") or "sort" in c or "dedup" in c for c in calls),
                  "into_iter().map(..).collect() keeps the caller's order", "the OID list is reordered", body.loc(), obligation=True)


def sockets_sibling(ctx, rep, rule):
    """The pymethods of the three socket classes bind each Python method to the same generic with the same operation."""
    facts = ctx.facts
    table = {"get": ("send_and_recv", "OpGet"), "send_get": ("send_request", "OpGet"), "recv_get": ("recv_reply", "OpGet"),
             "get_many": ("send_and_recv", "OpGetMany"), "send_get_many": ("send_request", "OpGetMany"), "recv_get_many": ("recv_reply", "OpGetMany"),
             "get_next": ("send_and_recv", "OpGetNext"), "send_get_next": ("send_request", "OpGetNext"), "recv_get_next": ("recv_reply", "OpGetNext"),
             "get_bulk": ("send_and_recv", "OpGetBulk"), "send_get_bulk": ("send_request", "OpGetBulk"), "recv_get_bulk": ("recv_reply", "OpGetBulk")}
    v3only = {"refresh": ("send_and_recv", "OpRefresh"), "send_refresh": ("send_request", "OpRefresh"), "recv_refresh": ("recv_reply", "OpRefresh")}
    for cls in ("socket::v1::SnmpV1ClientSocket", "socket::v2c::SnmpV2cClientSocket", "socket::v3::SnmpV3ClientSocket"):
        t = dict(table)
        if "V3" in cls:
            t.update(v3only)
        for meth, (gen, op) in t.items():
            body = facts.body("%s::%s" % (cls, meth))
            if body is None:
                rep.missing(rule, "%s::%s" % (cls, meth))
                continue
            cs = [b for b in body.calls() if (b.term["callee"].get("path") or "").startswith("socket::snmpsocket::SnmpSocket::")]
            got = [((b.term["callee"].get("path") or "").split("::")[-1], [a.get("s", "") for a in b.term["callee"].get("args", [])]) for b in cs]
            ok = len(got) == 1 and got[0][0] == gen and any(op == a.split("::")[-1] for a in got[0][1]) and got[0][1][0] == cls
            rep.check(rule, "%s::%s" % (cls, meth), ok, "%s::<%s>" % (gen, op), "%s.%s is bound to %s" % (cls.split("::")[-1], meth, got), body.loc(), obligation=True)


def buffer_err(ctx, rep, rule):
    """Every Result of a Buffer push method is propagated (never dropped) on the send path."""
    facts = ctx.facts
    scope = scope_closure(ctx, SEND_ROOTS)
    n = 0
    for p in sorted(scope):
        body = facts.bodies.get(p)
        if body is None or numrun.is_glue(body):
            continue
        prov = None
        for blk in body.calls():
            cp = callee_path(blk.term) or ""
            is_push = cp.startswith("buf::buffer::Buffer::push") and not cp.endswith("unchecked") or cp.endswith("BerEncoder>::push_ber") or cp.endswith("::push_pdu") or \
                (blk.term["callee"].get("path") or "").endswith("BerEncoder::push_ber")
            if not is_push:
                continue
            n += 1
            prov = prov or flow.Prov(body)
            dst = blk.term["dest"]["l"]
            # the result must flow into a `?` (Try::branch), into the return place, or into a match on its variant
            used = False
            if dst == 0:
                used = True
            for b2 in body.live_blocks():
                for st in b2.stmts:
                    if st["k"] == "assign":
                        for pl in _places_in_rv(st["rv"]):
                            if pl["l"] == dst:
                                used = True
                t = b2.term
                if t and t["k"] == "call" and b2.idx != blk.idx:
                    for a in t["args"]:
                        pl = a.get("move") or a.get("copy")
                        if pl and pl["l"] == dst:
                            used = True
            rep.check(rule, "%s|result of %s#%d" % (p, cp.split("::")[-1], blk.idx), used, "propagated", "the Result of %s is dropped: an OutOfBuffer failure would go "
                      "unnoticed and a truncated message be sent" % cp.split("::")[-1], body.loc(blk.term["line"]), obligation=True)
    if n < 20:
        rep.violation(rule, "floor", "only %d buffer-push calls found on the send path, floor is 20" % n)


def buffer_owner(ctx, rep, rule):
    """pos / bookmark / data of Buffer are written only inside buf::buffer; skip and as_slice have the expected callers."""
    facts = ctx.facts
    for fld in ("pos", "bookmark", "data"):
        for body in facts.body_list:
            fw = flow.field_writes(body, "buf::buffer::Buffer", fld)
            if fw:
                rep.check(rule, "Buffer.%s|written in %s" % (fld, body.path), body.path.startswith("buf::buffer::") or body.path.startswith("<buf::buffer::"), "",
                          "Buffer.%s is modified outside buf::buffer (in %s)" % (fld, body.path), body.loc(fw[0][3]), obligation=True)
    sk = sorted({b.path for b, blk in flow.call_sites(facts, lambda p: p == "buf::buffer::Buffer::skip")})
    rep.check(rule, "Buffer::skip|callers", set(sk) <= {"<%s as privacy::SnmpPriv>::decrypt" % DES, "<%s as privacy::SnmpPriv>::decrypt" % AES} and len(sk) == 2,
              "only the two decrypt functions expose unwritten space (and fill it before reading)", "skip() is called from %s" % sk, obligation=True)
    sl = sorted({b.path for b, blk in flow.call_sites(facts, lambda p: p == "buf::buffer::Buffer::as_slice")})
    rep.check(rule, "Buffer::as_slice|callers", sl == ["socket::snmpsocket::SnmpSocket::recv_socket"], "only recv_socket, with the size returned by recv",
              "as_slice() is called from %s" % sl, obligation=True)
    rs = facts.body("socket::snmpsocket::SnmpSocket::recv_socket")
    if rs is not None:
        p = flow.Prov(rs)
        for blk in rs.calls():
            if (callee_path(blk.term) or "").endswith("Buffer::as_slice"):
                t = p.operand(blk.term["args"][1])
                ok = flow.mentions(t, lambda s: _is_call(s, "Socket::recv")) and p.operand(blk.term["args"][0]) == ("arg", 2)
                rep.check(rule, "recv_socket|as_slice(n)", ok, "n = result of recv into this buffer", "as_slice(%s)" % flow.fmt(t)[:80], rs.loc(blk.term["line"]), obligation=True)
            if (callee_path(blk.term) or "").endswith("Socket::recv"):
                t = p.operand(blk.term["args"][1])
                rep.check(rule, "recv_socket|recv(buf)", flow.mentions(t, lambda s: s == ("arg", 2)), "recv into the caller's buffer", "recv target is %s" % flow.fmt(t)[:80],
                          rs.loc(blk.term["line"]))


def key_type_rejections(ctx, rep, rule):
    """AuthKey::as_key_type refuses a key for its type bits and its size only.  The algorithm bits of the code play no part:
    the session derives the *privacy* key through the authentication key object (`pk_auth.as_key_type(priv_alg, ..)`), so
    the code it passes carries the privacy algorithm; a refusal decided by `alg & KT_ALG_MASK` turns every MD5+AES or
    SHA-1+DES user away."""
    facts = ctx.facts
    body = facts.body("auth::AuthKey::as_key_type")
    if body is None:
        rep.missing(rule, "AuthKey::as_key_type")
        return
    rep.note_analysed("functions", [body.path])
    prov = flow.Prov(body)
    errs = flow.blocks_assigning_return(body, lambda rv: rv["k"] == "agg" and rv.get("vname") == "Err")
    n = 0

    def alg_outside_type_mask(t, masked=False):
        if t == ("arg", 2):
            return not masked
        if t[0] == "bin" and t[1] == "BitAnd":
            for a_, b_ in ((t[2], t[3]), (t[3], t[2])):
                if b_[0] == "const" and isinstance(b_[1], int) and (b_[1] & 0x3f) == 0:
                    return alg_outside_type_mask(a_, True)
        if t[0] == "bin" and t[1] == "Shr" and t[3][0] == "const" and isinstance(t[3][1], int) and t[3][1] >= 6:
            return alg_outside_type_mask(t[2], True)
        return any(alg_outside_type_mask(x, masked) for x in t[1:] if isinstance(x, tuple) and x and isinstance(x[0], str)) or \
            any(alg_outside_type_mask(y, masked) for x in t[1:] if isinstance(x, tuple) and x and isinstance(x[0], tuple) for y in x if isinstance(y, tuple) and y and isinstance(y[0], str))
    for g, pol, tgt in flow.deciding_guards(body, prov, errs):
        n += 1
        key = "AuthKey::as_key_type|refusal decided by %s" % flow.fmt(g.term)[:60]
        rep.check(rule, key, not alg_outside_type_mask(g.term), "type bits / key size", "a key is refused on the algorithm bits of the code (%s): the privacy key "
                  "derivation passes the privacy algorithm's code to the authentication key object" % flow.fmt(g.term)[:100], body.loc(g.line), obligation=True)
    if n < 2:
        rep.inconclusive(rule, "AuthKey::as_key_type|refusals", "%d deciding guards found" % n, body.loc())
    # the installers receive (key, engine id) in this order: both are &[u8], a swap type-checks
    for b in body.calls():
        last = (callee_path(b.term) or "").split("::")[-1]
        if last not in ("as_password", "as_master", "as_localized"):
            continue
        a = [prov.operand(x) for x in b.term["args"]]
        want = [("arg", 3), ("arg", 4)] if last != "as_localized" else [("arg", 3)]
        got = a[1:1 + len(want)]
        if all(x[0] == "arg" for x in got):
            rep.check(rule, "AuthKey::as_key_type|%s(key, engine id)" % last, got == want, "key, then engine id", "%s is called with %s: the key and the engine id are "
                      "swapped, the localized key is H(engine id, key, engine id)" % (last, [flow.fmt(x) for x in got]), body.loc(b.term["line"]), obligation=True)


def send_result_used(ctx, rep, rule):
    """What `_send_inner` reports reaches the caller: its Result is propagated (`?`, returned, matched), never dropped.  A
    `let _ = self._send_inner(pdu)` turns the OutOfBuffer of a request that does not fit into a silent wait for a reply that
    cannot come (TimeoutError instead of SnmpEncodeError, after the whole timeout)."""
    facts = ctx.facts
    n = 0
    for body in facts.body_list:
        for b in body.calls():
            if not (callee_path(b.term) or "").endswith("::_send_inner"):
                continue
            n += 1
            d = b.term["dest"]
            used = False
            if d["p"] or d["l"] == 0:
                used = True
            else:
                for x in body.live_blocks():
                    for st_ in x.stmts:
                        if st_["k"] == "assign" and flow_uses(st_["rv"], d["l"]):
                            used = True
                    t = x.term
                    if t and t["k"] == "call" and x is not b and any(((a.get("move") or a.get("copy") or {}).get("l") == d["l"]) for a in t["args"]):
                        used = True
                    if t and t["k"] == "switch" and (t["discr"].get("move") or t["discr"].get("copy") or {}).get("l") == d["l"]:
                        used = True
            rep.check(rule, "%s|result of _send_inner" % body.path, used, "propagated", "the Result of _send_inner is dropped: a request that could not be "
                      "encoded or sent is waited for as if it had left", body.loc(b.term["line"]), obligation=True)
    if n < 2:
        rep.missing(rule, "_send_inner call sites (found %d)" % n)


def flow_uses(rv, l):
    """Does the rvalue read local l (operand, place of a ref / discriminant)?"""
    def pl_l(x):
        return x.get("l") if isinstance(x, dict) and "l" in x else None
    for k in ("op", "a", "b"):
        o = rv.get(k)
        if isinstance(o, dict):
            p_ = o.get("move") or o.get("copy")
            if p_ and p_.get("l") == l:
                return True
    if pl_l(rv.get("place")) == l:
        return True
    for o in rv.get("ops", []) or []:
        p_ = o.get("move") or o.get("copy") if isinstance(o, dict) else None
        if p_ and p_.get("l") == l:
            return True
    return False


def nested_lengths(ctx, rep, rule):
    """The length operand of every push_tag_len in an encoder is the size of what was pushed since a mark taken in the same
    function (buf.len() - start), a constant, or the length of the chunk just pushed; the bare buf.len() is allowed only for the
    outermost message SEQUENCE (which relies on the buffer starting empty)."""
    facts = ctx.facts
    top = ("<snmp::msg::v1::SnmpV1Message<'_> as ber::BerEncoder>::push_ber", "<snmp::msg::v2c::SnmpV2cMessage<'_> as ber::BerEncoder>::push_ber",
           "<snmp::msg::v3::msg::SnmpV3Message<'_> as ber::BerEncoder>::push_ber")
    n = 0
    for body in facts.body_list:
        if not (body.impl_trait == "ber::BerEncoder" and body.name == "push_ber") and body.path != "buf::buffer::Buffer::push_tagged":
            continue
        prov = flow.Prov(body)
        bare = 0
        calls = sorted([b for b in body.calls() if (callee_path(b.term) or "").endswith("Buffer::push_tag_len")], key=lambda b: b.idx)
        for i, b in enumerate(calls):
            n += 1
            t = prov.operand(b.term["args"][2])
            t0 = t
            while t[0] == "f" and t[2] == "0" and t[1][0] == "bin":
                t = t[1]
            kind = None
            if t[0] == "const":
                kind = "const"
            elif t[0] == "bin" and t[1] in ("Sub", "SubWithOverflow") and all(_is_call(x, "Buffer::len") for x in (t[2], t[3])):
                kind = "diff"
            elif _is_call(t, "Buffer::len"):
                kind = "bare"
            elif _is_call(t, "[T]>::len") or _is_call(t, "::len"):
                kind = "chunk"
            key = "%s|push_tag_len#%d length" % (body.path, i)
            if kind == "diff":
                # an element pushed once per iteration is measured from a mark taken in the same iteration: a mark from before
                # the loop makes every element but the first span its predecessors too
                lps = [bl for h_, bl in cfg.natural_loops(body).items() if b.idx in bl]
                if lps:
                    inner = min(lps, key=len)
                    mark_blocks = {x.idx for x in body.calls() if (callee_path(x.term) or "").endswith("Buffer::len")}
                    # the subtrahend of the difference: the local it is read from must be assigned in the loop
                    sub = b.term["args"][2]
                    okm = None
                    dl = (sub.get("move") or sub.get("copy") or {}).get("l")
                    defs = [x for x in body.live_blocks() for st_ in x.stmts if st_["k"] == "assign" and not st_["place"]["p"] and st_["place"]["l"] == dl and st_["rv"]["k"] == "bin"]
                    # the subtraction that feeds this length operand: args[2] = move (_t.0) with _t = SubWithOverflow(len, mark), or = Sub(len, mark)
                    feed = set()
                    if dl is not None:
                        feed.add(dl)
                        for x in body.live_blocks():
                            for st_ in x.stmts:
                                if st_["k"] == "assign" and not st_["place"]["p"] and st_["place"]["l"] == dl and st_["rv"]["k"] == "use":
                                    src_ = st_["rv"]["op"].get("move") or st_["rv"]["op"].get("copy") or {}
                                    if src_.get("l") is not None:
                                        feed.add(src_["l"])
                    for x in body.live_blocks():
                        for st_ in x.stmts:
                            if st_["k"] == "assign" and not st_["place"]["p"] and st_["place"]["l"] in feed and st_["rv"]["k"] == "bin" and \
                                    st_["rv"].get("op", "").startswith("Sub") and x.idx in inner:
                                ml = (st_["rv"]["b"].get("move") or st_["rv"]["b"].get("copy") or {}).get("l")
                                if ml is None:
                                    continue
                                # where does the mark get its value?  (through plain copies `_k = start` back to the defining call)
                                cur_l, chain = ml, set()
                                for _ in range(4):
                                    copies = [s2 for y in body.live_blocks() for s2 in y.stmts if s2["k"] == "assign" and not s2["place"]["p"] and s2["place"]["l"] == cur_l]
                                    callsd = [y.idx for y in body.calls() if not y.term["dest"]["p"] and y.term["dest"]["l"] == cur_l]
                                    if callsd:
                                        chain = set(callsd)
                                        break
                                    if len(copies) == 1 and copies[0]["rv"]["k"] == "use":
                                        nx = (copies[0]["rv"]["op"].get("move") or copies[0]["rv"]["op"].get("copy") or {})
                                        if nx.get("p") or nx.get("l") is None:
                                            break
                                        cur_l = nx["l"]
                                        continue
                                    chain = {y.idx for y in body.live_blocks() for s2 in y.stmts if s2 in copies}
                                    break
                                if chain:
                                    okm = bool(chain & inner) if okm is None else (okm and bool(chain & inner))
                    if okm is False:
                        rep.violation(rule, key, "an element pushed inside a loop is measured from a mark taken before the loop (buf.len() - mark with the mark outside): "
                                      "every element after the first also spans the ones pushed before it", body.loc(b.term["line"]), obligation=True)
                        continue
            if kind in ("const", "diff", "chunk"):
                rep.ok(rule, key, {"const": "constant", "diff": "buf.len() - start", "chunk": "length of the chunk pushed"}[kind], body.loc(b.term["line"]), obligation=True)
            elif kind == "bare":
                last = b is calls[-1]
                rep.check(rule, key, body.path in top and last, "outermost SEQUENCE: buf.len() of a buffer that started empty",
                          "a nested element's length is taken from buf.len(): it is only right when the buffer held nothing before this element "
                          "(wrong under privacy, where the cipher's buffer already holds the padding)", body.loc(b.term["line"]), obligation=True)
            elif flow.mentions(t0, lambda s_: s_[0] == "bin" and s_[1] in ("Add", "AddWithOverflow") and
                               any(x[0] == "const" and isinstance(x[1], int) and x[1] >= 1 for x in (s_[2], s_[3]))) and \
                    flow.mentions(t0, lambda s_: s_[0] == "call" and (s_[1] or "").split("::")[-1] == "len"):
                rep.violation(rule, key, "the length of a constructed element is computed as %s (contents length plus a constant header size) instead of being "
                              "measured as buf.len() - mark: it is wrong as soon as an inner element needs a long-form length" % flow.fmt(t0)[:100],
                              body.loc(b.term["line"]), obligation=True)
            else:
                rep.inconclusive(rule, key, "length operand %s not recognised" % flow.fmt(t0)[:80], body.loc(b.term["line"]))
    if n < 7:
        rep.violation(rule, "floor", "only %d push_tag_len calls in encoders, floor is 7" % n)


# ---------------------------------------------------------------------------- C03.mirror / C15.mirror
MIRROR = [
    ("snmp::msg::v1::SnmpV1Message", "<snmp::msg::v1::SnmpV1Message<'a> as std::convert::TryFrom<&'a [u8]>>::try_from", "<snmp::msg::v1::SnmpV1Message<'_> as ber::BerEncoder>::push_ber"),
    ("snmp::msg::v2c::SnmpV2cMessage", "<snmp::msg::v2c::SnmpV2cMessage<'a> as std::convert::TryFrom<&'a [u8]>>::try_from", "<snmp::msg::v2c::SnmpV2cMessage<'_> as ber::BerEncoder>::push_ber"),
    ("snmp::msg::v3::msg::SnmpV3Message", "<snmp::msg::v3::msg::SnmpV3Message<'a> as std::convert::TryFrom<&'a [u8]>>::try_from", "<snmp::msg::v3::msg::SnmpV3Message<'_> as ber::BerEncoder>::push_ber"),
    ("snmp::msg::v3::usm::UsmParameters", "<snmp::msg::v3::usm::UsmParameters<'a> as std::convert::TryFrom<&'a [u8]>>::try_from", "<snmp::msg::v3::usm::UsmParameters<'_> as ber::BerEncoder>::push_ber"),
    ("snmp::msg::v3::scoped::ScopedPdu", "<snmp::msg::v3::scoped::ScopedPdu<'a> as std::convert::TryFrom<&'a [u8]>>::try_from", "<snmp::msg::v3::scoped::ScopedPdu<'_> as ber::BerEncoder>::push_ber"),
    ("snmp::get::SnmpGet", "<snmp::get::SnmpGet<'a> as std::convert::TryFrom<&'a [u8]>>::try_from", "<snmp::get::SnmpGet<'_> as ber::BerEncoder>::push_ber"),
    ("snmp::getbulk::SnmpGetBulk", "<snmp::getbulk::SnmpGetBulk<'a> as std::convert::TryFrom<&'a [u8]>>::try_from", "<snmp::getbulk::SnmpGetBulk<'_> as ber::BerEncoder>::push_ber"),
]


def _is_from_ber(t):
    return t[0] == "call" and (t[1] or "").endswith("::from_ber")


def _head_parse(t):
    """First from_ber call reached from t without entering another from_ber's arguments, with the projection kind
    ('rest' = the remainder after the element, 'inner' = the contents of the element's value, 'value')."""
    names = []
    x = t
    while True:
        if x[0] == "f":
            names.append(x[2])
            x = x[1]
        elif x[0] == "dc":
            x = x[1]
        elif x[0] in ("cast",):
            x = x[1]
        elif x[0] == "idx":
            x = x[1]
        elif x[0] == "bin":
            x = x[2] if x[2][0] != "const" else x[3]
        elif x[0] == "un":
            x = x[2]
        elif x[0] == "call" and not _is_from_ber(x):
            if not x[2]:
                return None, None
            x = x[2][0]
            names = []
        elif _is_from_ber(x):
            names.reverse()
            # names are projections applied to the Continue payload: ['0','0'] rest, ['0','1',...] value / inner
            if names[:2] == ["0", "0"]:
                return "rest", x
            if names[:2] == ["0", "1"] and len(names) >= 3:
                return "inner", x
            return "value", x
        else:
            return None, None


def _wire_pos(call, depth=0):
    if depth > 40 or not call[2]:
        return None
    arg = call[2][0]
    if arg[0] == "arg":
        return (0,)
    kind, parent = _head_parse(arg)
    if parent is None:
        return None
    pp = _wire_pos(parent, depth + 1)
    if pp is None:
        return None
    if kind == "rest":
        return pp[:-1] + (pp[-1] + 1,)
    return pp + (0,)


def layout_mirror(ctx, rep, rule):
    """For every message / PDU struct: the order in which the decoder reads the fields from the wire equals the reverse of
    the order in which the encoder pushes them into the back-to-front buffer."""
    facts = ctx.facts
    for adt, decn, encn in MIRROR:
        dec, enc = facts.body(decn), facts.body(encn)
        short = adt.split("::")[-1]
        if dec is None or enc is None:
            rep.missing(rule, "%s: try_from / push_ber" % short)
            continue
        dp = flow.Prov(dec)
        fields = {}
        for (bi, st, f, vn) in flow.aggregate_inits(dec, adt):
            for name, op in f.items():
                t = dp.operand(op)
                kind, call = _head_parse(t)
                if call is None:
                    continue
                pos = _wire_pos(call)
                if pos is not None:
                    fields[name] = pos
        dec_order = [n for n, _ in sorted(fields.items(), key=lambda x: x[1])]
        ep = flow.Prov(enc)
        order = cfg.rpo(enc)
        seen = []
        for bi in order:
            t = enc.blocks[bi].term
            if not t or t["k"] != "call":
                continue
            cp = callee_path(t) or ""
            if not ("Buffer::push" in cp or cp.endswith("::push_ber") or (t["callee"].get("path") or "").endswith("BerEncoder::push_ber")):
                continue
            for a in t["args"]:
                for sub in flow.subterms(ep.operand(a)):
                    pth = fp(sub)
                    if pth and pth[0] == "arg1" and len(pth) >= 2 and pth[1] not in seen:
                        seen.append(pth[1])
        enc_order = list(reversed(seen))
        common = [n for n in dec_order if n in enc_order]
        enc_common = [n for n in enc_order if n in common]
        key = "%s|field order" % short
        rep.info(rule, short + "|orders", "decoder %s / encoder %s" % (dec_order, enc_order))
        if len(common) < 2:
            rep.inconclusive(rule, key, "fewer than two fields recognised on both sides (decoder %s, encoder %s)" % (dec_order, enc_order), enc.loc())
            continue
        lost = [n for n in dec_order if n not in enc_order]
        if len(dec_order) >= 2 and len(enc_order) >= 2:
            rep.check(rule, "%s|fields written" % short, not lost, "every field the decoder reads is written by the encoder",
                      "the decoder reads %s from the wire but the encoder never serialises %s (it writes %s): another field's value takes its place" %
                      (dec_order, lost, enc_order), enc.loc(), obligation=True)
        rep.check(rule, key, common == enc_common, "wire order %s on both sides" % common,
                  "the decoder reads %s but the encoder emits %s: the two are not inverses of each other" % (common, enc_common), enc.loc(), obligation=True)


def msg_flags(ctx, rep, rule):
    """msgFlags of an outgoing SNMPv3 message: one octet with bit 0 = auth, bit 1 = priv, bit 2 = reportable, each set exactly
    when the corresponding field of the message is - for all eight combinations.  Decided by forward execution of
    SnmpV3Message::push_ber over the eight cells; the `?` of the pushes is taken on its success edge."""
    facts = ctx.facts
    body = facts.body("<snmp::msg::v3::msg::SnmpV3Message<'_> as ber::BerEncoder>::push_ber")
    if body is None:
        rep.missing(rule, "SnmpV3Message::push_ber")
        return
    rep.note_analysed("functions", [body.path])
    consts = {}
    for nm, want in (("FLAG_AUTH", 1), ("FLAG_PRIV", 2), ("FLAG_REPORT", 4)):
        try:
            consts[nm] = facts.const_value("snmp::msg::v3::msg::" + nm)
        except Exception:
            consts[nm] = None
        if consts[nm] is None:
            # the named constant is gone (the bits may be written as literals or as arithmetic): the tables below decide
            rep.info(rule, "snmp::msg::v3::msg::" + nm, "constant not present in this tree")
            continue
        rep.check(rule, "snmp::msg::v3::msg::" + nm, consts[nm] == want, "= %d (RFC 3412 msgFlags)" % want, "%s = %s" % (nm, consts[nm]))
    table = {}
    for a in (0, 1):
        for p_ in (0, 1):
            for r in (0, 1):
                def ev(t, a=a, p_=p_, r=r):
                    pth = fp(t)
                    if pth == ("arg1", "flag_auth"):
                        return a
                    if pth == ("arg1", "flag_priv"):
                        return p_
                    if pth == ("arg1", "flag_report"):
                        return r
                    # every push succeeds: `?` continues
                    if t[0] == "discr" and flow.mentions(t, lambda s_: s_[0] == "call" and (s_[1] or "").endswith("::branch")):
                        return 0
                    return None
                seq = cells.run_cell(body, ev, lambda b: (callee_path(b.term) or "").endswith("Buffer::push_u8"))
                table[(a, p_, r)] = [v[1] if len(v) > 1 else None for _, v in seq]
    n = min((len(v) for v in table.values()), default=0)
    good = None
    for k in range(n):
        if all(table[c][k] == c[0] * 1 + c[1] * 2 + c[2] * 4 for c in table):
            good = k
    if n == 0:
        rep.inconclusive(rule, "SnmpV3Message::push_ber|msgFlags", "no push_u8 of a cell-determined value found: flags octet not recognised", body.loc())
        return
    wrong = {c: v for c, v in table.items() if good is None}
    determined = [k for k in range(n) if all(isinstance(table[c][k], int) for c in table)]
    varying = [k for k in determined if len({table[c][k] for c in table}) > 1]
    if good is None and not varying:
        rep.inconclusive(rule, "SnmpV3Message::push_ber|msgFlags", "the flags octet is computed in a way the cell execution does not follow "
                         "(iterator / closure): its table is not decided", body.loc())
        return
    rep.check(rule, "SnmpV3Message::push_ber|msgFlags", good is not None, "auth | priv << 1 | reportable << 2 for all eight combinations",
              "the msgFlags octet is not auth|priv|reportable for every security level: (auth, priv, report) -> octets pushed %s" %
              sorted(wrong.items()), body.loc(), obligation=True)


def msg_flags_decode(ctx, rep, rule):
    """The decoder's side of msgFlags: the three flag fields of the SnmpV3Message built by try_from are, for every value of
    the flags octet, bit 0 / bit 1 / bit 2 of that octet - the table SnmpV3Message::push_ber writes (msg_flags).  Decided by
    folding the three field terms over all 256 octet values; the octet is the one non-constant leaf they share."""
    facts = ctx.facts
    body = None
    for b in facts.body_list:
        if b.path.startswith("<snmp::msg::v3::msg::SnmpV3Message<") and b.path.endswith("::try_from"):
            body = b
    if body is None:
        rep.missing(rule, "SnmpV3Message::try_from")
        return
    rep.note_analysed("functions", [body.path])
    prov = flow.Prov(body)
    aggs = []
    for blk in body.live_blocks():
        for st_ in blk.stmts:
            if st_["k"] == "assign" and st_["rv"]["k"] == "agg":
                t = prov.rvalue(st_["rv"])
                if t[0] == "agg" and (t[1] or "").endswith("SnmpV3Message") and len(t) > 3:
                    aggs.append((blk, t))
    if not aggs:
        rep.missing(rule, "SnmpV3Message::try_from: the message aggregate")
        return
    def leaves(t, out):
        if t[0] == "const":
            return
        if t[0] == "bin":
            leaves(t[2], out)
            leaves(t[3], out)
        elif t[0] == "un":
            leaves(t[2], out)
        elif t[0] == "cast":
            leaves(t[1], out)
        else:
            out.add(t)
    bits = {"flag_auth": 1, "flag_priv": 2, "flag_report": 4}
    for blk, t in aggs:
        fields = {f: ft for f, ft in t[3] if f in bits}
        if set(fields) != set(bits):
            rep.inconclusive(rule, "SnmpV3Message::try_from|msgFlags", "flag fields not all set in the aggregate (%s)" % sorted(fields), body.loc())
            continue
        lv = set()
        for ft in fields.values():
            leaves(ft, lv)
        if len(lv) != 1:
            rep.inconclusive(rule, "SnmpV3Message::try_from|msgFlags", "the flag fields are not functions of one octet (%d leaves): not decided" % len(lv), body.loc())
            continue
        leaf = next(iter(lv))
        bad = {}
        und = False
        for f, ft in fields.items():
            for v in range(256):
                r = cells.eval_term(ft, lambda x, v=v: v if x == leaf else None)
                if not isinstance(r, int):
                    und = True
                    break
                if bool(r) != bool(v & bits[f]):
                    bad.setdefault(f, v)
        if und:
            rep.inconclusive(rule, "SnmpV3Message::try_from|msgFlags", "a flag field does not fold to a value for a given octet", body.loc())
            continue
        # msgFlags is OCTET STRING (SIZE(1)): a successful parse crosses a test that its length is one
        gl = []
        for g in flow.guards(body, prov):
            ea = flow.eq_atom(g)
            if ea and any(x == ("const", 1) for x in ea[:2]) and any(x[0] == "call" and (x[1] or "").split("::")[-1] == "len" for x in ea[:2]):
                gl.append(ea[2])
        # slice patterns (`let [flags] = ..`) compare the length metadata instead of calling len()
        for g in flow.guards(body, prov):
            ea = flow.eq_atom(g)
            if ea and any(x == ("const", 1) for x in ea[:2]) and any(x[0] == "un" and x[1] == "PtrMetadata" for x in ea[:2]):
                gl.append(ea[2])
        oks_ = flow.blocks_assigning_return(body, lambda rv: rv["k"] == "agg" and rv.get("vname") == "Ok")
        if oks_:
            # variant-aware: the length test may sit in a helper whose `?` was inlined (its Err continuation must not flow into Ok)
            rep.check(rule, "SnmpV3Message::try_from|msgFlags is one octet", bool(gl) and not (cells.variant_reach(body, cut=frozenset(gl)) & set(oks_)),
                      "len(msgFlags) == 1 before Ok", "a msgFlags field of another size than one octet is accepted (its first octet is used)",
                      body.loc(), obligation=True)
        rep.check(rule, "SnmpV3Message::try_from|msgFlags", not bad, "flag_auth/flag_priv/flag_report = bits 0/1/2 of the flags octet, for all 256 octets",
                  "decoded flags do not mirror the encoder's msgFlags table: %s" %
                  ", ".join("%s differs from bit %d for octet 0x%02x" % (f, bits[f].bit_length() - 1, v) for f, v in sorted(bad.items())), body.loc(), obligation=True)


def guard_range(body, prov, block_idx, src):
    """(lo, hi) of the value `src` (a Prov term) at `block_idx`, from the guards that every way to the block crosses:
    `(a..=b).contains(&v)`, `(a..b).contains(&v)` and comparisons of v with constants.  None where nothing is known."""
    while src[0] == "cast":
        src = src[1]
    lo, hi = None, None
    for g in flow.guards(body, prov):
        for edge, pol in ((g.true_edge, True), (g.false_edge, False)):
            if not cfg.must_pass(body, [0], [block_idx], {edge}):
                continue
            t = g.term
            if pol and t[0] == "call" and (t[1] or "").split("::")[-1] == "contains" and len(t[2]) == 2 and t[2][1] == src:
                r_ = t[2][0]
                while r_[0] == "promoted":
                    r_ = r_[1]
                if r_[0] == "call" and (r_[1] or "").endswith("RangeInclusive::<Idx>::new") and all(x[0] == "const" for x in r_[2]):
                    lo, hi = max(lo, r_[2][0][1]) if lo is not None else r_[2][0][1], min(hi, r_[2][1][1]) if hi is not None else r_[2][1][1]
                elif r_[0] == "agg" and (r_[1] or "").endswith("ops::Range") and len(r_) > 3:
                    fs = dict(r_[3])
                    a_, b_ = fs.get("start"), fs.get("end")
                    if a_ and b_ and a_[0] == "const" and b_[0] == "const":
                        lo, hi = max(lo, a_[1]) if lo is not None else a_[1], min(hi, b_[1] - 1) if hi is not None else b_[1] - 1
            if t[0] == "bin" and t[1] in ("Lt", "Le", "Gt", "Ge") and t[2] == src and t[3][0] == "const":
                op_, c_ = t[1], t[3][1]
                if not pol:
                    op_ = {"Lt": "Ge", "Le": "Gt", "Gt": "Le", "Ge": "Lt"}[op_]
                if op_ == "Lt":
                    hi = c_ - 1 if hi is None else min(hi, c_ - 1)
                elif op_ == "Le":
                    hi = c_ if hi is None else min(hi, c_)
                elif op_ == "Gt":
                    lo = c_ + 1 if lo is None else max(lo, c_ + 1)
                else:
                    lo = c_ if lo is None else max(lo, c_)
    return lo, hi


def literal_int_tlv(ctx, rep, rule):
    """An INTEGER written as a literal TLV `[02, 01, x as u8]` (a "small value" fast path beside SnmpInt::push_ber) is right
    only for 0..=127: the single content octet is a two's-complement number, 128..=255 read back as -128..=-1.  The range
    of x at the cast is taken from the numeric analysis (cast facts); an unknown range is inconclusive."""
    facts = ctx.facts
    res = None
    n = 0
    for body in facts.body_list:
        if not any((callee_path(b.term) or "") in ("buf::buffer::Buffer::push", "buf::buffer::Buffer::push_unchecked") for b in body.calls()):
            continue
        for blk in body.live_blocks():
            for st_ in blk.stmts:
                if not (st_["k"] == "assign" and st_["rv"]["k"] == "agg" and st_["rv"].get("ak") == "array" and len(st_["rv"].get("ops") or []) == 3):
                    continue
                ops = st_["rv"]["ops"]
                prov = flow.Prov(body)
                t0, t1, t2 = [prov.operand(o) for o in ops]
                if t0 != ("const", 2) or t1 != ("const", 1) or t2[0] == "const":
                    continue
                # the cast that produced the content octet (through plain moves of temporaries)
                site = None
                l = (ops[2].get("move") or ops[2].get("copy") or {}).get("l")
                for _ in range(6):
                    nxt = None
                    for b2 in body.live_blocks():
                        for si, s2 in enumerate(b2.stmts):
                            if s2["k"] == "assign" and s2["place"]["l"] == l and not s2["place"]["p"]:
                                if s2["rv"]["k"] == "cast":
                                    site = (b2.idx, si, s2)
                                elif s2["rv"]["k"] == "use":
                                    q = s2["rv"]["op"].get("move") or s2["rv"]["op"].get("copy")
                                    nxt = q["l"] if q and not q["p"] else None
                    if site is not None or nxt is None:
                        break
                    l = nxt
                n += 1
                key = "%s|literal INTEGER, one content octet" % body.path
                if site is None:
                    rep.inconclusive(rule, key, "the content octet is not produced by a cast", body.loc(st_.get("line")))
                    continue
                # range of the value where the literal is built: from the guards every way to it crosses (a..=b contains,
                # comparisons with constants), else from the numeric analysis (cast facts)
                lo, hi = guard_range(body, prov, blk.idx, prov.operand(site[2]["rv"]["op"]))
                if lo is None or hi is None:
                    if res is None:
                        from .. import numrun
                        res = numrun.run(ctx)
                    d = res.by_body.get(body.path) or {}
                    rec = [c for c in d.get("casts", []) if c["block"] == site[0] and c["stmt"] == site[1]]
                    ft = facts.types[site[2]["rv"]["from"]] if site[2]["rv"].get("from") is not None else {}
                    full = ft.get("k") == "int" and rec and min(c["lo"] if c["lo"] is not None else 0 for c in rec) <= -(1 << (ft["bits"] - 1)) + 0 and ft.get("signed")
                    if not rec or any(c["lo"] is None or c["hi"] is None for c in rec) or full:
                        rep.inconclusive(rule, key, "range of the value at the cast is not known", body.loc(site[2].get("line")))
                        continue
                    lo = min(c["lo"] for c in rec) if lo is None else lo
                    hi = max(c["hi"] for c in rec) if hi is None else hi
                rep.check(rule, key, 0 <= lo and hi <= 127, "value within 0..=127",
                          "values %d..=%d are written as the single content octet of an INTEGER: 128..=255 go on the wire as -128..=-1" % (lo, hi),
                          body.loc(site[2].get("line")), obligation=True)
    rep.info(rule, "literal one-octet INTEGER TLVs", str(n))


def usm_fields_raw(ctx, rep, rule):
    """UsmParameters::try_from hands the four OCTET STRING fields on exactly as decoded (zero copy): msgUserName,
    msgAuthoritativeEngineID, the authentication and privacy parameters are compared with session state by unwrap_pdu,
    so a field that was cut, padded or re-sliced on the way compares equal for messages that are different."""
    facts = ctx.facts
    body = None
    for b in facts.body_list:
        if b.path.startswith("<snmp::msg::v3::usm::UsmParameters<") and b.path.endswith("::try_from"):
            body = b
    if body is None:
        rep.missing(rule, "UsmParameters::try_from")
        return
    prov = flow.Prov(body)
    n = 0
    for blk in body.live_blocks():
        for st_ in blk.stmts:
            if st_["k"] == "assign" and st_["rv"]["k"] == "agg":
                t = prov.rvalue(st_["rv"])
                if not (t[0] == "agg" and (t[1] or "").endswith("UsmParameters") and len(t) > 3):
                    continue
                for f, ft in t[3]:
                    if f not in ("user_name", "engine_id", "auth_params", "privacy_params"):
                        continue
                    n += 1
                    cut = flow.mentions(ft, lambda x: x[0] == "call" and (x[1] or "").split("::")[-1] in
                                        ("index", "get", "split_at", "split_first", "split_last", "trim_ascii", "strip_prefix", "strip_suffix", "first_chunk", "last_chunk",
                                         "min", "truncate", "to_vec", "to_owned"))
                    def decoded(t, proj=()):
                        # on every alternative the field is what a decoder returned: a field that is decoded on one path and
                        # made up on another (an empty string for a sequence that ended early) is not the message's.  The
                        # projections met on the way in (`.0.1.0` of the Continue payload) select the matching aggregate field.
                        k = t[0]
                        if k == "phi":
                            return all(decoded(x, proj) for x in t[1])
                        if k == "f":
                            return decoded(t[1], (t[2],) + proj)
                        if k == "dc":
                            return decoded(t[1], proj)
                        if k == "call":
                            last = (t[1] or "").split("::")[-1]
                            if (t[1] or "").endswith("::from_ber"):
                                return True
                            if last == "from_residual":
                                return True      # the failure alternative: no message comes of it
                            if last == "branch" and len(t[2]) == 1:
                                return decoded(t[2][0], proj)
                            return flow.mentions(t, lambda x: x[0] == "call" and (x[1] or "").endswith("::from_ber"))
                        if k == "agg":
                            if t[2] == "Err":
                                return True
                            if proj:
                                for fn_, fv in t[3]:
                                    if fn_ == proj[0]:
                                        return decoded(fv, proj[1:])
                            return flow.mentions(t, lambda x: x[0] == "call" and (x[1] or "").endswith("::from_ber"))
                        if k in ("const", "promoted"):
                            return False
                        return True              # a cut-off trace (loop marker), an argument: not known to be made up
                    rep.check(rule, "UsmParameters::try_from|%s as decoded" % f, not cut and decoded(ft),
                              "the decoded OCTET STRING, untouched", "%s is rewritten between the decoder and the message (%s): the session compares a "
                              "field the agent did not send" % (f, flow.fmt(ft)[:80]), body.loc(st_.get("line")), obligation=True)
    if n < 4:
        rep.inconclusive(rule, "UsmParameters::try_from|fields", "only %d of the four OCTET STRING fields found in the aggregate" % n, body.loc())


def out_of_buffer_owner(ctx, rep, rule):
    """SnmpError::OutOfBuffer is produced by the buffer alone (the write that does not fit fails): no encoder refuses a
    request on an estimate of its size - an estimate that is off refuses requests that fit."""
    facts = ctx.facts
    n = 0
    for body in facts.body_list:
        for blk in body.live_blocks():
            for st_ in blk.stmts:
                if st_["k"] == "assign" and st_["rv"]["k"] == "agg" and st_["rv"].get("vname") == "OutOfBuffer":
                    n += 1
                    inside = body.path.startswith("buf::") or body.path.startswith("<buf::")
                    rep.check(rule, "%s|OutOfBuffer" % body.path, inside, "raised by the buffer",
                              "OutOfBuffer is raised outside buf::buffer: the request is refused by a size estimate, not by the write that does not fit",
                              body.loc(st_.get("line")), obligation=True)
    if n == 0:
        rep.missing(rule, "SnmpError::OutOfBuffer: no construction site")


def nopriv_refuses(ctx, rep, rule):
    """A session without a privacy key has no way to read an encrypted scoped PDU: NoPriv::decrypt has no successful exit
    (unwrap_pdu drops the message), whatever the OCTET STRING contains."""
    facts = ctx.facts
    body = facts.body("<privacy::nopriv::NoPriv as privacy::SnmpPriv>::decrypt")
    if body is None:
        rep.missing(rule, "NoPriv::decrypt")
        return
    rep.note_analysed("functions", [body.path])
    oks = flow.blocks_assigning_return(body, lambda rv: rv["k"] == "agg" and rv.get("vname") == "Ok")
    rep.check(rule, "NoPriv::decrypt|never succeeds", not oks, "no Ok exit", "NoPriv::decrypt can return a scoped PDU: a session without a privacy key "
              "accepts the payload of a message flagged as encrypted", body.loc(), obligation=True)


def hand_lengths(ctx, rep, rule):
    """TLV headers are written by Buffer::push_tag_len / push_tagged only: no encoder pushes a length octet by hand (a
    `len() as u8` handed to push_u8 encodes only the short form and wraps above 255)."""
    facts = ctx.facts
    n = 0
    for body in facts.body_list:
        if body.path.startswith("buf::buffer::Buffer::"):
            continue
        if not any((callee_path(b.term) or "").startswith("buf::buffer::Buffer::push") for b in body.calls()):
            continue
        prov = flow.Prov(body)
        for b in body.calls():
            cp = callee_path(b.term) or ""
            if cp in ("buf::buffer::Buffer::push", "buf::buffer::Buffer::push_unchecked") and len(b.term["args"]) > 1:
                t = prov.operand(b.term["args"][1])
                for arr in [x for x in flow.subterms(t) if x[0] == "agg" and x[1] == "array"]:
                    for fname, ft in arr[3]:
                        if flow.mentions(ft, lambda s_: s_[0] == "call" and (s_[1] or "").split("::")[-1] == "len"):
                            n += 1
                            rep.violation(rule, "%s|push([.. %s ..])" % (body.path, flow.fmt(ft)[:40]), "a length octet is written by hand inside a pushed array "
                                          "(%s): only the short form is produced, lengths of 128 and more are mis-encoded; use push_tag_len" % flow.fmt(ft)[:80],
                                          body.loc(b.term["line"]), obligation=True)
            if cp in ("buf::buffer::Buffer::push_u8", "buf::buffer::Buffer::push_u8_unchecked") and len(b.term["args"]) > 1:
                n += 1
                t = prov.operand(b.term["args"][1])
                lenish = flow.mentions(t, lambda s_: s_[0] == "call" and (s_[1] or "").split("::")[-1] == "len")
                rep.check(rule, "%s|push_u8(%s)" % (body.path, flow.fmt(t)[:50]), not lenish, "not a length",
                          "a length octet is written by hand (push_u8 of %s): only the short form is produced, lengths of 128 and more are mis-encoded; "
                          "use push_tag_len" % flow.fmt(t)[:80], body.loc(b.term["line"]), obligation=True)
    rep.info(rule, "push_u8 call sites outside Buffer", str(n))


def key_size_guards(ctx, rep, rule):
    """get_localized_key refuses every master key whose length is not the digest size (an equality test, not an ordering) and
    get_master_key refuses the empty password; ScopedPdu::try_from adds no refusal of its own (padding after the scoped PDU
    of a decrypted message is legal, whatever its octets)."""
    facts = ctx.facts
    body = facts.body("util::get_localized_key")
    if body is None:
        rep.missing(rule, "util::get_localized_key")
    else:
        prov = flow.Prov(body)
        verr = [b.idx for b in body.calls() if (callee_path(b.term) or "").endswith("PyValueError::new_err") or "PyValueError" in (callee_path(b.term) or "")]
        gs = flow.deciding_guards(body, prov, verr)
        sized = [(g, pol) for g, pol, tgt in gs if flow.mentions(g.term, lambda s_: s_[0] == "call" and (s_[1] or "").split("::")[-1] == "len" and s_[2] and s_[2][0] == ("arg", 3))]
        if not sized:
            rep.violation(rule, "util::get_localized_key|key-size", "no test of master_key.len() leads to the ValueError exit: keys of any length are hashed", body.loc(),
                          obligation=True)
        for g, pol in sized:
            ea = flow.eq_atom(g)
            rep.check(rule, "util::get_localized_key|key-size", ea is not None and flow.mentions(g.term, lambda s_: s_[0] == "call" and (s_[1] or "").endswith("get_key_size")),
                      "master_key.len() != key size is refused", "the size test is %s: keys longer (or shorter) than the digest size are accepted and hashed" % flow.fmt(g.term)[:100],
                      body.loc(g.line), obligation=True)
    sb = facts.body("<snmp::msg::v3::scoped::ScopedPdu<'a> as std::convert::TryFrom<&'a [u8]>>::try_from")
    if sb is None:
        rep.missing(rule, "ScopedPdu::try_from")
    else:
        own = [vn for (bi, st, f, vn) in flow.aggregate_inits(sb, "error::SnmpError")]
        rep.check(rule, "ScopedPdu::try_from|no own refusal", not own, "errors come from the element parsers only",
                  "ScopedPdu::try_from refuses input on its own (%s): octets after the scoped PDU are padding of the block cipher and may have any value" % own,
                  sb.loc(), obligation=True)


def pad_constants(ctx, rep, rule):
    """The padding pushed in front of the scoped PDU and the amount subtracted from the buffer length afterwards are the same
    number (the cipher's block size) in both ciphers."""
    facts = ctx.facts
    for adt, cname in ((DES, "privacy::des"), (AES, "privacy::aes128")):
        body = facts.body("<%s as privacy::SnmpPriv>::encrypt" % adt)
        if body is None:
            rep.missing(rule, adt + "::encrypt")
            continue
        prov = flow.Prov(body)
        try:
            pad = facts.const_value(cname + "::PADDING")
            blk = facts.const_value(cname + "::BLOCK_SIZE")
        except Exception:
            rep.inconclusive(rule, adt + "::encrypt|padding constants", "PADDING / BLOCK_SIZE not found", body.loc())
            continue
        subs = []
        for b in body.live_blocks():
            for st in b.stmts:
                if st["k"] == "assign" and st["rv"]["k"] == "bin" and st["rv"]["op"].startswith("Sub"):
                    t = prov.rvalue(st["rv"])
                    if t[0] == "bin" and t[3][0] == "const" and isinstance(t[3][1], int) and flow.mentions(t[2], lambda s_: s_[0] == "call" and (s_[1] or "").endswith("Buffer::len")):
                        subs.append(t[3][1])
        npad = len(pad) if isinstance(pad, (bytes, bytearray)) else None
        key = adt.split("::")[-1] + "::encrypt|padding"
        rep.check(rule, key, npad == blk and bool(subs) and all(x == npad for x in subs), "push(PADDING) and buf.len() - %s agree" % blk,
                  "%d padding octets are pushed but %s is subtracted from the buffer length (block size %s): the scoped PDU length is off and its last "
                  "octet(s) are cut or padding is sent as data" % (npad or -1, subs, blk), body.loc(), obligation=True)
