"""C05 / C06 — walk containment, continuation, monotonicity, stop tables (E/W/P/T rules)."""
from .. import cells, cfg, flow
from ..cells import INF
from ..facts import callee_path
from .c07 import DATA_KINDS, EXC_KINDS, PDU, VALUE, find_op, is_len_of, is_len_term, is_value_discr, outcome, variant_index

GETITER = "snmp::op::getiter::GetIter"


def _store_blocks(body):
    """Blocks where self.next_oid is written (assigned or mutably borrowed for a store)."""
    return [(bi, kind, st, line) for (bi, kind, st, line) in flow.field_writes(body, GETITER, "next_oid")]


def contain(ctx, rep, rule):
    facts = ctx.facts
    body = facts.need("snmp::op::getiter::GetIter::set_next_oid")
    rep.note_analysed("functions", [body.path])
    prov = flow.Prov(body)
    gs = flow.guards(body, prov)
    writes = _store_blocks(body)
    if not writes:
        rep.missing(rule, "set_next_oid: write of self.next_oid")
        return
    wblocks = [w[0] for w in writes]
    sw = [g for g in gs if g.term[0] == "call" and (g.term[1] or "").endswith("::starts_with")]
    key = "GetIter::set_next_oid"
    good = [g for g in sw if len(g.term[2]) == 2 and flow.field_path(g.term[2][0]) == ("arg1", "start_oid") and g.term[2][1] == ("arg", 2)]
    if not good:
        rep.violation(rule, key + "|subtree-test", "no test start_oid.starts_with(oid) on the candidate OID guards the update of next_oid"
                      + ("; found %s" % [flow.fmt(g.term) for g in sw] if sw else ""), body.loc(), obligation=True)
    else:
        ok = cfg.must_pass(body, [0], wblocks, {g.true_edge for g in good})
        rep.check(rule, key + "|subtree-test", ok, "next_oid is updated only for an OID inside the requested subtree",
                  "next_oid can be updated without the subtree test holding", body.loc(good[0].line), obligation=True)
    # what is stored is the candidate itself
    for bi, kind, st, line in writes:
        if kind == "borrow_mut":
            # find the call consuming the borrow
            for b in body.calls():
                a = [prov.operand(x) for x in b.term["args"]]
                if a and flow.field_path(a[0]) == ("arg1", "next_oid") and (callee_path(b.term) or "").endswith("::store"):
                    rep.check(rule, key + "|stores-candidate", len(a) == 2 and a[1] == ("arg", 2), "next_oid.store(oid)",
                              "next_oid receives %s" % flow.fmt(a[1]) if len(a) > 1 else "?", body.loc(b.term["line"]), obligation=True)
    # `true` is returned only when the OID was accepted and stored
    true_blocks = [b.idx for b in body.live_blocks() for st in b.stmts
                   if st["k"] == "assign" and st["place"]["l"] == 0 and prov.rvalue(st["rv"]) == ("const", True)]
    if true_blocks:
        cut = {(w, s) for w in wblocks for s in body.blocks[w].succs()}
        rep.check(rule, key + "|true-iff-stored", cfg.must_pass(body, [0], true_blocks, cut),
                  "returns true only after storing", "returns true without updating next_oid", body.loc(), obligation=True)
    else:
        rep.inconclusive(rule, key + "|true-iff-stored", "no `true` return found", body.loc())
    # SnmpOid::starts_with(self, oid) == oid.0.starts_with(self.0)
    sb = [b for b in facts.body_list if b.path.startswith("ber::objectid::SnmpOid") and b.path.endswith("::starts_with")]
    if not sb:
        rep.missing(rule, "SnmpOid::starts_with")
        return
    sb = sb[0]
    sp = flow.Prov(sb)
    t = sp.local(0)
    ok = t[0] == "call" and (t[1] or "").endswith("[T]>::starts_with") and len(t[2]) == 2 and \
        flow.field_path(t[2][0]) == ("arg2", "0") and flow.field_path(t[2][1]) == ("arg1", "0")
    rep.check(rule, "SnmpOid::starts_with|prefix-direction", ok, "argument.starts_with(receiver): receiver is the subtree root",
              "starts_with computes %s" % flow.fmt(t), sb.loc(), obligation=True)


def mono(ctx, rep, rule):
    """The update of next_oid is guarded by a strict-order test candidate > current next_oid."""
    facts = ctx.facts
    body = facts.need("snmp::op::getiter::GetIter::set_next_oid")
    prov = flow.Prov(body)
    gs = flow.guards(body, prov)
    wblocks = [w[0] for w in _store_blocks(body)]
    key = "GetIter::set_next_oid|strictly-increasing"
    edges = set()
    line = None

    def is_cmp(t):
        return t[0] == "call" and (t[1] or "").split("::")[-1] in ("cmp_arcs", "cmp", "partial_cmp")

    def order_const(t):
        # Ordering::Less = -1, Equal = 0, Greater = 1 (promoted constants or aggregates)
        for s in flow.subterms(t):
            if s[0] == "const" and isinstance(s[1], int) and not isinstance(s[1], bool) and s[1] in (-1, 0, 1, 255):  # 255: i8 -1 as raw bits
                return -1 if s[1] == 255 else s[1]
            if s[0] == "agg" and s[1] == "std::cmp::Ordering":
                return {"Less": -1, "Equal": 0, "Greater": 1}[s[2]]
        return None

    for g in gs:
        ea = flow.eq_atom(g)
        if not ea:
            continue
        for c, o in ((ea[0], ea[1]), (ea[1], ea[0])):
            if is_cmp(c) and len(c[2]) == 2:
                oc = order_const(o)
                a, b = c[2]
                fa, fb = flow.field_path(a), flow.field_path(b)
                cand_first = a == ("arg", 2) and fb == ("arg1", "next_oid")
                cand_second = b == ("arg", 2) and fa == ("arg1", "next_oid")
                if (cand_first and oc == 1) or (cand_second and oc == -1):
                    edges.add(ea[2])
                    line = g.line
    # is_gt()/is_lt() forms
    for g in gs:
        t = g.term
        if t[0] == "call" and (t[1] or "").split("::")[-1] in ("is_gt", "is_lt") and t[2] and is_cmp(t[2][0]):
            a, b = t[2][0][2]
            gt = (t[1] or "").endswith("is_gt")
            if (gt and a == ("arg", 2) and flow.field_path(b) == ("arg1", "next_oid")) or \
                    (not gt and b == ("arg", 2) and flow.field_path(a) == ("arg1", "next_oid")):
                edges.add(g.true_edge)
                line = g.line
    # match oid.cmp_arcs(&self.next_oid) { Ordering::Greater => store, _ => .. }: the arm of the strict outcome
    for swb, term in flow.discr_switches(body, prov, lambda t: is_cmp(t) and len(t[2]) == 2):
        a, b = term[2]
        cand_first = a == ("arg", 2) and flow.field_path(b) == ("arg1", "next_oid")
        cand_second = b == ("arg", 2) and flow.field_path(a) == ("arg1", "next_oid")
        ve = flow.variant_edges(body, swb) or {}
        want = "Greater" if cand_first else ("Less" if cand_second else None)
        if want and want in ve and len({ve.get(x) for x in ("Less", "Equal", "Greater")}) > 1 and \
                ve[want] not in {ve.get(x) for x in ("Less", "Equal", "Greater") if x != want}:
            edges.add((swb.idx, ve[want]))
            line = swb.term.get("line")
    if not edges:
        rep.violation(rule, key, "no strict-order comparison between the candidate OID and the current next_oid guards the update: "
                      "a repeated or decreasing OID is accepted and the walk can loop forever", body.loc(), obligation=True)
        return
    ok = cfg.must_pass(body, [0], wblocks, edges)
    rep.check(rule, key, ok, "next_oid only moves forward", "next_oid can be updated on a path that skips the order test",
              body.loc(line), obligation=True)
    # the comparison is the arc-wise one, not a bytewise one (arc 16383 = ff 7f > 81 80 00 = arc 16384 bytewise)
    cmp_arcs_shape(ctx, rep, rule)


def cmp_arcs_shape(ctx, rep, rule):
    """Canonical shape of the arc-wise comparison (tolerant: an unrecognised shape is inconclusive).
    Per sub-identifier: the encoded length decides first (minimal base-128 encodings: more octets = greater
    value), the octets only break ties; the bytewise order alone is wrong (16383 = ff 7f, 16384 = 81 80 00)."""
    facts = ctx.facts
    cb = [b for b in facts.body_list if b.path.startswith("ber::objectid::SnmpOid") and b.path.endswith("::cmp_arcs")]
    if not cb:
        rep.inconclusive(rule, "SnmpOid::cmp_arcs|shape", "cmp_arcs not found (comparison implemented elsewhere)")
        return
    body = cb[0]
    prov = flow.Prov(body)
    tg = cells.tags(body, [b.idx for b in body.live_blocks()])
    rep.check(rule, "SnmpOid::cmp_arcs|by-sub-identifier", cells.has_call(tg, "::split_inclusive"),
              "compares sub-identifier by sub-identifier", "cmp_arcs no longer splits the encoding into sub-identifiers", body.loc(), obligation=True)
    # the sub-identifiers are cut where BER cuts them: after every octet whose bit 8 is clear, for all 256 octet values
    for sb in [b for b in body.calls() if (callee_path(b.term) or "").endswith("::split_inclusive") and len(b.term["args"]) > 1]:
        ct = prov.operand(sb.term["args"][1])
        cl = [x for x in flow.subterms(ct) if x[0] == "agg" and x[1] == "closure"]
        cbody = facts.body(cl[0][2]) if cl else None
        if cbody is None:
            rep.inconclusive(rule, "SnmpOid::cmp_arcs|end-of-arc predicate", "the predicate of split_inclusive is not a closure of the crate", body.loc(sb.term["line"]))
            continue
        rt = flow.Prov(cbody).local(0)
        bad = None
        und = False
        for v in range(256):
            r = cells.eval_term(rt, lambda x, v=v: v if x in (("arg", 2), ("deref", ("arg", 2))) else None)
            if not isinstance(r, int):
                und = True
                break
            if bool(r) != ((v & 0x80) == 0):
                bad = v if bad is None else bad
        if und:
            rep.inconclusive(rule, "SnmpOid::cmp_arcs|end-of-arc predicate", "predicate %s does not fold to a value per octet" % flow.fmt(rt)[:80], body.loc(sb.term["line"]))
        else:
            rep.check(rule, "SnmpOid::cmp_arcs|end-of-arc predicate", bad is None, "octet & 0x80 == 0 for all 256 octets",
                      "sub-identifiers are split by %s, which differs from `bit 8 clear` at octet 0x%02x: that octet is glued to (or cut from) the "
                      "next arc before the comparison" % (flow.fmt(rt)[:60], bad if bad is not None else 0), body.loc(sb.term["line"]), obligation=True)
    key = "SnmpOid::cmp_arcs|length-before-octets"

    def is_len_cmp(t):
        return t[0] == "call" and (t[1] or "").endswith("Ord for usize>::cmp") and all(
            flow.mentions(a, lambda s: s[0] == "call" and (s[1] or "").endswith("[T]>::len")) for a in t[2])

    def is_bytes_cmp(t):
        return t[0] == "call" and (t[1] or "").endswith("Ord for [T]>::cmp")

    def closure_term(name):
        cbd = facts.body(name)
        return flow.Prov(cbd).local(0) if cbd else None
    chains = [b for b in body.calls() if (callee_path(b.term) or "") in ("std::cmp::Ordering::then_with", "std::cmp::Ordering::then")]
    if len(chains) != 1:
        # no chain at all: is there any length comparison?
        allt = [prov.call_term(b.term) for b in body.calls()]
        if any(is_bytes_cmp(t) for t in allt) and not any(is_len_cmp(t) for t in allt):
            rep.violation(rule, key, "sub-identifiers are compared by their octets only: the encoded length is never compared, so "
                          "arc 16383 (ff 7f) sorts after arc 16384 (81 80 00)", body.loc(), obligation=True)
        else:
            rep.inconclusive(rule, key, "comparison chain not recognised", body.loc())
        return
    t = chains[0].term
    first = prov.operand(t["args"][0])
    second = prov.operand(t["args"][1])
    if second[0] == "agg" and second[1] == "closure":
        # closure aggregate: find its body by position (closure#k of cmp_arcs taking the captured slices)
        cands = [b for b in facts.closures_of(body.path)]
        sec = None
        for c in cands:
            ct = flow.Prov(c).local(0)
            if is_len_cmp(ct) or is_bytes_cmp(ct):
                sec = ct
        second = sec if sec is not None else second
    if is_len_cmp(first) and is_bytes_cmp(second):
        rep.ok(rule, key, "len(x).cmp(len(y)).then(x.cmp(y))", body.loc(t["line"]), obligation=True)
    elif is_bytes_cmp(first):
        rep.violation(rule, key, "the octets are compared before the encoded length: the length tie-break can never decide, so arc "
                      "16383 (ff 7f) sorts after arc 16384 (81 80 00)", body.loc(t["line"]), obligation=True)
    else:
        rep.inconclusive(rule, key, "chain is %s then %s" % (flow.fmt(first), flow.fmt(second)), body.loc(t["line"]))


def cont(ctx, rep, rule):
    """next_oid has two writers; every follow-up request carries iter.get_next_oid()."""
    facts = ctx.facts
    for body in facts.body_list:
        for (bi, kind, st, line) in flow.field_writes(body, GETITER, "next_oid"):
            rep.check(rule, "GetIter.next_oid|written in " + body.path, body.path.endswith("GetIter::set_next_oid"),
                      "", "the continuation point is modified in %s" % body.path, body.loc(line), obligation=True)
        for (bi, st, fields, vname) in flow.aggregate_inits(body, GETITER):
            okp = body.path.endswith("GetIter::new")
            rep.check(rule, "GetIter{..}|built in " + body.path, okp, "", "GetIter constructed in %s" % body.path, body.loc(st["line"]))
            if okp:
                p = flow.Prov(body)
                a, b = p.operand(fields["start_oid"]), p.operand(fields["next_oid"])
                rep.check(rule, "GetIter::new|start==next", a == b and flow.mentions(a, lambda s: s[0] == "call" and (s[1] or "").endswith("try_from")),
                          "walk starts at the requested base OID", "start_oid=%s next_oid=%s" % (flow.fmt(a), flow.fmt(b)), body.loc(st["line"]),
                          obligation=True)
    gb = facts.need("snmp::op::getiter::GetIter::get_next_oid")
    t = flow.Prov(gb).local(0)
    rep.check(rule, "GetIter::get_next_oid", flow.field_path(t) == ("arg1", "next_oid"), "returns self.next_oid",
              "returns %s" % flow.fmt(t), gb.loc(), obligation=True)
    gm = facts.need("snmp::op::getiter::GetIter::get_max_repetitions")
    t = flow.Prov(gm).local(0)
    rep.check(rule, "GetIter::get_max_repetitions", flow.field_path(t) == ("arg1", "max_repetitions"), "returns self.max_repetitions",
              "returns %s" % flow.fmt(t), gm.loc())
    # pymethods
    n = 0
    for cls in ("socket::v1::SnmpV1ClientSocket", "socket::v2c::SnmpV2cClientSocket", "socket::v3::SnmpV3ClientSocket"):
        for meth, bulk in (("get_next", False), ("send_get_next", False), ("get_bulk", True), ("send_get_bulk", True)):
            if bulk and "V1" in cls:
                pass
            body = facts.body("%s::%s" % (cls, meth))
            if body is None:
                rep.missing(rule, "%s::%s" % (cls, meth))
                continue
            p = flow.Prov(body)
            for b in body.calls():
                cp = b.term["callee"].get("path") or ""
                if cp.endswith("::send_and_recv") or cp.endswith("::send_request"):
                    n += 1
                    a = p.operand(b.term["args"][1])

                    def is_next(t):
                        return t[0] == "call" and (t[1] or "").endswith("GetIter::get_next_oid") and t[2] and t[2][0][0] == "arg"
                    if not bulk:
                        ok = is_next(a)
                    else:
                        ok = a[0] == "agg" and len(a[3]) == 2 and is_next(a[3][0][1]) and a[3][1][1][0] == "call" and \
                            (a[3][1][1][1] or "").endswith("GetIter::get_max_repetitions")
                    rep.check(rule, "%s::%s|request-oid" % (cls, meth), ok, "request built from iter.get_next_oid()" + (" and iter.get_max_repetitions()" if bulk else ""),
                              "request built from %s" % flow.fmt(a), body.loc(b.term["line"]), obligation=True)
                    # the reply is matched against the same iterator
                    if cp.endswith("::send_and_recv"):
                        it = p.operand(b.term["args"][2])
                        rep.check(rule, "%s::%s|same-iter" % (cls, meth), flow.mentions(it, lambda s: s[0] == "arg") and it[0] == "agg" and it[2] == "Some",
                                  "Some(iter)", "iterator argument is %s" % flow.fmt(it), body.loc(b.term["line"]))
    if n < 12:
        rep.missing(rule, "12 pymethods sending GETNEXT/GETBULK (found %d)" % n)


def _walk_cell(body, prov, pv, vv, pdu, n=None, inside=None, val=None):
    def ev(t):
        if t == ("discr", ("arg", 1)):
            return pv[pdu]
        if n is not None and is_len_term(t, "vars"):
            return n
        if inside is not None and t[0] == "call" and (t[1] or "").endswith("GetIter::set_next_oid"):
            return 1 if inside else 0
        # an iterator over an empty varbind list yields nothing: the first next() is None (discriminant 0)
        if n == 0 and t[0] == "discr" and t[1][0] == "call" and (t[1][1] or "").endswith("Iterator>::next") and \
                flow.mentions(t[1], lambda s: s[0] == "f" and s[2] == "vars"):
            return 0
        if val is not None and is_value_discr(t):
            return vv[val]
        # iter.ok_or_else(..)? : the iterator is present
        return None
    blocks, decided = cells.feasible(body, prov, ev)
    _walk_cell.last = (ev, decided)
    return cells.tags(body, blocks), blocks


def _skip_continues(body, prov):
    """After the value-kind switch of the current cell, can the element loop fetch the next element?"""
    ev, decided = _walk_cell.last
    nexts = {b.idx for b in body.calls() if (callee_path(b.term) or "").endswith("Iterator>::next")}
    res = []
    for bi in decided:
        t = body.blocks[bi].term
        term = prov.operand(t["discr"])
        if is_value_discr(term):
            # feasible successors of this switch under the cell
            blocks, _ = cells.feasible(body, prov, ev, start=bi)
            res.append(bool((blocks - {bi}) & nexts) if bi not in nexts else True)
    return res


def _walk_outcome(tg):
    o = outcome(tg)
    o.discard("none")
    if cells.has_call(tg, "PyTuple::new"):
        o.add("tuple")
    if cells.has_call(tg, "Python::<'py>::None"):
        o.add("marker")
    o.discard("value")
    # `GetIter expected` ValueError for a missing iterator is not part of the table
    return o


def stop_tables(ctx, rep, rule):
    facts = ctx.facts
    pv = variant_index(facts, PDU)
    vv = variant_index(facts, VALUE)
    # ---- GETNEXT
    body = find_op(facts, "getnext::OpGetNext")
    if body is None:
        rep.missing(rule, "OpGetNext::to_python")
    else:
        rep.note_analysed("functions", [body.path])
        prov = flow.Prov(body)

        def expect(key, got, want, why):
            rep.check(rule, "OpGetNext::to_python|" + key, got == want, "%s -> %s" % (key, sorted(want)),
                      "%s: getnext step yields %s, required %s (%s)" % (key, sorted(got), sorted(want), why), body.loc(), obligation=True)
        expect("0 varbinds", _walk_outcome(_walk_cell(body, prov, pv, vv, "GetResponse", 0)[0]), {"stop"}, "empty reply ends the walk")
        expect("1 varbind/outside subtree", _walk_outcome(_walk_cell(body, prov, pv, vv, "GetResponse", 1, inside=False)[0]), {"stop"},
               "first out-of-subtree OID ends the walk")
        for k in ["EndOfMibView", "Null", "NoSuchObject", "NoSuchInstance"]:
            expect("1 varbind/inside/" + k, _walk_outcome(_walk_cell(body, prov, pv, vv, "GetResponse", 1, inside=True, val=k)[0]), {"stop"},
                   "no data value ends the walk")
        for k in DATA_KINDS:
            expect("1 varbind/inside/" + k, _walk_outcome(_walk_cell(body, prov, pv, vv, "GetResponse", 1, inside=True, val=k)[0]), {"tuple"},
                   "data value is yielded")
        expect(">=2 varbinds", _walk_outcome(_walk_cell(body, prov, pv, vv, "GetResponse", ("range", 2, INF))[0]), {"err:InvalidPdu"}, "malformed reply")
        expect("Report", _walk_outcome(_walk_cell(body, prov, pv, vv, "Report")[0]), {"err:AuthenticationFailed"}, "Report -> SnmpAuthError")
        _yield_rule(rep, rule, body, prov, "OpGetNext::to_python")
    # ---- GETBULK
    body = find_op(facts, "getbulk::OpGetBulk")
    if body is None:
        rep.missing(rule, "OpGetBulk::to_python")
        return
    rep.note_analysed("functions", [body.path])
    prov = flow.Prov(body)

    def expect(key, got, want, why):
        rep.check(rule, "OpGetBulk::to_python|" + key, got == want, "%s -> %s" % (key, sorted(want)),
                  "%s: getbulk step yields %s, required %s (%s)" % (key, sorted(got), sorted(want), why), body.loc(), obligation=True)
    expect("0 varbinds", _walk_outcome(_walk_cell(body, prov, pv, vv, "GetResponse", 0)[0]) - {"marker", "tuple"}, {"stop"}, "empty reply ends the walk")
    tg0, blocks0 = _walk_cell(body, prov, pv, vv, "GetResponse", 0)
    rep.check(rule, "OpGetBulk::to_python|0 varbinds/no-elements", not cells.has_call(tg0, "::append"), "nothing appended",
              "elements appended for an empty reply", body.loc())
    # a non-empty reply is examined before the walk is ended: with at least one varbind, `stop` is raised only behind a call
    # that consumes the varbind list (the element loop's next(), an all()/any()/filter()..collect() over it)
    _SCAN = ("next", "all", "any", "fold", "try_fold", "for_each", "try_for_each", "find", "find_map", "position", "count", "collect", "filter_map",
             "extend", "from_iter", "is_empty", "len")
    scan = set()
    for b in body.calls():
        cp = callee_path(b.term) or ""
        last = cp.split("::")[-1]
        if last not in _SCAN:
            continue
        on_vars = bool(b.term["args"]) and flow.mentions(prov.operand(b.term["args"][0]), lambda s_: s_[0] == "f" and s_[2] == "vars")
        if last in ("is_empty", "len"):
            if not on_vars:          # the emptiness of what was collected from the reply, not of the reply
                scan.add(b.idx)
        elif "Iterator" in cp or "iter::" in cp:
            scan.add(b.idx)
    _walk_cell(body, prov, pv, vv, "GetResponse", ("range", 1, INF))
    ev1, _ = _walk_cell.last

    def ev1b(t):
        # a list of at least one varbind has a first and a last element
        if t[0] == "discr" and t[1][0] == "call" and (t[1][1] or "").split("::")[-1] in ("first", "last", "split_first", "split_last") and \
                flow.mentions(t[1], lambda s_: s_[0] == "f" and s_[2] == "vars"):
            return 1
        return ev1(t)
    early, _ = cells.feasible(body, prov, ev1b, cut={(bi, s_) for bi in scan for s_ in body.blocks[bi].succs()})
    stops = [b.idx for b in body.calls() if (callee_path(b.term) or "").endswith("PyStopAsyncIteration::new_err") and b.idx in early]
    if scan:
        rep.check(rule, "OpGetBulk::to_python|>=1 varbinds/stop only after the reply was read", not stops, "no stop before the varbinds are consumed",
                  "a reply with at least one varbind can end the walk before its varbinds are read (stop reachable without passing the element "
                  "loop): the data values behind a leading exception value are lost", body.loc(body.blocks[stops[0]].term.get("line") if stops else None),
                  obligation=True)
    else:
        rep.inconclusive(rule, "OpGetBulk::to_python|>=1 varbinds/stop only after the reply was read", "no call that consumes the varbind list recognised", body.loc())
    # the elements may be drawn through Iterator::filter(closure): a kind the closure rejects never reaches the loop body
    nx_src = [prov.operand(b.term["args"][0]) for b in body.calls() if (callee_path(b.term) or "").endswith("Iterator>::next") and b.term["args"]]

    def filt(k):
        def ev(t):
            return vv[k] if is_value_discr(t) else None
        vs = [v for v in (cells.filter_verdict_of(facts, t, ev) for t in nx_src) if v is not None]
        return vs[0] if vs else None
    for k in ["Null"] + EXC_KINDS:
        if filt(k) is False:
            for sub, msg in (("", "dropped by the filter closure"), ("/later-elements-still-read", "filter() continues with the next element"),
                             ("/no-continuation-update", "never reaches set_next_oid")):
                rep.ok(rule, "OpGetBulk::to_python|element/%s%s" % (k, sub), msg, body.loc(), obligation=True)
            continue
        tg, _ = _walk_cell(body, prov, pv, vv, "GetResponse", ("range", 1, INF), val=k)
        o = _walk_outcome(tg) & {"tuple", "marker"}
        expect("element/" + k, o, set(), "NULL / exception values are skipped")
        sc = _skip_continues(body, prov)
        rep.check(rule, "OpGetBulk::to_python|element/%s/later-elements-still-read" % k, bool(sc) and all(sc),
                  "the loop goes on to the next element", "a %s value ends the processing of the reply: later data values are lost" % k,
                  body.loc(), obligation=True)
        rep.check(rule, "OpGetBulk::to_python|element/%s/no-continuation-update" % k, not cells.has_call(tg, "GetIter::set_next_oid"),
                  "skipped values do not move the continuation point", "set_next_oid is called for a %s value" % k, body.loc())
    for k in DATA_KINDS:
        tg, _ = _walk_cell(body, prov, pv, vv, "GetResponse", ("range", 1, INF), inside=True, val=k)
        expect("element/inside/" + k, (_walk_outcome(tg) & {"tuple", "marker"}) if filt(k) is not False else {"filtered-out"}, {"tuple"},
               "in-subtree data value is appended")
        tg, _ = _walk_cell(body, prov, pv, vv, "GetResponse", ("range", 1, INF), inside=False, val=k)
        expect("element/outside/" + k, _walk_outcome(tg) & {"tuple", "marker"}, {"marker"}, "first out-of-subtree OID: end marker, no element")
    expect("Report", _walk_outcome(_walk_cell(body, prov, pv, vv, "Report")[0]), {"err:AuthenticationFailed"}, "Report -> SnmpAuthError")
    _yield_rule(rep, rule, body, prov, "OpGetBulk::to_python")
    # after the end marker nothing more is taken from the reply
    marker_blocks = [b.idx for b in body.calls() if (callee_path(b.term) or "").endswith("Python::<'py>::None")]
    nexts = [b.idx for b in body.calls() if (callee_path(b.term) or "").endswith("Iterator>::next")]
    if marker_blocks and nexts:
        r = cfg.reachable(body, marker_blocks)
        rep.check(rule, "OpGetBulk::to_python|marker-ends-reply", not (r & set(nexts)), "elements after the end marker are ignored",
                  "after the out-of-subtree marker the loop keeps consuming the reply", body.loc(), obligation=True)
    else:
        rep.missing(rule, "OpGetBulk::to_python: end marker / element loop")
    # an all-skipped reply ends the walk: Ok(list) only across the false edge of list.is_empty()
    gs = flow.guards(body, prov)
    ge = [g for g in gs if g.term[0] == "call" and (g.term[1] or "").endswith("PyListMethods<'py>>::is_empty")]
    okb = flow.blocks_assigning_return(body, lambda rv: rv["k"] == "agg" and rv.get("vname") == "Ok")
    if ge and okb:
        rep.check(rule, "OpGetBulk::to_python|no-data-values-stops", cfg.must_pass(body, [0], okb, {g.false_edge for g in ge}),
                  "a reply without data values raises stop", "a reply with no data values is returned as an empty list", body.loc(ge[0].line),
                  obligation=True)
    else:
        rep.violation(rule, "OpGetBulk::to_python|no-data-values-stops", "no list.is_empty() test before returning the list", body.loc())
    # reply order: the element loop is a forward iteration over resp.vars and elements are appended
    fwd = [b for b in body.calls() if (callee_path(b.term) or "").endswith("as std::iter::Iterator>::next") and
           ((callee_path(b.term) or "").startswith("<std::slice::Iter<") or
            flow.mentions(prov.operand(b.term["args"][0]), lambda s_: s_[0] == "f" and s_[2] == "vars"))]
    rev = [b for b in body.calls() if "Rev<" in (callee_path(b.term) or "") or (callee_path(b.term) or "").split("::")[-1] in ("rev", "next_back", "rfold", "rfind")]
    rep.check(rule, "OpGetBulk::to_python|reply-order", bool(fwd) and not rev and not cells.has_call(cells.tags(body, [b.idx for b in body.live_blocks()]), "::insert"),
              "forward iteration, append", "elements are not delivered in reply order", body.loc())


def _yield_rule(rep, rule, body, prov, name):
    """Every result tuple is built from var.oid of a varbind accepted by set_next_oid(&var.oid)."""
    gs = flow.guards(body, prov)
    g_ok = [g for g in gs if g.term[0] == "call" and (g.term[1] or "").endswith("GetIter::set_next_oid")]
    tup = [b for b in body.calls() if (callee_path(b.term) or "").endswith("PyTuple::new")]
    if not tup:
        rep.missing(rule, name + ": PyTuple::new")
        return
    if not g_ok:
        rep.violation(rule, name + "|yield-after-accept", "no set_next_oid(..) test guards the construction of a result", body.loc(), obligation=True)
        return
    ok = cfg.must_pass(body, [0], [b.idx for b in tup], {g.true_edge for g in g_ok})
    rep.check(rule, name + "|yield-after-accept", ok, "a result is built only for an OID accepted by set_next_oid",
              "a (oid, value) result can be built without set_next_oid having accepted the OID", body.loc(g_ok[0].line), obligation=True)
    # same varbind in the test and in the tuple
    acc = g_ok[0].term[2][1] if len(g_ok[0].term[2]) > 1 else None
    for b in body.calls():
        p = callee_path(b.term) or ""
        if "ber::objectid::SnmpOid" in p and p.endswith("::into_pyobject"):
            t = prov.operand(b.term["args"][0])
            rep.check(rule, name + "|yielded-oid-is-tested-oid", acc is not None and t == acc and t[0] == "f" and t[2] == "oid",
                      "tuple oid == tested oid", "the OID yielded (%s) is not the one tested (%s)" % (flow.fmt(t), flow.fmt(acc) if acc else None),
                      body.loc(b.term["line"]), obligation=True)
        if "snmp::value::SnmpValue" in p and p.endswith("::into_pyobject"):
            t = prov.operand(b.term["args"][0])
            rep.check(rule, name + "|yielded-value-same-varbind", acc is not None and t[0] == "f" and t[2] == "value" and acc[0] == "f" and t[1] == acc[1],
                      "value of the same varbind", "value %s comes from another varbind than %s" % (flow.fmt(t), flow.fmt(acc) if acc else None),
                      body.loc(b.term["line"]), obligation=True)


def next_oid_rejections(ctx, rep, rule):
    """GetIter::set_next_oid turns an OID down only because it lies outside the subtree or is not after the previous one:
    any other condition leading straight to `false` (a length or arc-count limit ...) ends a walk early on a legal OID."""
    facts = ctx.facts
    body = facts.body("snmp::op::getiter::GetIter::set_next_oid")
    if body is None:
        rep.missing(rule, "GetIter::set_next_oid")
        return
    prov = flow.Prov(body)
    falses = []
    rl = flow.return_locals(body)
    for b in body.live_blocks():
        for st in b.stmts:
            if st["k"] == "assign" and st["place"]["l"] in rl and not st["place"]["p"] and st["rv"]["k"] == "use" and \
                    (st["rv"]["op"].get("const") or {}).get("v", {}).get("bool") is False:
                falses.append(b.idx)
    n = 0
    for g, pol, tgt in flow.deciding_guards(body, prov, falses):
        n += 1
        t = g.term
        ok = flow.mentions(t, lambda s_: s_[0] == "call" and (s_[1] or "").split("::")[-1] in ("starts_with", "cmp_arcs", "cmp", "partial_cmp", "is_gt", "is_lt", "is_le", "is_ge"))
        rep.check(rule, "GetIter::set_next_oid|rejection on %s" % flow.fmt(t)[:70], ok, "subtree or order test",
                  "an OID is turned down on a condition that is neither the subtree test nor the order test (%s): the walk ends early on a legal entry" % flow.fmt(t)[:100],
                  body.loc(g.line), obligation=True)
    if n == 0:
        rep.inconclusive(rule, "GetIter::set_next_oid|rejections", "no guarded `false` exit recognised", body.loc())

