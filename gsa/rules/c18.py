"""C18 — timeout mechanism premises on the Rust side (socket arming, skip-loop deadline)."""
from .. import cfg, flow
from ..facts import callee_path


def mode_owner(ctx, rep, rule):
    """The blocking mode of a socket is chosen once, by get_socket (read timeout or non-blocking).  A constant
    `set_nonblocking(..)` anywhere else overrides that choice for the rest of the socket's life: `set_nonblocking(false)`
    after a send leaves an asyncio socket blocking without a read timeout, and the next recv() of the skip loop stalls the
    event loop past every deadline."""
    facts = ctx.facts
    n = 0
    for body in facts.body_list:
        for b in body.calls():
            if not (callee_path(b.term) or "").endswith("Socket::set_nonblocking"):
                continue
            n += 1
            inside = body.path.endswith("SnmpSocket::get_socket") or "::get_socket::{closure" in body.path
            if inside:
                rep.ok(rule, "%s|mode chosen here" % body.path, "", body.loc(b.term["line"]), obligation=True)
                continue
            t = flow.Prov(body).operand(b.term["args"][1])
            if t[0] == "const":
                rep.violation(rule, "%s|set_nonblocking outside get_socket" % body.path, "set_nonblocking(%s) outside get_socket: the mode the constructor chose "
                              "for the session (timeout or non-blocking) is overridden for every later call" % flow.fmt(t), body.loc(b.term["line"]), obligation=True)
            else:
                rep.inconclusive(rule, "%s|set_nonblocking outside get_socket" % body.path, "mode set to a computed value (%s)" % flow.fmt(t)[:60], body.loc(b.term["line"]))
    if n < 1:
        rep.missing(rule, "set_nonblocking call sites")


def arm(ctx, rep, rule):
    facts = ctx.facts
    body = facts.need("socket::snmpsocket::SnmpSocket::get_socket")
    rep.note_analysed("functions", [body.path])
    prov = flow.Prov(body)
    gs = flow.guards(body, prov)
    key = "SnmpSocket::get_socket"
    # timeout_ns is the 5th parameter
    g = [x for x in gs if x.term[0] == "bin" and x.term[1] in ("Gt", "Ne") and x.term[2] == ("arg", 5) and x.term[3] == ("const", 0)]
    g += [x for x in gs if x.term[0] == "bin" and x.term[1] == "Lt" and x.term[3] == ("arg", 5) and x.term[2] == ("const", 0)]
    inv = [x for x in gs if x.term[0] == "bin" and x.term[1] == "Eq" and x.term[2] == ("arg", 5) and x.term[3] == ("const", 0)]
    srt = [b for b in body.calls() if (callee_path(b.term) or "").endswith("Socket::set_read_timeout")]
    snb = [b for b in body.calls() if (callee_path(b.term) or "").endswith("Socket::set_nonblocking")]
    if not (g or inv) or not srt or not snb:
        rep.missing(rule, key + ": `timeout_ns > 0` test / set_read_timeout / set_nonblocking")
        return
    te = {x.true_edge for x in g} | {x.false_edge for x in inv}
    fe = {x.false_edge for x in g} | {x.true_edge for x in inv}
    rep.check(rule, key + "|blocking-iff-timeout", cfg.must_pass(body, [0], [b.idx for b in srt], te),
              "read timeout armed only for timeout_ns > 0", "set_read_timeout reachable with timeout_ns == 0", body.loc(srt[0].term["line"]), obligation=True)
    rep.check(rule, key + "|nonblocking-otherwise", cfg.must_pass(body, [0], [b.idx for b in snb], fe),
              "non-blocking mode only for timeout_ns == 0", "set_nonblocking reachable with a timeout configured", body.loc(snb[0].term["line"]), obligation=True)
    oks = flow.blocks_assigning_return(body, lambda rv: rv["k"] == "agg" and rv.get("vname") == "Ok")
    cut = {(b.idx, s) for b in srt + snb for s in b.succs()}
    rep.check(rule, key + "|always-armed", bool(oks) and cfg.must_pass(body, [0], oks, cut), "every socket gets a timeout or non-blocking mode",
              "a socket can be returned with neither a read timeout nor non-blocking mode (recv would block forever)", body.loc(), obligation=True)
    for b in srt:
        t = prov.operand(b.term["args"][1])
        ok = t[0] == "agg" and t[2] == "Some" and t[3] and t[3][0][1][0] == "call" and (t[3][0][1][1] or "").endswith("Duration::from_nanos") and \
            t[3][0][1][2] == (("arg", 5),)
        rep.check(rule, key + "|timeout-value", ok, "Some(Duration::from_nanos(timeout_ns))", "read timeout is %s" % flow.fmt(t), body.loc(b.term["line"]),
                  obligation=True)
    for b in snb:
        t = prov.operand(b.term["args"][1])
        rep.check(rule, key + "|nonblocking-true", t == ("const", True), "set_nonblocking(true)", "set_nonblocking(%s)" % flow.fmt(t), body.loc(b.term["line"]))
    # recv_socket maps WouldBlock
    rs = facts.need("socket::snmpsocket::SnmpSocket::recv_socket")
    # the mapping may live in a closure handed to map_err
    agg = [vn for b_ in [rs] + facts.closures_of(rs.path) for (bi, st, f, vn) in flow.aggregate_inits(b_, "error::SnmpError")]
    rep.check(rule, "SnmpSocket::recv_socket|WouldBlock", "WouldBlock" in agg, "io::ErrorKind::WouldBlock -> SnmpError::WouldBlock",
              "recv_socket no longer reports WouldBlock", rs.loc(), obligation=True)
    # every datagram that recv() returned goes on to the decoder: nothing after the Ok edge of recv's result ends in Err
    # (an "empty read means nothing arrived" arm turns a zero-length datagram into a timeout instead of a decode error)
    rp = flow.Prov(rs)
    rsw = flow.discr_switches(rs, rp, lambda t: flow.mentions(t, lambda x: x[0] == "call" and (x[1] or "").endswith("Socket::recv")))
    errb = set(flow.blocks_assigning_return(rs, lambda rv: rv["k"] == "agg" and rv.get("vname") == "Err"))
    decided = False
    for blk, term in rsw:
        ve = flow.variant_edges(rs, blk) or {}
        if "Ok" in ve and errb:
            decided = True
            from .. import cells as _cells
            bad = _cells.variant_reach(rs, starts=[ve["Ok"]]) & errb
            rep.check(rule, "SnmpSocket::recv_socket|received-is-delivered", not bad, "Ok(n) of recv always yields the datagram",
                      "a successful recv() can end in an error (blocks %s): a received datagram - e.g. an empty one - is reported as a socket "
                      "condition instead of being handed to the decoder" % sorted(bad), rs.loc(blk.term.get("line")), obligation=True)
    if not decided:
        rep.inconclusive(rule, "SnmpSocket::recv_socket|received-is-delivered", "no match on the result of recv() found in this shape", rs.loc())
    # the three constructors hand their timeout_ns to get_socket
    for cls, idx, want in (("socket::v1::SnmpV1ClientSocket", 4, 6), ("socket::v2c::SnmpV2cClientSocket", 4, 6), ("socket::v3::SnmpV3ClientSocket", 4, 11)):
        nb = facts.need(cls + "::new")
        p = flow.Prov(nb)
        cs = [b for b in nb.calls() if (b.term["callee"].get("path") or "").endswith("::get_socket")]
        if not cs:
            rep.missing(rule, cls + "::new: get_socket")
            continue
        t = p.operand(cs[0].term["args"][idx])
        rep.check(rule, cls + "::new|timeout passed", t == ("arg", want), "timeout_ns", "get_socket receives %s" % flow.fmt(t), nb.loc(cs[0].term["line"]),
                  obligation=True)


def deadline(ctx, rep, rule):
    """Every iteration of the skip loop of _recv_inner is bounded by a deadline taken before the loop."""
    facts = ctx.facts
    body = facts.need("socket::snmpsocket::SnmpSocket::_recv_inner")
    rep.note_analysed("functions", [body.path])
    prov = flow.Prov(body)
    loops = cfg.natural_loops(body)
    recv = [b.idx for b in body.calls() if (callee_path(b.term) or "").endswith("::recv_socket")]
    key = "socket::snmpsocket::SnmpSocket::_recv_inner|skip-loop-deadline"
    target = [h for h, blocks in loops.items() if any(r in blocks for r in recv)]
    if not target:
        rep.inconclusive(rule, key, "no loop around recv_socket (no skip loop)", body.loc())
        return
    gs = flow.guards(body, prov)

    def clock(t):
        return flow.mentions(t, lambda s: s[0] == "call" and any(x in (s[1] or "") for x in ("Instant::now", "::elapsed", "SystemTime::now", "::duration_since", "checked_duration_since")))
    cg = [g for g in gs if clock(g.term)]
    # also a socket-level re-arming of the remaining time counts (set_read_timeout inside the loop with a clock-derived value)
    rearm = [b for b in body.calls() if (callee_path(b.term) or "").endswith("set_read_timeout") and clock(prov.call_term(b.term))]
    for h in target:
        blocks = loops[h]
        backs = [(t, h) for t in blocks if h in body.blocks[t].succs()]
        ok = False
        if cg:
            cut = set()
            for g in cg:
                if g.block in blocks:
                    cut |= {g.true_edge, g.false_edge}
            # every cycle through the head crosses a clock test
            ok = bool(cut) and not _cycle_without(body, h, blocks, cut)
        if rearm and all(b.idx in blocks for b in rearm):
            ok = ok or True
        if ok:
            rep.ok(rule, key, "each iteration is bounded by a deadline", body.loc(), obligation=True)
        else:
            rep.violation(rule, key, "the skip loop re-enters recv with a fresh SO_RCVTIMEO and tests no deadline: non-matching datagrams "
                          "arriving more often than the timeout keep a blocking call from ever raising TimeoutError", body.loc(body.blocks[h].term.get("line")),
                          obligation=True)


def recv_loops(ctx, rep, rule):
    """No other loop re-issues a blocking receive: any loop (in any function) around Socket::recv / recv_socket other than the
    skip loop of _recv_inner would re-arm the full SO_RCVTIMEO on each iteration."""
    facts = ctx.facts
    n = 0
    for body in facts.body_list:
        recv = [b.idx for b in body.calls() if (callee_path(b.term) or "").endswith("Socket::recv") or (callee_path(b.term) or "").endswith("::recv_socket") or
                (callee_path(b.term) or "").endswith("Socket::recv_from")]
        if not recv:
            continue
        n += 1
        if body.path == "socket::snmpsocket::SnmpSocket::_recv_inner":
            continue
        loops = cfg.natural_loops(body)
        inl = [h for h, bl in loops.items() if any(r in bl for r in recv)]
        rep.check(rule, "%s|no-receive-loop" % body.path, not inl, "recv is issued once per call", "recv is re-issued in a loop: every iteration (e.g. after a "
                  "signal or a spurious wake-up) waits for the full timeout again, so the call can outlive its timeout", body.loc(), obligation=True)
    if n < 2:
        rep.missing(rule, "functions calling Socket::recv / recv_socket")


def _cycle_without(body, head, blocks, cut):
    """Is there a cycle head -> ... -> head inside `blocks` avoiding the cut edges?"""
    seen = set()
    work = [s for s in cfg.successors(body, head, cut) if s in blocks]
    while work:
        b = work.pop()
        if b == head:
            return True
        if b in seen:
            continue
        seen.add(b)
        for s in cfg.successors(body, b, cut):
            if s in blocks:
                work.append(s)
    return False


def gil_released(ctx, rep, rule):
    """The blocking receive runs with the interpreter lock released: every call of SnmpSocket::_recv_inner sits in a closure
    handed to Python::allow_threads.  A receive that keeps the lock stalls every other Python thread for up to the whole
    timeout - their own deadlines (an asyncio loop in another thread, a second session) pass while they cannot run."""
    facts = ctx.facts
    from .. import cells as _cells
    n = 0
    for body in facts.body_list:
        for b in body.calls():
            if not (callee_path(b.term) or "").endswith("::_recv_inner"):
                continue
            n += 1
            ok = False
            why = "called from %s, which is not a closure" % body.path.split("::")[-1]
            if body.kind == "Closure":
                # the closure itself, or a closure it is nested in (`a().and_then(|()| self._recv_inner(..))` inside the
                # closure given to allow_threads), is what allow_threads runs
                cur = body
                for _ in range(4):
                    feed = _cells.closure_feed(facts, cur)
                    if feed is None:
                        break
                    cp = callee_path(feed[2].term) or ""
                    why = "the closure is handed to %s" % cp
                    if cp.endswith("::allow_threads"):
                        ok = True
                        break
                    lex = cur.path.rsplit("::{closure#", 1)[0] if "::{closure#" in cur.path else None
                    parent = facts.bodies.get(lex) if lex else None
                    if parent is None or parent.kind != "Closure":
                        break
                    cur = parent
            rep.check(rule, "%s|_recv_inner under allow_threads" % body.path, ok, "interpreter lock released around the blocking receive",
                      "the blocking receive runs while holding the interpreter lock (%s)" % why, body.loc(b.term["line"]), obligation=True)
    if n < 2:
        rep.violation(rule, "floor-recv-callers", "%d call sites of _recv_inner found, floor is 2" % n)

