"""Rules over the Python layer of src/gufo/snmp (rule kind Y).

Second generation: the rules are stated over the *paths* of a method as unfolded by gsa.pysym - local names are
substituted by what they hold, private helper methods and nested functions are inlined, conditions are atoms with
polarity - so that renaming a local, extracting a helper, turning if/else into a conditional expression or
an early return into a nested if leaves every rule's verdict unchanged.  Each function takes (ctx, rep, rule_id)."""
import ast
import re

from .. import pysym

BLOCKING = ("get", "get_many", "get_next", "get_bulk", "refresh")
CLIENTS = ("sync_client", "async_client")
V1 = "eq(SnmpVersion.v1,version)"
SUPER = ("OSError", "Exception", "BaseException")


def model(ctx):
    m = ctx.cache.get("pym")
    if m is None:
        m = pysym.PyModel(ctx.py)
        ctx.cache["pym"] = m
    return m


def paths(ctx, rep, rule, mod, cls, meth):
    ps = model(ctx).paths(mod, cls, meth)
    if ps is None:
        rep.missing(rule, "python method %s:%s.%s" % (mod, cls, meth))
        return None
    rep.note_analysed("functions", ["%s:%s.%s (%d paths)" % (mod, cls, meth, len(ps))])
    return ps


def A(s, pol=True):
    return pysym.atoms(ast.parse(s, mode="eval").body, pol)


def holds(conds, s, pol=True):
    a = A(s, pol)
    return bool(a) and all(x in conds for x in a)


def calls(p, pred):
    out = []
    for i, e in enumerate(p.events):
        if e.kind == "call" and (pred(e.func) if callable(pred) else e.func == pred):
            out.append((i, e))
    return out


def stores(p, target):
    return [(i, e) for i, e in enumerate(p.events) if e.kind == "store" and e.target == target]


def loc(ctx, mod, e):
    n = e.node if isinstance(e, pysym.Event) else e
    return ctx.py.loc(mod, n)


def maps(e, frm, to):
    """The event sits in a try whose handler for `frm` (or a superclass) raises `to`."""
    for n, r in e.handlers:
        if (n == frm or n in SUPER or n.endswith("." + frm)) and r is not None and (r == to or r.endswith("." + to)):
            return True
        if n == frm or n in SUPER:
            return False   # the first matching handler decides
    return False


def strip_old(t):
    return re.sub(r"old\(([^()]*)\)", r"\1", t)


def fn_node(ctx, mod, cls, meth):
    return model(ctx).classes.get(mod, {}).get(cls, {}).get(meth)


# ----------------------------------------------------------------------------- C03.fetch / C05.fetch
def fetch(ctx, rep, rule):
    for mod in CLIENTS:
        ps = paths(ctx, rep, rule, mod, "SnmpSession", "__init__")
        if ps:
            n_v1 = 0
            anyst = False
            for p in ps:
                if p.done == "raise":
                    continue
                st = stores(p, "self._allow_bulk")
                v1 = bool(calls(p, "SnmpV1ClientSocket"))
                if not st:
                    continue
                anyst = True
                i, e = st[-1]
                val = pysym.reduce(e.value, e.conds)
                if v1:
                    n_v1 += 1
                    rep.check(rule, "%s.__init__|v1-disables-bulk" % mod, val == "False", "a v1 session stores False",
                              "a session built on SnmpV1ClientSocket stores self._allow_bulk = %s: fetch() would send GETBULK over SNMPv1" % val,
                              loc(ctx, mod, e))
                else:
                    rep.check(rule, "%s.__init__|_allow_bulk=%s" % (mod, val), True, "non-v1 session", "", loc(ctx, mod, e))
            if not anyst:
                rep.missing(rule, "%s: assignment to self._allow_bulk" % mod)
            elif not n_v1:
                rep.missing(rule, "%s.__init__: a path that builds SnmpV1ClientSocket and reaches self._allow_bulk" % mod)
        ps = paths(ctx, rep, rule, mod, "SnmpSession", "fetch")
        if ps:
            nb = nn = 0
            for p in ps:
                gb = calls(p, lambda f: f in ("self.getbulk", "GetBulkIter"))
                gn = calls(p, lambda f: f in ("self.getnext", "GetNextIter"))
                for i, e in gb:
                    nb += 1
                    rep.check(rule, "%s.fetch|getbulk-under-allow_bulk" % mod, holds(e.conds, "self._allow_bulk", True),
                              "getbulk only under self._allow_bulk", "fetch() calls getbulk without self._allow_bulk holding", loc(ctx, mod, e))
                for i, e in gn:
                    nn += 1
                    rep.check(rule, "%s.fetch|getnext-otherwise" % mod, holds(e.conds, "self._allow_bulk", False),
                              "getnext when bulk is not allowed", "fetch() calls getnext although bulk is allowed on this path", loc(ctx, mod, e))
            if not nb:
                rep.missing(rule, "%s.fetch: call of self.getbulk" % mod)
            if not nn:
                rep.missing(rule, "%s.fetch: call of self.getnext" % mod)
        ps = paths(ctx, rep, rule, mod, "SnmpSession", "getbulk")
        if ps:
            n = 0
            for p in ps:
                for i, e in calls(p, "GetBulkIter"):
                    n += 1
                    key = "%s.getbulk|max_repetitions" % mod
                    cand = [a for a in e.args if "max_repetitions" in a]
                    cand = [a.split("=", 1)[1] if re.match(r"^\w+=", a) else a for a in cand]
                    if not cand:
                        rep.violation(rule, key, "GetBulkIter is built without the requested max_repetitions: %s" % e.args, loc(ctx, mod, e))
                        continue
                    a = cand[0]
                    given = list(e.conds) + [("max_repetitions", True), ("eq(None,max_repetitions)", False)]
                    absent = list(e.conds) + [("max_repetitions", False), ("eq(None,max_repetitions)", True)]
                    g = pysym.reduce(a, given) if not pysym._contradiction(given) else None
                    d = pysym.reduce(a, absent) if not pysym._contradiction(absent) else None
                    if g not in (None, "max_repetitions"):
                        if g == "self._max_repetitions":
                            rep.violation(rule, key, "the caller's max_repetitions is ignored: %s" % e.args, loc(ctx, mod, e))
                        else:
                            rep.inconclusive(rule, key, "unrecognised argument shape %s" % a, loc(ctx, mod, e))
                    elif d not in (None, "self._max_repetitions"):
                        if d in ("max_repetitions", "None"):
                            rep.violation(rule, key, "max_repetitions=None is passed through instead of the session default: %s" % e.args, loc(ctx, mod, e))
                        else:
                            rep.inconclusive(rule, key, "unrecognised default shape %s" % a, loc(ctx, mod, e))
                    else:
                        rep.ok(rule, key, "caller's max_repetitions, session default otherwise", loc(ctx, mod, e))
            if not n:
                rep.missing(rule, "%s.getbulk: GetBulkIter(...)" % mod)
    # the iterator hands the value to the Rust GetIter
    for mod, cls, want in (("sync_getbulk", "GetBulkIter", ["oid", "max_repetitions"]), ("async_client", "GetBulkIter", ["oid", "max_repetitions"]),
                           ("sync_getnext", "GetNextIter", ["oid"]), ("async_client", "GetNextIter", ["oid"])):
        ps = paths(ctx, rep, rule, mod, cls, "__init__")
        if not ps:
            continue
        n = 0
        for p in ps:
            for i, e in calls(p, lambda f: f in ("_Iter", "GetIter")):
                n += 1
                rep.check(rule, "%s.%s.__init__|iter-args" % (mod, cls), e.args == want, "GetIter(%s)" % ", ".join(want),
                          "GetIter is built from %s, expected %s" % (e.args, want), loc(ctx, mod, e))
        if not n:
            rep.missing(rule, "%s.%s.__init__: GetIter(...)" % (mod, cls))


# ----------------------------------------------------------------------------- C07.py / C18.map
def blocking_wrapped(ctx, rep, rule):
    """Every blocking socket call of the sync client maps BlockingIOError to TimeoutError."""
    m = model(ctx)
    seen = set()
    for mod in ("sync_client", "sync_getnext", "sync_getbulk"):
        for cls, meths in sorted(m.classes.get(mod, {}).items()):
            for meth in sorted(meths):
                ps = m.paths(mod, cls, meth)
                done = set()
                for p in ps or []:
                    for i, e in calls(p, lambda f: f.startswith("self._sock.") and f[len("self._sock."):] in BLOCKING):
                        name = e.func[len("self._sock."):]
                        pos = (getattr(e.node, "lineno", 0), getattr(e.node, "col_offset", 0), e.handlers)
                        if pos in done:
                            continue
                        done.add(pos)
                        seen.add(name)
                        rep.check(rule, "%s.%s|self._sock.%s" % (cls, meth, name), maps(e, "BlockingIOError", "TimeoutError"),
                                  "inside try/except BlockingIOError -> TimeoutError",
                                  "blocking call self._sock.%s() is not wrapped: a receive timeout surfaces as BlockingIOError "
                                  "instead of TimeoutError" % name, loc(ctx, mod, e))
    for name in BLOCKING:
        if name not in seen:
            rep.missing(rule, "sync client call of self._sock.%s" % name)


# ----------------------------------------------------------------------------- C05 / C06 python side
def _bulk_iter(ctx, rep, rule, mod, meth, stop_exc):
    ps = paths(ctx, rep, rule, mod, "GetBulkIter", meth)
    if not ps:
        return
    q = "%s.GetBulkIter.%s" % (mod, meth)
    node = fn_node(ctx, mod, "GetBulkIter", meth)
    is_pop = lambda f: f in ("self._buffer.pop", "self._buffer.popleft")  # noqa: E731
    is_req = lambda f: f.endswith("._sock.get_bulk") or f.endswith("._sock.send_get_bulk")  # noqa: E731
    is_rsp = lambda f: f.endswith("._sock.get_bulk") or f.endswith("._sock.recv_get_bulk")  # noqa: E731
    npop = nsent = nstore = nempty = ndeliver = nearly = 0
    for p in ps:
        pops = calls(p, is_pop)
        for i, e in pops:
            npop += 1
            front = (e.func.endswith("popleft") and not e.args) or (e.func.endswith(".pop") and e.args == ["0"])
            rep.check(rule, q + "|pop-front", front, "buffer consumed from the front",
                      "buffered results are consumed with %s(%s): not in reply order" % (e.func, ",".join(e.args)), loc(ctx, mod, e))
            ptxt = "%s(%s)" % (e.func, ", ".join(e.args))
            if ("eq(None,%s)" % ptxt, True) in p.conds:
                nsent += 1
                rep.check(rule, q + "|none-sentinel", p.done == "raise" and p.raised == stop_exc, "None marker raises %s" % stop_exc,
                          "the None end marker popped from the buffer does not raise %s" % stop_exc, loc(ctx, mod, e))
        for i, e in calls(p, lambda f: f.startswith("self._buffer.") and f not in ("self._buffer.pop", "self._buffer.popleft")):
            if e.func.split(".")[-1] in ("append", "appendleft", "extend", "extendleft", "insert", "clear", "remove", "reverse", "sort", "rotate"):
                rep.violation(rule, q + "|buffer-only-consumed", "the reply buffer is modified with %s(%s) on top of what the agent returned: results are added, "
                              "dropped or reordered" % (e.func, ", ".join(e.args)), loc(ctx, mod, e))
        for e in p.events:
            if (e.kind == "delete" and (e.target or "").startswith("self._buffer")) or (e.kind == "store" and (e.target or "").startswith("self._buffer[")):
                rep.violation(rule, q + "|buffer-only-consumed", "part of the reply buffer is %s (%s): rows the iterator state has already accounted for are "
                              "dropped or replaced" % ("deleted" if e.kind == "delete" else "overwritten", e.target), loc(ctx, mod, e))
        st = stores(p, "self._buffer")
        for i, e in st:
            nstore += 1
            try:
                vnode = ast.parse(e.value, mode="eval").body
                while isinstance(vnode, ast.Await):
                    vnode = vnode.value
                bare = isinstance(vnode, ast.Call)
            except SyntaxError:
                bare = True
            rep.check(rule, q + "|refill-is-the-reply", bare, "the buffer becomes the reply list as received",
                      "the reply is transformed before it is buffered (%s): rows the iterator state has already accounted for are dropped or rows are added" % e.value[:80],
                      loc(ctx, mod, e))
            rep.check(rule, q + "|refill-when-empty", holds(e.conds, "self._buffer", False), "refill reached only with an empty buffer",
                      "self._buffer is replaced while it may still hold undelivered results", loc(ctx, mod, e))
            src = [j for j, x in calls(p, is_rsp) if j < i]
            if src:
                rep.ok(rule, q + "|refill-source", "reply of the bulk request", loc(ctx, mod, e))
            else:
                rep.inconclusive(rule, q + "|refill-source", "refill value is %s" % e.value, loc(ctx, mod, e))
        if st:
            i, e = st[-1]
            after = list(p.conds[len(e.conds):])
            if ("self._buffer", False) in after:
                nempty += 1
                rep.check(rule, q + "|empty-reply-stops", p.done == "raise" and p.raised == stop_exc, "empty reply raises %s" % stop_exc,
                          "an empty reply list does not end the iteration", loc(ctx, mod, e))
            elif p.done == "return":
                ndeliver += 1
                rep.check(rule, q + "|deliver-after-refill", any(j > i for j, x in pops) and p.ret is not None and "pop" in pysym.text(p.ret),
                          "first element delivered right after the refill", "nothing is delivered after a refill", loc(ctx, mod, e))
        for i, e in calls(p, is_req):
            rep.check(rule, q + "|serve-buffer-first", holds(e.conds, "self._buffer", False), "a new request only with an empty buffer",
                      "a request is sent although buffered elements are left", loc(ctx, mod, e))
        if not st and p.done == "return" and pops and holds(p.conds, "self._buffer", True):
            nearly += 1
        # whatever is handed to the caller was tested for the None end marker first
        if p.done == "return" and pops and p.ret is not None and "pop" in pysym.text(p.ret):
            i, e = pops[-1]
            ptxt = "%s(%s)" % (e.func, ", ".join(e.args))
            rep.check(rule, q + "|delivered-element-tested", ("eq(None,%s)" % ptxt, False) in p.conds, "popped element compared with None before delivery",
                      "an element popped from the buffer is returned without the None end-marker test: the marker is yielded as a value and the walk does not end",
                      loc(ctx, mod, e))
    if not npop:
        rep.missing(rule, q + ": self._buffer.pop")
    if not nstore:
        rep.missing(rule, q + ": refill assignment self._buffer = ...")
    rep.check(rule, q + "|none-sentinel-tested", nsent > 0, "the popped element is tested for the None marker",
              "the None end marker popped from the buffer does not raise %s" % stop_exc, ctx.py.loc(mod, node))
    rep.check(rule, q + "|empty-reply-tested", nempty > 0, "empty reply ends the iteration", "an empty reply list does not end the iteration",
              ctx.py.loc(mod, node))
    rep.check(rule, q + "|delivers", ndeliver > 0, "an element is delivered after a refill", "nothing is delivered after a refill", ctx.py.loc(mod, node))
    rep.check(rule, q + "|serve-buffer-first:early", nearly > 0, "buffered elements are returned before a new request is sent",
              "no early return of buffered elements: each call sends a new request", ctx.py.loc(mod, node))


def bulk_buffer(ctx, rep, rule):
    _bulk_iter(ctx, rep, rule, "sync_getbulk", "__next__", "StopIteration")
    _bulk_iter(ctx, rep, rule, "async_client", "__anext__", "StopAsyncIteration")


def stop_mapping(ctx, rep, rule):
    """Sync iterators turn the Rust layer's StopAsyncIteration into StopIteration."""
    for mod, cls, meth in (("sync_getnext", "GetNextIter", "get_next"), ("sync_getbulk", "GetBulkIter", "get_bulk")):
        ps = paths(ctx, rep, rule, mod, cls, "__next__")
        if not ps:
            continue
        n = 0
        done = set()
        for p in ps:
            for i, e in calls(p, "self._sock." + meth):
                n += 1
                k = (getattr(e.node, "lineno", 0), e.handlers, tuple(e.args))
                if k in done:
                    continue
                done.add(k)
                rep.check(rule, "%s.%s.__next__|StopAsyncIteration->StopIteration" % (mod, cls), maps(e, "StopAsyncIteration", "StopIteration"),
                          "mapped", "StopAsyncIteration from the socket is not turned into StopIteration: the sync walk never "
                          "ends cleanly", loc(ctx, mod, e))
                rep.check(rule, "%s.%s.__next__|ctx" % (mod, cls), e.args == ["self._ctx"], "request built from the iterator state",
                          "socket called with %s instead of self._ctx" % e.args, loc(ctx, mod, e))
        if not n:
            rep.missing(rule, "%s.%s.__next__: self._sock.%s" % (mod, cls, meth))


def async_pairs(ctx, rep, rule):
    """Async operations send X and receive X (same operation, same iterator context), send before receive."""
    table = (
        ("SnmpSession", "get", "send_get", "recv_get", None),
        ("SnmpSession", "get_many", "send_get_many", "recv_get_many", None),
        ("GetNextIter", "__anext__", "send_get_next", "recv_get_next", ["self._ctx"]),
        ("GetBulkIter", "__anext__", "send_get_bulk", "recv_get_bulk", ["self._ctx"]),
    )
    for cls, meth, snd, rcv, args in table:
        ps = paths(ctx, rep, rule, "async_client", cls, meth)
        if not ps:
            continue
        q = "async_client.%s.%s" % (cls, meth)
        node = fn_node(ctx, "async_client", cls, meth)
        n = 0
        bad = None
        for p in ps:
            s = calls(p, lambda f: re.search(r"\._sock\.send_\w+$", f) is not None)
            r = calls(p, lambda f: re.search(r"\._sock\.recv_\w+$", f) is not None)
            if not s and not r:
                continue
            n += 1
            ns = {e.func.split(".")[-1] for i, e in s}
            nr = {e.func.split(".")[-1] for i, e in r}
            if ns != {snd} or nr != {rcv}:
                bad = bad or ("expected %s/%s, found send=%s recv=%s" % (snd, rcv, sorted(ns), sorted(nr)), s[0][1] if s else r[0][1])
            elif min(i for i, e in s) > min(i for i, e in r):
                bad = bad or ("reply awaited before the request is sent", s[0][1])
            elif args is not None and any(e.args != args for i, e in s + r):
                bad = bad or ("send/receive use %s instead of %s" % ([e.args for i, e in s + r], args), s[0][1])
        if not n:
            rep.missing(rule, q + ": send_*/recv_* calls")
            continue
        rep.check(rule, q + "|pair", bad is None, "%s then %s%s" % (snd, rcv, " on self._ctx" if args else ""), bad[0] if bad else "",
                  loc(ctx, "async_client", bad[1]) if bad else ctx.py.loc("async_client", node))


# ----------------------------------------------------------------------------- C13.py
SET_KEYS_ARGS = ["self._deferred_user.name", "self._deferred_user.get_auth_alg()", "self._deferred_user.get_auth_key()",
                 "self._deferred_user.get_priv_alg()", "self._deferred_user.get_priv_key()"]
USER_FIELDS = ["%s.name", "%s.get_auth_alg()", "%s.get_auth_key()", "%s.get_priv_alg()", "%s.get_priv_key()"]


def refresh_flow(ctx, rep, rule):
    for mod in CLIENTS:
        q = mod + ".SnmpSession"
        ps = paths(ctx, rep, rule, mod, "SnmpSession", "__init__")
        if ps:
            nctor = ndef = 0
            seen = set()
            for p in ps:
                ct = calls(p, "SnmpV3ClientSocket")
                if not ct:
                    for i, e in stores(p, "self._deferred_user"):
                        if e.value != "None":
                            rep.violation(rule, q + ".__init__|defer-iff-no-engine-id", "a user is deferred on a path that builds no SNMPv3 socket", loc(ctx, mod, e))
                    continue
                i, c = ct[0]
                nctor += 1
                noeng = holds(c.conds, "engine_id", False) or holds(c.conds, "engine_id is None", True)
                haseng = holds(c.conds, "engine_id", True)
                d = [(j, e) for j, e in stores(p, "self._deferred_user") if e.value != "None"]
                k = (noeng, haseng, tuple(e.value for j, e in d), tuple(c.args[1:7]))
                if k in seen:
                    continue
                seen.add(k)
                if noeng:
                    ndef += 1
                    rep.check(rule, q + ".__init__|defer-iff-no-engine-id", len(d) == 1 and d[0][1].value == "user",
                              "without an engine id the user is deferred", "no engine id is given but the deferred user is %s: the user's keys are never installed"
                              % [e.value for j, e in d], loc(ctx, mod, c))
                elif haseng:
                    rep.check(rule, q + ".__init__|no-defer-with-engine-id", not d, "user installed at once when the engine id is known",
                              "the user is deferred although an engine id is given", loc(ctx, mod, c))
                a = c.args
                eng = pysym.reduce(a[1], c.conds) if len(a) > 1 else None
                rep.check(rule, q + ".__init__|engine-id-arg", (noeng and eng == "b''") or (haseng and eng == "engine_id") or
                          (not noeng and not haseng and a[1:2] in (["engine_id or b''"], ["engine_id if engine_id else b''"])),
                          "engine id handed to the socket", "engine id argument is %s" % (a[1] if len(a) > 1 else None), loc(ctx, mod, c))
                ok = any(a[2:7] == [f % pre for f in USER_FIELDS] for pre in (("user", "User.default()") if noeng else ("user",)))
                rep.check(rule, q + ".__init__|user-args", ok, "user name, auth alg/key, priv alg/key in order", "socket built from %s" % a[2:7], loc(ctx, mod, c))
                tr = [e for j, e in stores(p, "self._to_refresh") if j > i]
                if p.done != "raise":
                    if not tr:
                        rep.violation(rule, q + ".__init__|to-refresh", "self._to_refresh is not set after the SNMPv3 socket is built", loc(ctx, mod, c))
                    else:
                        v = pysym.reduce(tr[-1].value, tr[-1].conds)
                        want = "True" if noeng else ("user.require_auth()" if haseng else "not engine_id or user.require_auth()")
                        rep.check(rule, q + ".__init__|to-refresh", v == want or (noeng and v in ("True",)),
                                  "refresh needed when engine id unknown or auth in use", "self._to_refresh = %s (expected %s)" % (v, want), loc(ctx, mod, tr[-1]))
            if not nctor:
                rep.missing(rule, q + ".__init__: SnmpV3ClientSocket(...)")
            elif not ndef:
                rep.missing(rule, q + ".__init__: a path without engine id")
        ps = paths(ctx, rep, rule, mod, "SnmpSession", "refresh")
        if ps:
            if mod == "sync_client":
                is_probe = lambda e: e.func == "self._sock.refresh"  # noqa: E731
            else:
                is_probe = lambda e: e.func == "self._sock.recv_refresh"  # noqa: E731
            node = fn_node(ctx, mod, "SnmpSession", "refresh")
            nk = nprobe = 0
            seen = set()
            for p in ps:
                probes = [(i, e) for i, e in enumerate(p.events) if e.kind == "call" and is_probe(e)]
                sk = calls(p, "self._sock.set_keys")
                sig = (tuple(i for i, e in probes), tuple(i for i, e in sk), tuple(sorted(set(p.conds))))
                if sig in seen:
                    continue
                seen.add(sig)
                if mod == "async_client":
                    seq = [e.func.split(".")[-1] for e in p.events if e.kind == "call" and e.func in ("self._sock.send_refresh", "self._sock.recv_refresh")]
                    good = len(seq) % 2 == 0 and all(x == ("send_refresh" if k % 2 == 0 else "recv_refresh") for k, x in enumerate(seq))
                    rep.check(rule, q + ".refresh|send-recv-paired", good, "each probe is sent then awaited", "send_refresh/recv_refresh are not paired in order: %s" % seq,
                              ctx.py.loc(mod, node))
                for i, e in probes:
                    nprobe += 1
                    gate = holds(e.conds, "isinstance(self._sock, SnmpV3ClientSocket)", True) and \
                        (holds(e.conds, "self._to_refresh", True) or ("old(self._to_refresh)", True) in e.conds)
                    rep.check(rule, q + ".refresh|v3-only", gate, "probes only for an SNMPv3 socket that needs a refresh",
                              "refresh probes run without the v3 / _to_refresh gate", loc(ctx, mod, e))
                for i, e in sk:
                    nk += 1
                    rep.check(rule, q + ".refresh|set_keys-args", [strip_old(a) for a in e.args] == SET_KEYS_ARGS, "deferred user's name and keys, in order",
                              "set_keys called with %s" % e.args, loc(ctx, mod, e))
                    rep.check(rule, q + ".refresh|set_keys-under-deferred", holds(e.conds, "self._deferred_user", True) or ("old(self._deferred_user)", True) in e.conds,
                              "", "set_keys is not conditional on a deferred user",
                              loc(ctx, mod, e))
                    rep.check(rule, q + ".refresh|discover-before-set_keys", any(j < i for j, x in probes), "engine id discovery precedes key localisation",
                              "set_keys runs before any refresh: keys are localised with an empty engine id", loc(ctx, mod, e))
                    clr = [j for j, x in stores(p, "self._deferred_user") if x.value == "None" and j > i]
                    early = [j for j, x in stores(p, "self._deferred_user") if x.value == "None" and j < i]
                    rep.check(rule, q + ".refresh|clear-deferred", bool(clr) and not early, "deferred user cleared after (and only after) installation",
                              "the deferred user is %s: if discovery or set_keys fails the keys are never installed and later requests go out "
                              "unauthenticated and in clear" % ("cleared before set_keys has run" if early else "not cleared after set_keys"), loc(ctx, mod, e))
                    rep.check(rule, q + ".refresh|final-refresh", any(j > i for j, x in probes) or p.done == "raise", "time/boots refresh with the real keys follows",
                              "no refresh after the keys are installed", loc(ctx, mod, e))
                if not sk and p.done is None and probes and (("self._deferred_user", True) in p.conds or ("old(self._deferred_user)", True) in p.conds):
                    rep.violation(rule, q + ".refresh|install-deferred", "a deferred user is pending but set_keys is not called on this path", ctx.py.loc(mod, node))
            if not nk:
                rep.missing(rule, q + ".refresh: self._sock.set_keys")
            if not nprobe:
                rep.missing(rule, q + ".refresh: refresh probe")
        ent = "__enter__" if mod == "sync_client" else "__aenter__"
        ps = paths(ctx, rep, rule, mod, "SnmpSession", ent)
        if ps:
            ok = all(calls(p, "self.refresh") or any(e.origin and "refresh" in e.origin for e in p.events) for p in ps if p.done != "raise")
            if mod == "async_client":
                ok = ok and all(e.awaited for p in ps for i, e in calls(p, "self.refresh"))
            rep.check(rule, q + "." + ent + "|refresh", ok, "context entry runs discovery", "context entry does not call refresh()",
                      ctx.py.loc(mod, fn_node(ctx, mod, "SnmpSession", ent)))


# ----------------------------------------------------------------------------- C18
def timeouts(ctx, rep, rule):
    py = ctx.py
    ns = {m: py.module_consts(m).get("NS") for m in ("sync_client", "policer")}
    for m, v in ns.items():
        rep.check(rule, m + "|NS", v == 1_000_000_000.0, "NS = 1e9", "NS is %r" % (v,), py.sources.get(m, m))
    for mod in CLIENTS:
        ps = paths(ctx, rep, rule, mod, "SnmpSession", "__init__")
        if not ps:
            continue
        found = set()
        seen = set()
        for p in ps:
            for name, idx in (("SnmpV1ClientSocket", 5), ("SnmpV2cClientSocket", 5), ("SnmpV3ClientSocket", 10)):
                for i, e in calls(p, name):
                    found.add(name)
                    last = e.args[idx] if len(e.args) > idx else None
                    if (name, last) in seen:
                        continue
                    seen.add((name, last))
                    if mod == "sync_client":
                        rep.check(rule, "%s.__init__|%s timeout arg" % (mod, name), last in ("int(timeout * NS)", "int(NS * timeout)", "timeout_ns=int(timeout * NS)"),
                                  "int(timeout * NS)", "socket timeout argument is %s" % last, loc(ctx, mod, e))
                    else:
                        rep.check(rule, "%s.__init__|%s timeout arg" % (mod, name), last in ("0", "timeout_ns=0"),
                                  "0 (non-blocking)", "async socket timeout argument is %s (must be non-blocking)" % last, loc(ctx, mod, e))
            if p.done != "raise":
                t = [e.value for i, e in stores(p, "self._timeout")]
                if ("T", tuple(t)) not in seen:
                    seen.add(("T", tuple(t)))
                    rep.check(rule, "%s.__init__|self._timeout" % mod, t == ["timeout"], "timeout", "self._timeout = %s" % t,
                              py.loc(mod, fn_node(ctx, mod, "SnmpSession", "__init__")))
        if len(found) < 3:
            rep.missing(rule, "%s.__init__: three socket constructors" % mod)
    ps = paths(ctx, rep, rule, "async_client", "SnmpSession", "_recv")
    if ps:
        nwf = 0
        seen = set()
        for p in ps:
            for i, e in calls(p, lambda f: f in ("wait_for", "asyncio.wait_for")):
                nwf += 1
                k = (tuple(e.args), e.handlers)
                if k in seen:
                    continue
                seen.add(k)
                a = e.args
                m = re.match(r"^coro\((\w+)\)$", a[0]) if a else None
                rep.check(rule, "async_client._recv|deadline", bool(m) and len(a) >= 2 and a[1] in ("self._timeout", "timeout=self._timeout"),
                          "whole retry loop under wait_for(self._timeout)", "wait_for called with %s" % a, loc(ctx, "async_client", e))
                rep.check(rule, "async_client._recv|timeout-mapped", maps(e, "AIOTimeoutError", "TimeoutError") or maps(e, "asyncio.TimeoutError", "TimeoutError") or
                          maps(e, "TimeoutError", "TimeoutError"), "asyncio timeout -> TimeoutError", "asyncio timeout is not mapped to TimeoutError",
                          loc(ctx, "async_client", e))
                # every retry waits for a fresh readiness notification: the future and the reader registration are made
                # inside the loop (a future created once stays done after the first wake-up and the loop spins)
                arm = [x for j, x in calls(p, lambda f: f.endswith(".create_future") or f.endswith(".add_reader")) if j < i and m and x.origin and m.group(1) in x.origin]
                rep.check(rule, "async_client._recv|re-armed-each-retry", bool(arm) and all(x.loops for x in arm),
                          "create_future / add_reader inside the retry loop", "the readiness future or the reader registration is set up once outside the "
                          "retry loop: after the first stray datagram the coroutine spins without yielding and the wait_for deadline cannot fire",
                          loc(ctx, "async_client", e))
                for x in [x for j, x in calls(p, "receiver") if j < i]:
                    sw = [n_ for n_, r_ in x.handlers if r_ in ("@continue", None) and n_ not in ("BlockingIOError",) and n_ != "AIOTimeoutError"]
                    # `except BlockingIOError: continue`, or a handler that just falls through to the end of the loop body
                    retry = any(n_ == "BlockingIOError" and (r_ == "@continue" or (r_ is None and x.loops)) for n_, r_ in x.handlers)
                    rep.check(rule, "async_client._recv|only-BlockingIOError-retried", not sw, "errors of the receiver reach the caller",
                              "exceptions %s raised by the receiver are swallowed by the retry loop: a decoding or SNMP error turns into a timeout" % sw,
                              loc(ctx, "async_client", x))
                    rep.check(rule, "async_client._recv|BlockingIOError-retried", retry, "BlockingIOError (nothing for us yet) waits for the next datagram",
                              "BlockingIOError of the receiver is not retried: a stray datagram ends the wait although the reply may still arrive in time",
                              loc(ctx, "async_client", x))
                rc = [x for j, x in calls(p, "receiver") if j < i]
                inside = [x for x in rc if m and x.origin and m.group(1) in x.origin]
                rep.check(rule, "async_client._recv|retry-inside", bool(inside) and all(x.loops for x in inside) and len(inside) == len(rc),
                          "receiver retried inside the awaited coroutine", "receiver is not retried in a loop inside the coroutine handed to wait_for",
                          loc(ctx, "async_client", e))
        if not nwf:
            rep.missing(rule, "async_client._recv: wait_for")


# ----------------------------------------------------------------------------- C19
def _waited(p, i, e, wait_name):
    """The request event e (index i) of path p is preceded by a policer wait, or no policer is configured on the path."""
    pol = [c for c in e.conds if re.match(r"^(self(\._session)?\._policer)$", c[0]) or re.match(r"^eq\(None,self(\._session)?\._policer\)$", c[0])]
    if any((t.startswith("eq(") and v) or (not t.startswith("eq(") and not v) for t, v in pol):
        return True, "no policer configured on this path"
    w = [(j, x) for j, x in calls(p, lambda f: re.match(r"^self(\._session)?\._policer\.%s$" % wait_name, f) is not None) if j < i]
    if not w:
        return False, "no %s() before the request" % wait_name
    if wait_name == "wait" and not all(x.awaited for j, x in w):
        return False, "policer.wait() is not awaited"
    return True, "policer waited"


def policer_guard(ctx, rep, rule):
    m = model(ctx)
    table = (("sync_client", "SnmpSession", "get", "get"), ("sync_client", "SnmpSession", "get_many", "get_many"),
             ("sync_getnext", "GetNextIter", "__next__", "get_next"), ("sync_getbulk", "GetBulkIter", "__next__", "get_bulk"))
    for mod, cls, fn, meth in table:
        ps = paths(ctx, rep, rule, mod, cls, fn)
        if not ps:
            continue
        n = 0
        bad = None
        for p in ps:
            for i, e in calls(p, "self._sock." + meth):
                n += 1
                ok, why = _waited(p, i, e, "wait_sync")
                if not ok:
                    bad = bad or (why, e)
        if not n:
            rep.missing(rule, "%s.%s.%s: self._sock.%s" % (mod, cls, fn, meth))
            continue
        rep.check(rule, "%s.%s.%s|wait-before-send" % (mod, cls, fn), bad is None, "policer awaited before the request",
                  "request self._sock.%s() is sent without waiting for the policer (%s)" % (meth, bad[0] if bad else ""),
                  loc(ctx, mod, bad[1]) if bad else ctx.py.loc(mod, fn_node(ctx, mod, cls, fn)))
    # ... and wherever else a sync method issues a request (a fast path through another socket call is a request too)
    for mod in ("sync_client", "sync_getnext", "sync_getbulk"):
        for cls, meths in sorted(m.classes.get(mod, {}).items()):
            for meth in sorted(meths):
                if (mod, cls, meth) in {(a, b, c) for a, b, c, d in table}:
                    continue
                ps = m.paths(mod, cls, meth)
                bad = None
                k = 0
                for p in ps or []:
                    for i, e in calls(p, lambda f: re.search(r"\._sock\.(get|get_many|get_next|get_bulk)$", f) is not None):
                        k += 1
                        ok, why = _waited(p, i, e, "wait_sync")
                        if not ok:
                            bad = bad or (why, e)
                if k:
                    rep.check(rule, "%s.%s.%s|wait-before-send" % (mod, cls, meth), bad is None, "policer awaited before the request",
                              "a request is sent without waiting for the policer (%s)" % (bad[0] if bad else ""),
                              loc(ctx, mod, bad[1]) if bad else ctx.py.loc(mod, meths[meth]))
    for mod, cls, fn, meth in table:
        # the listed methods: any request call, not only the one the method is named after
        ps = m.paths(mod, cls, fn)
        bad = None
        for p in ps or []:
            for i, e in calls(p, lambda f: re.search(r"\._sock\.(get|get_many|get_next|get_bulk)$", f) is not None and not f.endswith("._sock." + meth)):
                ok, why = _waited(p, i, e, "wait_sync")
                if not ok:
                    bad = bad or (why, e)
        if bad is not None:
            rep.violation(rule, "%s.%s.%s|wait-before-send" % (mod, cls, fn), "request %s() is sent without waiting for the policer (%s)" %
                          (bad[1].func, bad[0]), loc(ctx, mod, bad[1]))
    # async: every send_* reached from any method is preceded by an awaited policer wait
    covered = set()
    nsend = 0
    for cls, meths in sorted(m.classes.get("async_client", {}).items()):
        for meth in sorted(meths):
            ps = m.paths("async_client", cls, meth)
            bad = None
            k = 0
            for p in ps or []:
                for i, e in calls(p, lambda f: re.search(r"\._sock\.send_\w+$", f) is not None):
                    k += 1
                    covered.add((getattr(e.node, "lineno", 0), getattr(e.node, "col_offset", 0)))
                    ok, why = _waited(p, i, e, "wait")
                    if not ok:
                        bad = bad or (why, e)
            if k:
                nsend += 1
                rep.check(rule, "async_client.%s.%s|wait-before-send" % (cls, meth), bad is None, "policer awaited before every send_*",
                          "a request is sent without awaiting the policer (%s)" % (bad[0] if bad else ""),
                          loc(ctx, "async_client", bad[1]) if bad else ctx.py.loc("async_client", meths[meth]))
    if nsend < 5:
        rep.missing(rule, "async_client: methods sending requests (found %d, expected get, get_many, refresh, 2 iterators)" % nsend)
    # every syntactic send_* (call or bound-method reference) is one the paths above went through
    tree = ctx.py.modules.get("async_client")
    funcs_of_calls = {}
    args_of_calls = {}
    for n in ast.walk(tree) if tree else []:
        if isinstance(n, ast.Call):
            funcs_of_calls[id(n.func)] = n
            for a in list(n.args) + [k.value for k in n.keywords]:
                args_of_calls[id(a)] = n
    for n in ast.walk(tree) if tree else []:
        if isinstance(n, ast.Attribute) and re.search(r"\._sock\.send_\w+$", ast.unparse(n)):
            name = ast.unparse(n).split(".")[-1]
            if id(n) in funcs_of_calls:
                c = funcs_of_calls[id(n)]
                hit = (c.lineno, c.col_offset) in covered
            elif id(n) in args_of_calls:
                hit = ast.unparse(args_of_calls[id(n)].func).endswith("._send")
            else:
                hit = False
            rep.check(rule, "async_client|%s reached through a policed path" % name, hit, "",
                      "%s is used outside the analysed send paths (bypasses the policer)" % ast.unparse(n), ctx.py.loc("async_client", n))
    # sessions build the policer
    for mod in CLIENTS:
        ps = paths(ctx, rep, rule, mod, "SnmpSession", "__init__")
        if not ps:
            continue
        seen = set()
        node = fn_node(ctx, mod, "SnmpSession", "__init__")
        for p in ps:
            if p.done == "raise":
                continue
            st = stores(p, "self._policer")
            v = st[-1][1].value if st else None
            given = ("policer", True) in p.conds or ("eq(None,policer)", False) in p.conds
            absent = ("policer", False) in p.conds or ("eq(None,policer)", True) in p.conds
            rps = ("limit_rps", True) in p.conds or ("eq(None,limit_rps)", False) in p.conds
            norps = ("limit_rps", False) in p.conds or ("eq(None,limit_rps)", True) in p.conds
            k = (given, absent, rps, norps, v)
            if k in seen:
                continue
            seen.add(k)
            if given:
                rep.check(rule, mod + ".__init__|explicit-policer-first", v == "policer", "explicit policer wins", "a policer is given but self._policer = %s" % v,
                          ctx.py.loc(mod, node))
            elif absent and rps:
                rep.check(rule, mod + ".__init__|limit_rps", v in ("RPSPolicer(float(limit_rps))", "RPSPolicer(limit_rps)", "RPSPolicer(rps=float(limit_rps))"),
                          "RPSPolicer(float(limit_rps)) when only limit_rps is given", "limit_rps is given but self._policer = %s" % v, ctx.py.loc(mod, node))
            elif absent and norps:
                rep.check(rule, mod + ".__init__|no-policer", v in (None, "None"), "no policer by default", "self._policer = %s without policer / limit_rps" % v,
                          ctx.py.loc(mod, node))
            elif absent and v in (None, "None"):
                # no limiter on a path that did not establish `limit_rps` absent or zero: a compound test (`limit_rps and
                # limit_rps > 0`) lets a rate through that RPSPolicer would have refused
                other = [c for c, val in p.conds if "limit_rps" in c and c not in ("limit_rps", "eq(None,limit_rps)")]
                # the compound test is folded over sample rates: the path is taken for a non-zero rate?
                verdicts = []
                for sample in (-1, -0.5, 0.5, 1, 5, 10 ** 12):
                    ok_all = True
                    for c, val in p.conds:
                        if "limit_rps" not in c:
                            continue
                        try:
                            r = bool(eval(c, {"__builtins__": {}}, {"limit_rps": sample, "eq": lambda a, b: a is b or a == b,  # noqa: S307
                                                                    "policer": None, "None": None, "isinstance": isinstance, "int": int, "float": float}))
                        except Exception:  # noqa: BLE001
                            ok_all = None
                            break
                        if r != bool(val):
                            ok_all = False
                            break
                    verdicts.append(ok_all)
                if other and None in verdicts:
                    rep.inconclusive(rule, mod + ".__init__|limit_rps", "test `%s` on limit_rps not evaluated" % other[0], ctx.py.loc(mod, node))
                elif other and any(verdicts):
                    rep.violation(rule, mod + ".__init__|limit_rps", "the session is built without a limiter on a path where limit_rps need not be "
                                  "None or 0 (decided by `%s`): a rate RPSPolicer refuses is silently ignored" % other[0], ctx.py.loc(mod, node), obligation=True)
        if not any(k[0] for k in seen) or not any(k[1] and k[2] for k in seen):
            rep.missing(rule, mod + ".__init__: policer / limit_rps cases")
    # the policer of a session is chosen once, in the constructor: no method replaces or clears it later
    for mod in CLIENTS:
        for meth, node in sorted(m.classes.get(mod, {}).get("SnmpSession", {}).items()):
            if meth == "__init__" or (meth.startswith("_") and meth in ("_setup_policer",)):
                continue
            for n_ in ast.walk(node):
                tg = []
                if isinstance(n_, ast.Assign):
                    tg = [ast.unparse(t_) for t_ in n_.targets]
                elif isinstance(n_, (ast.AugAssign, ast.AnnAssign)):
                    tg = [ast.unparse(n_.target)]
                if any(t_ == "self._policer" or t_.startswith("self._policer,") or ", self._policer" in t_ for t_ in tg):
                    called_from_init = any(e.origin and meth in e.origin for p_ in (m.paths(mod, "SnmpSession", "__init__") or []) for e in p_.events)
                    rep.check(rule, "%s.SnmpSession.%s|policer not replaced" % (mod, meth), called_from_init, "",
                              "self._policer is assigned in %s(): requests sent while it is cleared (or after a failure that skips the restore) are not rate limited" % meth,
                              ctx.py.loc(mod, n_))
    nctor = 0
    for meth in sorted(m.classes.get("sync_client", {}).get("SnmpSession", {})):
        ps = m.paths("sync_client", "SnmpSession", meth)
        seen = set()
        for p in ps or []:
            for i, e in calls(p, lambda f: f in ("GetNextIter", "GetBulkIter")):
                if (e.func, tuple(e.args)) in seen:
                    continue
                seen.add((e.func, tuple(e.args)))
                nctor += 1
                rep.check(rule, "sync_client.SnmpSession.%s|%s policer passed" % (meth, e.func), bool(e.args) and e.args[-1] in ("self._policer", "policer=self._policer"),
                          "iterator shares the session policer", "%s built from %s: the walk is not rate limited" % (e.func, e.args), loc(ctx, "sync_client", e))
    if nctor < 2:
        rep.missing(rule, "sync_client: GetNextIter / GetBulkIter constructions")
    # the sync iterators keep the policer they are given
    for mod, cls in (("sync_getnext", "GetNextIter"), ("sync_getbulk", "GetBulkIter")):
        ps = paths(ctx, rep, rule, mod, cls, "__init__")
        for p in (ps or [])[:1]:
            st = stores(p, "self._policer")
            rep.check(rule, "%s.%s.__init__|keeps policer" % (mod, cls), bool(st) and st[-1][1].value == "policer", "self._policer = policer",
                      "the iterator stores %s as its policer" % ([e.value for i, e in st]), ctx.py.loc(mod, fn_node(ctx, mod, cls, "__init__")))


def policer_core(ctx, rep, rule):
    py = ctx.py
    m = model(ctx)
    ps = paths(ctx, rep, rule, "policer", "RPSPolicer", "__init__")
    if ps:
        node = fn_node(ctx, "policer", "RPSPolicer", "__init__")
        zconst = py.module_consts("policer").get("ZERO")
        rep.check(rule, "policer|ZERO", zconst == 0.0, "ZERO = 0.0", "ZERO is %r" % (zconst,), py.sources["policer"])
        nonpos = [p for p in ps if any(c in p.conds for c in (("ZERO < rps", False), ("0 < rps", False), ("0.0 < rps", False)))]
        other = [p for p in ps if p.done == "raise" and p not in nonpos and any("rps" in c[0] and "NS" not in c[0] for c in p.conds[:1])]
        if nonpos:
            rep.check(rule, "RPSPolicer.__init__|non-positive", all(p.done == "raise" and p.raised == "ValueError" for p in nonpos), "rps <= 0 raises ValueError",
                      "rps <= 0 does not raise ValueError", py.loc("policer", node))
        elif other:
            rep.inconclusive(rule, "RPSPolicer.__init__|non-positive", "rps is validated by an unrecognised test: %s" % (other[0].conds,), py.loc("policer", node))
        else:
            rep.violation(rule, "RPSPolicer.__init__|non-positive", "no ValueError for rps <= 0", py.loc("policer", node))
        good = ("int(NS / rps)", "int(NS // rps)")
        nd = 0
        seen = set()
        for p in ps:
            if p.done == "raise":
                continue
            d = [e.value for i, e in stores(p, "self._delta")]
            pv = [e.value for i, e in stores(p, "self._prev")]
            if (tuple(d), tuple(pv)) in seen:
                continue
            seen.add((tuple(d), tuple(pv)))
            nd += 1
            if d and d[-1] in good:
                rep.ok(rule, "RPSPolicer.__init__|delta", "interval = int(NS / rps)", py.loc("policer", node))
            elif not d:
                rep.violation(rule, "RPSPolicer.__init__|delta", "self._delta is not set", py.loc("policer", node))
            elif re.match(r"^int\((NS|1000000000(\.0)?|1e9) //? \(?rps\)?\)$", d[-1]):
                rep.ok(rule, "RPSPolicer.__init__|delta", d[-1], py.loc("policer", node))
            elif re.search(r"rps\s*[/*]|NS\s*\*|^rps$|^NS$", d[-1]) or ("rps" not in d[-1]):
                rep.violation(rule, "RPSPolicer.__init__|delta", "self._delta = %s (the interval is NS / rps nanoseconds)" % d[-1], py.loc("policer", node))
            else:
                rep.inconclusive(rule, "RPSPolicer.__init__|delta", "self._delta = %s: equivalence with int(NS / rps) is not decided" % d[-1], py.loc("policer", node))
            rep.check(rule, "RPSPolicer.__init__|prev", pv[-1:] == ["None"], "no previous slot", "self._prev = %s" % pv, py.loc("policer", node))
        if not nd:
            rep.missing(rule, "RPSPolicer.__init__: a non-raising path")
        zero = [p for p in ps if any(c in p.conds for g in good for c in ((g, False),))]
        rep.check(rule, "RPSPolicer.__init__|too-high", bool(zero) and all(p.done == "raise" and p.raised == "ValueError" for p in zero),
                  "zero interval raises ValueError", "an interval of 0 ns (unrepresentably high rate) is accepted", py.loc("policer", node))
    D = "self.get_timeout(perf_counter_ns())"
    for fn, sl in (("wait", "asyncio.sleep"), ("wait_sync", "sleep")):
        ps = paths(ctx, rep, rule, "policer", "BasePolicer", fn)
        if not ps:
            continue
        node = fn_node(ctx, "policer", "BasePolicer", fn)
        nsl = 0
        seen = set()
        for p in ps:
            gt = calls(p, "self.get_timeout")
            sls = calls(p, lambda f: f in (sl, "time.sleep" if sl == "sleep" else "sleep@"))
            k = (tuple(tuple(e.args) for i, e in gt), tuple((tuple(e.args), e.conds) for i, e in sls), tuple(sorted(set(p.conds))))
            if k in seen:
                continue
            seen.add(k)
            rep.check(rule, "BasePolicer.%s|delta-source" % fn, len(gt) == 1 and gt[0][1].args == ["perf_counter_ns()"],
                      "one get_timeout(perf_counter_ns()) per call", "get_timeout is called %d time(s) with %s: each call books a slot" %
                      (len(gt), [e.args for i, e in gt]), py.loc("policer", node))
            for i, e in sls:
                nsl += 1
                rep.check(rule, "BasePolicer.%s|sleep-amount" % fn, e.args in (["float(%s) / NS" % D], ["%s / NS" % D]),
                          "sleeps delta/NS seconds", "sleeps %s instead of the computed delay" % e.args, loc(ctx, "policer", e))
                pos = ("0 < " + D, True) in e.conds
                nn = (D, True) in e.conds or ("eq(None,%s)" % D, False) in e.conds
                rep.check(rule, "BasePolicer.%s|sleep-when-positive" % fn, pos and nn, "only for a positive delay", "sleep condition is %s" % (e.conds,),
                          loc(ctx, "policer", e))
                if fn == "wait":
                    rep.check(rule, "BasePolicer.wait|awaited", e.awaited, "sleep is awaited", "asyncio.sleep is not awaited", loc(ctx, "policer", e))
            if ("0 < " + D, True) in p.conds and p.done != "raise":
                rep.check(rule, "BasePolicer.%s|sleeps" % fn, bool(sls), "a positive delay is slept", "a positive delay is computed but not slept",
                          py.loc("policer", node))
        if not nsl:
            rep.missing(rule, "BasePolicer.%s: %s" % (fn, sl))
    ps = paths(ctx, rep, rule, "policer", "RPSPolicer", "get_timeout")
    if ps:
        node = fn_node(ctx, "policer", "RPSPolicer", "get_timeout")
        origins = set()
        for p in ps:
            for e in p.events:
                origins |= set(e.origin or ())
        # writers of _prev
        tree = py.modules["policer"]
        for c in [n for n in tree.body if isinstance(n, ast.ClassDef)]:
            for f in [x for x in c.body if isinstance(x, (ast.FunctionDef, ast.AsyncFunctionDef))]:
                for n in ast.walk(f):
                    tg = []
                    if isinstance(n, ast.Assign):
                        tg = [ast.unparse(t) for t in n.targets]
                    elif isinstance(n, (ast.AugAssign, ast.AnnAssign)):
                        tg = [ast.unparse(n.target)]
                    if "self._prev" in tg:
                        okw = (c.name == "RPSPolicer" and f.name in ("get_timeout", "__init__")) or (f.name.startswith("_") and f.name in origins)
                        rep.check(rule, "policer|_prev written in %s.%s" % (c.name, f.name), okw, "", "self._prev written outside get_timeout", py.loc("policer", n))
        # decision table of get_timeout: (path condition at the slot update) -> (state update, return)
        E = "ts - self._prev"
        rows = []
        for p in ps:
            st = stores(p, "self._prev")
            rets = [e for e in p.events if e.kind == "return" and not e.origin]
            conds = st[0][1].conds if st else (rets[-1].conds if rets else p.conds)
            conds = tuple(sorted(set((strip_old(t), v) for t, v in conds)))
            rows.append((conds, tuple(strip_old(e.value) for i, e in st), strip_old(pysym.text(p.ret)) if p.ret is not None else "None"))
        NONE = ("eq(None,self._prev)", False)
        expect = {
            "first": ((("eq(None,self._prev)", True),), ("ts",), "None"),
            "clock-back": (((E + " < 0", True), NONE), ("ts",), "self._delta"),
            "early": (((E + " < 0", False), (E + " < self._delta", True), NONE), ("self._prev + self._delta",), "self._delta - (%s)" % E),
            "late": (((E + " < 0", False), (E + " < self._delta", False), NONE),
                     ("self._prev + self._delta * ((%s) // self._delta)" % E,), "None"),
        }
        got = set(rows)
        for name, (c, u, r) in expect.items():
            k = (tuple(sorted(c)), u, r)
            where = py.loc("policer", node)
            if k in got:
                rep.ok(rule, "RPSPolicer.get_timeout|row:" + name, "%s -> %s ; return %s" % (list(c), list(u), r), where)
                continue
            same = [x for x in got if x[0] == tuple(sorted(c))]
            if not same:
                rep.inconclusive(rule, "RPSPolicer.get_timeout|row:" + name, "path condition %s not found (function restructured)" % (list(c),), where)
                continue
            gu, gr = same[0][1], same[0][2]
            # Only differences whose effect is visible without arithmetic are violations; any other
            # rewriting of the slot arithmetic is outside what this family decides (inconclusive).
            if not gu:
                rep.violation(rule, "RPSPolicer.get_timeout|row:" + name, "under %s the previous slot self._prev is not updated: later calls are measured against a "
                              "stale slot" % (list(c),), where)
            elif name in ("early", "clock-back") and gr in ("None", "0", "0.0", "ZERO", "False"):
                rep.violation(rule, "RPSPolicer.get_timeout|row:" + name, "an early request is released at once (returns %s instead of a positive delay)" % gr, where)
            else:
                rep.inconclusive(rule, "RPSPolicer.get_timeout|row:" + name, "slot arithmetic differs from the reference (%s ; return %s): numerical equivalence is "
                                 "not decided statically" % (list(gu), gr), where)


def session_defaults(ctx, rep, rule):
    """The per-session defaults (max_repetitions, allow_bulk, timeout) are chosen once, in the constructor: a per-call
    override (`getbulk(oid, max_repetitions=n)`) is an argument of that call and must not stick to later calls."""
    m = model(ctx)
    attrs = ("self._max_repetitions", "self._allow_bulk", "self._timeout")
    seen = 0
    for mod in CLIENTS:
        for meth, node in sorted(m.classes.get(mod, {}).get("SnmpSession", {}).items()):
            for n_ in ast.walk(node):
                tg = []
                if isinstance(n_, ast.Assign):
                    for t_ in n_.targets:
                        tg += [ast.unparse(x) for x in (t_.elts if isinstance(t_, (ast.Tuple, ast.List)) else [t_])]
                elif isinstance(n_, (ast.AugAssign, ast.AnnAssign)):
                    tg = [ast.unparse(n_.target)]
                for t_ in tg:
                    if t_ not in attrs:
                        continue
                    if meth == "__init__":
                        seen += 1
                        continue
                    called_from_init = any(e.origin and meth in e.origin for p_ in (m.paths(mod, "SnmpSession", "__init__") or []) for e in p_.events)
                    rep.check(rule, "%s.SnmpSession.%s|%s set once" % (mod, meth, t_), called_from_init, "",
                              "%s is assigned in %s(): a per-call value becomes the session default for every later call" % (t_, meth),
                              ctx.py.loc(mod, n_))
    if seen < 4:
        rep.missing(rule, "SnmpSession.__init__: stores of the session defaults (found %d)" % seen)
    else:
        rep.ok(rule, "SnmpSession|defaults set in the constructor only", "%d stores, all in __init__" % seen)


def errors_propagate(ctx, rep, rule):
    """The sync session reports what the socket reports: around its socket calls (get, get_many, the refresh exchange and
    set_keys) the only exception handling is the BlockingIOError -> TimeoutError mapping.  A handler that swallows or
    retries (an `except X:` that does not re-raise as something) turns an error the caller must see - SnmpAuthError for a
    Report, the timeout of the discovery probe - into a second request or into a session set up on half the exchange."""
    m = model(ctx)
    n = 0
    for meth in ("get", "get_many", "refresh"):
        ps = m.paths("sync_client", "SnmpSession", meth)
        if not ps:
            rep.missing(rule, "sync_client.SnmpSession.%s" % meth)
            continue
        bad = None
        for p in ps:
            for i, e in calls(p, lambda f: re.search(r"(\._sock\.\w+|\._refresh_sock)$", f) is not None):
                n += 1
                for h in e.handlers:
                    if h[1] is None or (h[0], h[1]) != ("BlockingIOError", "TimeoutError"):
                        bad = bad or (e, h)
        rep.check(rule, "sync_client.SnmpSession.%s|errors propagate" % meth, bad is None, "only BlockingIOError -> TimeoutError",
                  "%s() is called under `except %s`%s: the error is handled inside the session instead of reaching the caller" %
                  (bad[0].func if bad else "", bad[1][0] if bad else "", "" if not bad or bad[1][1] is None else " (re-raised as %s)" % bad[1][1]),
                  loc(ctx, "sync_client", bad[0]) if bad else ctx.py.loc("sync_client", fn_node(ctx, "sync_client", "SnmpSession", meth)), obligation=True)
    if n < 3:
        rep.missing(rule, "sync_client: socket calls in get / get_many / refresh (found %d)" % n)


def iter_errors_propagate(ctx, rep, rule):
    """The sync walk iterators hand every error of the socket to the caller: around `self._sock.get_next / get_bulk` the only
    handlers are StopAsyncIteration -> StopIteration (the end of the walk) and BlockingIOError -> TimeoutError.  A wider
    `except` (SnmpError, Exception) ends the walk silently where the request was refused (SnmpEncodeError for a request that
    does not fit, SnmpAuthError for a Report)."""
    allowed = {("StopAsyncIteration", "StopIteration"), ("BlockingIOError", "TimeoutError")}
    n = 0
    for mod, cls, meth in (("sync_getnext", "GetNextIter", "get_next"), ("sync_getbulk", "GetBulkIter", "get_bulk")):
        ps = paths(ctx, rep, rule, mod, cls, "__next__")
        if not ps:
            continue
        bad = None
        for p in ps:
            for i, e in calls(p, "self._sock." + meth):
                n += 1
                for h in e.handlers:
                    if (h[0], h[1]) not in allowed:
                        bad = bad or (e, h)
        rep.check(rule, "%s.%s.__next__|errors propagate" % (mod, cls), bad is None, "only the end-of-walk and timeout mappings",
                  "self._sock.%s() is called under `except %s`%s: an error of the request ends the walk silently instead of reaching the caller" %
                  (meth, bad[1][0] if bad else "", "" if not bad or bad[1][1] is None else " (re-raised as %s)" % bad[1][1]),
                  loc(ctx, mod, bad[0]) if bad else "", obligation=True)
    if n < 2:
        rep.missing(rule, "sync iterators: socket calls in __next__ (found %d)" % n)


def key_classes(ctx, rep, rule):
    """The key classes of user.py are plain carriers: (a) none defines __len__ / __bool__ - `if self.priv_key` in User asks
    "is a key configured", an empty key is a configured key that the socket must refuse; (b) the privacy key classes take
    the key as given - it is aligned later, in User.__init__, to the *authentication* key length (a privacy master key
    has the size of the auth digest, 20 octets with SHA-1), so an alignment of their own cuts it."""
    py = ctx.py
    tree = py.modules.get("user")
    if tree is None:
        rep.missing(rule, "module user")
        return
    classes = {n.name: n for n in tree.body if isinstance(n, ast.ClassDef)}
    # the classmethods that expose the RFC 3414 derivations hand their arguments to the extension unchanged: an aligned or
    # otherwise rewritten key is a different key, and a wrong-size one is no longer refused
    for c in classes.values():
        for f in [x for x in c.body if isinstance(x, ast.FunctionDef) and x.name in ("get_master_key", "get_localized_key")]:
            params = [a.arg for a in f.args.args][1:]
            for call in [x for x in ast.walk(f) if isinstance(x, ast.Call) and isinstance(x.func, ast.Name) and x.func.id == f.name]:
                got = [ast.unparse(a) for a in call.args[1:]]
                key = "user.%s.%s|arguments handed on unchanged" % (c.name, f.name)
                if got == params:
                    rep.ok(rule, key, "%s(alg, %s)" % (f.name, ", ".join(params)), py.loc("user", call), obligation=True)
                elif len(got) == len(params) and all(g == p_ or isinstance(a, ast.Name) for g, p_, a in zip(got, params, call.args[1:])):
                    rep.inconclusive(rule, key, "arguments passed through locals (%s)" % got, py.loc("user", call))
                else:
                    rep.violation(rule, key, "%s passes %s to the extension instead of its own parameters %s: the key is rewritten on the way" % (f.name, got, params),
                                  py.loc("user", call), obligation=True)
    keyish = [c for c in classes.values() if c.name.endswith("Key") or any(ast.unparse(b).endswith("Key") for b in c.bases)]
    if len(keyish) < 4:
        rep.missing(rule, "user.py: key classes (found %d)" % len(keyish))
        return
    for c in keyish:
        for f in [x for x in c.body if isinstance(x, ast.FunctionDef)]:
            if f.name in ("__len__", "__bool__"):
                rep.violation(rule, "user.%s.%s" % (c.name, f.name), "%s defines %s: an empty key becomes falsy and every `if key` test in User treats a "
                              "configured (empty) key as no key - the session silently comes up without it" % (c.name, f.name), py.loc("user", f), obligation=True)
    rep.ok(rule, "user key classes|truthiness", "%d key classes define neither __len__ nor __bool__" % len(keyish)) if not any(
        f.name in ("__len__", "__bool__") for c in keyish for f in c.body if isinstance(f, ast.FunctionDef)) else None
    m = model(ctx)
    for cn in ("BasePrivKey", "DesKey", "Aes128Key"):
        c = classes.get(cn)
        if c is None:
            continue
        if not any(isinstance(f, ast.FunctionDef) and f.name == "__init__" for f in c.body):
            rep.ok(rule, "user.%s|key taken as given" % cn, "no constructor of its own")
            continue
        ps = m.paths("user", cn, "__init__") or []
        odd = [e for p in ps for e in p.events if e.kind == "bind" and e.target == "key"]
        rep.check(rule, "user.%s|key taken as given" % cn, not odd, "the key is passed on unchanged",
                  "%s rewrites the key at construction (%s): a privacy master / localized key has the size of the authentication digest, not of the "
                  "cipher key" % (cn, odd[0].value[:60] if odd else ""), loc(ctx, "user", odd[0]) if odd else py.loc("user", c), obligation=True)


def async_never_blocks(ctx, rep, rule):
    """Nothing that runs on the event loop sleeps: no `async def` of the policer or of the asyncio client calls time.sleep
    or the policer's wait_sync (a blocking pause of one session stalls the deadlines of every other session of the loop)."""
    m = model(ctx)
    n = 0
    for mod in ("policer", "async_client"):
        for cls, meths in sorted(m.classes.get(mod, {}).items()):
            for meth, node in sorted(meths.items()):
                if not isinstance(node, ast.AsyncFunctionDef):
                    continue
                n += 1
                bad = None
                for p in m.paths(mod, cls, meth) or []:
                    for i, e in calls(p, lambda f: f in ("sleep", "time.sleep") or f.endswith(".wait_sync")):
                        bad = bad or e
                rep.check(rule, "%s.%s.%s|no blocking sleep" % (mod, cls, meth), bad is None, "",
                          "async %s.%s calls %s: the event loop is blocked for the whole pause" % (cls, meth, bad.func if bad else ""),
                          loc(ctx, mod, bad) if bad else ctx.py.loc(mod, node), obligation=True)
    if n < 5:
        rep.missing(rule, "async methods of policer / async_client (found %d)" % n)


def wait_once(ctx, rep, rule):
    """A request consults the limiter once.  Where `self._policer.wait()` / `wait_sync()` stands inside a loop, no
    iteration may come round again after a failed send: a `try` in the same loop whose handler falls through (no raise /
    return / break at its end) retries the send *and* the wait, so a request that met a full socket buffer takes two slots
    and is held back for up to two intervals."""
    m = model(ctx)
    n = 0
    for mod in ("sync_client", "sync_getnext", "sync_getbulk", "async_client"):
        for cls, meths in sorted(m.classes.get(mod, {}).items()):
            for meth, node in sorted(meths.items()):
                parents = {}
                for a in ast.walk(node):
                    for c in ast.iter_child_nodes(a):
                        parents[id(c)] = a
                for call in [x for x in ast.walk(node) if isinstance(x, ast.Call) and isinstance(x.func, ast.Attribute) and x.func.attr in ("wait", "wait_sync") and
                             ("policer" in ast.unparse(x.func.value) or isinstance(x.func.value, ast.Name))]:
                    n += 1
                    loops, cur, flagged = [], call, False
                    while id(cur) in parents and cur is not node:
                        cur = parents[id(cur)]
                        if isinstance(cur, (ast.FunctionDef, ast.AsyncFunctionDef, ast.Lambda)) and cur is not node:
                            loops = None
                            break
                        if isinstance(cur, (ast.While, ast.For, ast.AsyncFor)):
                            loops.append(cur)
                        if isinstance(cur, ast.If) and loops == []:
                            # `if self._policer and not waited:` - a guard on a local the function assigns
                            names = {x.id for x in ast.walk(cur.test) if isinstance(x, ast.Name) and x.id != "self"}
                            assigned = {t.id for a_ in ast.walk(node) if isinstance(a_, (ast.Assign, ast.AugAssign, ast.AnnAssign))
                                        for t in ast.walk(a_) if isinstance(t, ast.Name) and isinstance(t.ctx, ast.Store)}
                            flagged = flagged or bool(names & assigned)
                    key = "%s.%s.%s|limiter consulted once per request" % (mod, cls, meth)
                    if not loops:
                        rep.ok(rule, key, "not in a loop", ctx.py.loc(mod, call), obligation=True)
                        continue
                    retry = None
                    for lp in loops:
                        for t in [x for x in ast.walk(lp) if isinstance(x, ast.Try)]:
                            for h in t.handlers:
                                last = h.body[-1] if h.body else None
                                if not isinstance(last, (ast.Raise, ast.Return, ast.Break)):
                                    retry = retry or h
                    if retry is None:
                        rep.ok(rule, key, "in a loop without a retrying handler", ctx.py.loc(mod, call), obligation=True)
                    elif flagged:
                        rep.inconclusive(rule, key, "the wait is guarded by a local flag inside a retry loop", ctx.py.loc(mod, call))
                    else:
                        rep.violation(rule, key, "the wait stands in a loop that comes round again after `except %s` (line %d): a request whose send is "
                                      "retried consults the limiter again and takes a second slot" % (ast.unparse(retry.type) if retry.type else "", retry.lineno),
                                      ctx.py.loc(mod, call), obligation=True)
    # a function of the asyncio client that waits for the limiter itself and then sends through `_send` - which waits again
    send_node = m.classes.get("async_client", {}).get("SnmpSession", {}).get("_send")
    send_waits = send_node is not None and any(isinstance(x, ast.Call) and isinstance(x.func, ast.Attribute) and x.func.attr == "wait" and "policer" in ast.unparse(x.func.value)
                                                for x in ast.walk(send_node))
    if send_waits:
        for cls, meths in sorted(m.classes.get("async_client", {}).items()):
            for meth, node in sorted(meths.items()):
                if node is send_node:
                    continue
                waits = [x for x in ast.walk(node) if isinstance(x, ast.Call) and isinstance(x.func, ast.Attribute) and x.func.attr == "wait" and "policer" in ast.unparse(x.func.value)]
                sends = [x for x in ast.walk(node) if isinstance(x, ast.Call) and isinstance(x.func, ast.Attribute) and x.func.attr == "_send"]
                if waits and sends:
                    rep.violation(rule, "async_client.%s.%s|limiter consulted once per request" % (cls, meth), "%s waits for the limiter and then sends through "
                                  "_send(), which waits for it again: every request takes two slots" % meth, ctx.py.loc("async_client", waits[0]), obligation=True)
    if n < 1:     # how many call sites there are is the refactorer's business (a shared helper leaves one); none at all is C19.guard's finding too
        rep.missing(rule, "calls of the limiter in the clients (found %d)" % n)


def readiness_released(ctx, rep, rule):
    """Every `loop.add_reader(fd, ..)` / `add_writer(fd, ..)` of the asyncio client is undone on every way out of the wait,
    cancellation included: each `await` that follows the registration stands in a `try` whose `finally` (or whose
    catch-all handler) calls the matching `remove_reader` / `remove_writer`.  wait_for() ends a wait that timed out by
    cancelling it at the await; a registration that survives it keeps firing into a dead future and, once the descriptor
    number is reused, swallows the readiness of another session's socket."""
    m = model(ctx)
    n = 0
    for cls, meths in sorted(m.classes.get("async_client", {}).items()):
        for meth, node in sorted(meths.items()):
            parents = {}
            for a in ast.walk(node):
                for c in ast.iter_child_nodes(a):
                    parents[id(c)] = a
            for stmt in [x for x in ast.walk(node) if isinstance(x, ast.Expr) and isinstance(x.value, ast.Call)]:
                fn = ast.unparse(stmt.value.func)
                kind = "reader" if fn.endswith(".add_reader") else "writer" if fn.endswith(".add_writer") else None
                if kind is None:
                    continue
                n += 1
                par = parents.get(id(stmt))
                later = []
                for fld in ("body", "orelse", "finalbody"):
                    lst = getattr(par, fld, None)
                    if isinstance(lst, list) and stmt in lst:
                        later = lst[lst.index(stmt) + 1:]
                bad = None
                for st_ in later:
                    for aw in [x for x in ast.walk(st_) if isinstance(x, ast.Await)]:
                        cur, covered = aw, False
                        while id(cur) in parents and cur is not par:
                            up = parents[id(cur)]
                            if isinstance(up, ast.Try) and any(cur is b for b in up.body):
                                rel = lambda body: any(isinstance(c, ast.Call) and ast.unparse(c.func).endswith(".remove_" + kind)  # noqa: E731
                                                       for s_ in body for c in ast.walk(s_))
                                if rel(up.finalbody) or any((h.type is None or ast.unparse(h.type) == "BaseException") and rel(h.body) for h in up.handlers):
                                    covered = True
                            cur = up
                        if not covered:
                            bad = bad or aw
                key = "async_client.%s.%s|add_%s released on every exit" % (cls, meth, kind)
                rep.check(rule, key, bad is None, "await under try/finally remove_%s" % kind,
                          "an await after add_%s (line %s) is not covered by a try whose finally calls remove_%s: a wait that is cancelled by the "
                          "deadline leaves the registration behind" % (kind, getattr(bad, "lineno", "?"), kind), ctx.py.loc("async_client", stmt), obligation=True)
    if n < 2:
        rep.missing(rule, "async_client: add_reader / add_writer registrations (found %d)" % n)


def passthrough(ctx, rep, rule):
    """The thin Python wrappers add nothing of their own: __iter__/__aiter__ return self and touch no state (a walk that is
    re-iterated continues, it does not restart); get()/get_many() return what the socket returned, untouched."""
    for mod, cls, meth in (("sync_getnext", "GetNextIter", "__iter__"), ("sync_getbulk", "GetBulkIter", "__iter__"),
                           ("async_client", "GetNextIter", "__aiter__"), ("async_client", "GetBulkIter", "__aiter__")):
        ps = paths(ctx, rep, rule, mod, cls, meth)
        if not ps:
            continue
        node = fn_node(ctx, mod, cls, meth)
        eff = [e for p in ps for e in p.events if e.kind in ("store", "delete", "call")]
        rets = {pysym.text(p.ret) for p in ps if p.done == "return"}
        rep.check(rule, "%s.%s.%s|returns self unchanged" % (mod, cls, meth), not eff and rets == {"self"}, "return self",
                  "%s has effects (%s) or returns %s: iterating a partly consumed walk again restarts or disturbs it" % (meth, [repr(e)[:40] for e in eff[:3]], sorted(rets)),
                  ctx.py.loc(mod, node))
    for mod in CLIENTS:
        for meth, call in (("get", "get"), ("get_many", "get_many")):
            ps = paths(ctx, rep, rule, mod, "SnmpSession", meth)
            if not ps:
                continue
            node = fn_node(ctx, mod, "SnmpSession", meth)
            bad = None
            for p in ps:
                if p.done != "return" or p.ret is None:
                    continue
                r = pysym.text(p.ret)
                direct = re.match(r"^(await )?(self\._sock\.%s\(.*\)|wait_for\(coro\(\w+\), .*\))$" % call, r) is not None
                if not direct:
                    bad = r
            rep.check(rule, "%s.SnmpSession.%s|result passed through" % (mod, meth), bad is None, "returns the socket's result as is",
                      "%s() post-processes the result (%s): values the agent returned are dropped, reordered or replaced" % (meth, (bad or "")[:100]),
                      ctx.py.loc(mod, node))

