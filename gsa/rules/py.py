"""Rules over the Python AST of src/gufo/snmp (rule kind Y).  Each function takes
(ctx, rep, rule_id) and records instances; rule ids are given by the caller so one
rule can serve several properties."""
import ast

from ..pyast import try_maps

BLOCKING = ("get", "get_many", "get_next", "get_bulk", "refresh")
CLIENTS = ("sync_client", "async_client")
V1 = "eq(SnmpVersion.v1,version)"


def _need(ctx, rep, rule, key):
    f = ctx.py.func(key)
    if f is None:
        rep.missing(rule, "python function " + key)
    return f


# ----------------------------------------------------------------------------- C03.fetch
def fetch(ctx, rep, rule):
    py = ctx.py
    for mod in CLIENTS:
        init = _need(ctx, rep, rule, "%s:SnmpSession.__init__" % mod)
        if init:
            asg = init.assigns_to("self._allow_bulk")
            if not asg:
                rep.missing(rule, "%s: assignment to self._allow_bulk" % mod)
            for st, c in asg:
                v = st.value
                txt = ast.unparse(v)
                key = "%s.__init__|_allow_bulk=%s" % (mod, txt)
                atoms = []
                if isinstance(v, ast.BoolOp) and isinstance(v.op, ast.And):
                    from ..pyast import cond_atoms
                    atoms = cond_atoms(v, True)
                if txt == "False":
                    rep.ok(rule, key, "constant False", py.loc(mod, st))
                elif c.has(V1, False) or (V1, False) in atoms:
                    rep.ok(rule, key, "reached only when version != v1", py.loc(mod, st))
                elif isinstance(v, (ast.Name, ast.Constant, ast.Attribute)):
                    rep.violation(rule, key, "self._allow_bulk can be set to %s on a v1 session (no version != v1 "
                                  "condition governs this assignment)" % txt, py.loc(mod, st))
                else:
                    rep.inconclusive(rule, key, "unrecognised value shape", py.loc(mod, st))
            # a v1 session must get False on some path
            if asg and not any(ast.unparse(st.value) == "False" and c.has(V1, True) for st, c in asg) and \
                    not any(isinstance(st.value, ast.BoolOp) for st, c in asg):
                rep.violation(rule, "%s.__init__|v1-disables-bulk" % mod,
                              "no assignment self._allow_bulk = False under version == SnmpVersion.v1")
        f = _need(ctx, rep, rule, "%s:SnmpSession.fetch" % mod)
        if f:
            gb = f.calls_to(lambda t: t == "self.getbulk")
            gn = f.calls_to(lambda t: t == "self.getnext")
            if not gb:
                rep.missing(rule, "%s.fetch: call of self.getbulk" % mod)
            if not gn:
                rep.missing(rule, "%s.fetch: call of self.getnext" % mod)
            for c, cx, st in gb:
                rep.check(rule, "%s.fetch|getbulk-under-allow_bulk" % mod, cx.has("self._allow_bulk", True),
                          "getbulk only under self._allow_bulk", "fetch() calls getbulk without self._allow_bulk holding",
                          py.loc(mod, c))
            for c, cx, st in gn:
                rep.check(rule, "%s.fetch|getnext-otherwise" % mod, cx.has("self._allow_bulk", False),
                          "getnext when bulk is not allowed", "fetch() calls getnext although bulk is allowed on this path",
                          py.loc(mod, c))
        g = _need(ctx, rep, rule, "%s:SnmpSession.getbulk" % mod)
        if g:
            ctor = g.calls_to(lambda t: t == "GetBulkIter")
            if not ctor:
                rep.missing(rule, "%s.getbulk: GetBulkIter(...)" % mod)
            for c, cx, st in ctor:
                args = [ast.unparse(a) for a in c.args]
                good = ("max_repetitions or self._max_repetitions",
                        "self._max_repetitions if max_repetitions is None else max_repetitions",
                        "max_repetitions if max_repetitions is not None else self._max_repetitions",
                        "max_repetitions if max_repetitions else self._max_repetitions")
                key = "%s.getbulk|max_repetitions" % mod
                if any(a in good for a in args):
                    rep.ok(rule, key, "caller's max_repetitions, session default otherwise", py.loc(mod, c))
                elif not any("max_repetitions" in a for a in args):
                    rep.violation(rule, key, "GetBulkIter is built without the requested max_repetitions: %s" % args,
                                  py.loc(mod, c))
                elif any(a == "self._max_repetitions" for a in args) and not any(
                        "max_repetitions" in a and a != "self._max_repetitions" for a in args):
                    rep.violation(rule, key, "the caller's max_repetitions is ignored: %s" % args, py.loc(mod, c))
                elif any(a == "max_repetitions" for a in args):
                    rep.violation(rule, key, "max_repetitions=None is passed through instead of the session default: %s"
                                  % args, py.loc(mod, c))
                else:
                    rep.inconclusive(rule, key, "unrecognised argument shape %s" % args, py.loc(mod, c))
    # the iterator hands the value to the Rust GetIter
    for mod, fn, ctor in (("sync_getbulk", "GetBulkIter.__init__", "_Iter"), ("async_client", "GetBulkIter.__init__", "GetIter")):
        f = _need(ctx, rep, rule, "%s:%s" % (mod, fn))
        if f:
            cs = f.calls_to(lambda t: t == ctor)
            if not cs:
                rep.missing(rule, "%s.%s: %s(...)" % (mod, fn, ctor))
            for c, cx, st in cs:
                args = [ast.unparse(a) for a in c.args] + [ast.unparse(k.value) for k in c.keywords]
                rep.check(rule, "%s.%s|iter-args" % (mod, fn), args[:2] == ["oid", "max_repetitions"],
                          "GetIter(oid, max_repetitions)", "GetIter is built from %s, expected (oid, max_repetitions)" % args,
                          ctx.py.loc(mod, c))
    for mod, fn, ctor in (("sync_getnext", "GetNextIter.__init__", "_Iter"), ("async_client", "GetNextIter.__init__", "GetIter")):
        f = _need(ctx, rep, rule, "%s:%s" % (mod, fn))
        if f:
            for c, cx, st in f.calls_to(lambda t: t == ctor):
                args = [ast.unparse(a) for a in c.args]
                rep.check(rule, "%s.%s|iter-args" % (mod, fn), args[:1] == ["oid"], "GetIter(oid)",
                          "GetIter is built from %s, expected (oid)" % args, ctx.py.loc(mod, c))


# ----------------------------------------------------------------------------- C07.py / C18.map
def blocking_wrapped(ctx, rep, rule):
    """Every blocking socket call of the sync client maps BlockingIOError to TimeoutError."""
    py = ctx.py
    seen = set()
    for key, f in sorted(py.funcs.items()):
        mod = key.split(":")[0]
        if mod not in ("sync_client", "sync_getnext", "sync_getbulk"):
            continue
        for fn in f.all_funcs():
            for c, cx, st in fn.calls:
                t = ast.unparse(c.func)
                if not t.startswith("self._sock."):
                    continue
                m = t[len("self._sock."):]
                if m not in BLOCKING:
                    continue
                seen.add(m)
                ok = any(try_maps(tr, "BlockingIOError", "TimeoutError") for tr in cx.tries)
                rep.check(rule, "%s|self._sock.%s" % (fn.qualname, m), ok,
                          "inside try/except BlockingIOError -> TimeoutError",
                          "blocking call self._sock.%s() is not wrapped: a receive timeout surfaces as BlockingIOError "
                          "instead of TimeoutError" % m, py.loc(mod, c))
    for m in BLOCKING:
        if m not in seen:
            rep.missing(rule, "sync client call of self._sock.%s" % m)


# ----------------------------------------------------------------------------- C05 / C06 python side
def _bulk_iter(ctx, rep, rule, mod, fname, stop_exc):
    py = ctx.py
    f = _need(ctx, rep, rule, "%s:GetBulkIter.%s" % (mod, fname))
    if not f:
        return
    q = "%s.GetBulkIter.%s" % (mod, fname)
    funcs = f.all_funcs()
    # (a) consumption from the front
    pops = []
    for fn in funcs:
        for c, cx, st in fn.calls:
            t = ast.unparse(c.func)
            if t in ("self._buffer.pop", "self._buffer.popleft"):
                pops.append((fn, c, cx, st))
    if not pops:
        rep.missing(rule, q + ": self._buffer.pop")
    for fn, c, cx, st in pops:
        t = ast.unparse(c.func)
        args = [ast.unparse(a) for a in c.args]
        front = (t.endswith("popleft") and not args) or (t.endswith(".pop") and args == ["0"])
        rep.check(rule, q + "|pop-front", front, "buffer consumed from the front",
                  "buffered results are consumed with %s(%s): not in reply order" % (t, ",".join(args)), py.loc(mod, c))
        # (b) None sentinel ends the iteration
        tgt = None
        if isinstance(st, ast.Assign) and len(st.targets) == 1:
            tgt = ast.unparse(st.targets[0])
        sent = False
        for r, rcx in fn.raises():
            if r.exc is not None and ast.unparse(r.exc).split("(")[0] == stop_exc and tgt and rcx.has("eq(%s,%s)" % tuple(sorted(("None", tgt))), True):
                sent = True
        rep.check(rule, q + "|none-sentinel", sent, "None marker raises %s" % stop_exc,
                  "the None end marker popped from the buffer does not raise %s" % stop_exc, py.loc(mod, c))
    # (c) refill only when the buffer is empty, from the bulk request
    asg = f.assigns_to("self._buffer")
    if not asg:
        rep.missing(rule, q + ": refill assignment self._buffer = ...")
    for st, cx in asg:
        rep.check(rule, q + "|refill-when-empty", cx.has("self._buffer", False),
                  "refill reached only with an empty buffer",
                  "self._buffer is replaced while it may still hold undelivered results", py.loc(mod, st))
        v = ast.unparse(st.value)
        want = "self._sock.get_bulk(self._ctx)" if mod == "sync_getbulk" else "await self._session._recv(receiver)"
        if v == want:
            rep.ok(rule, q + "|refill-source", v, py.loc(mod, st))
        else:
            rep.inconclusive(rule, q + "|refill-source", "refill value is %s" % v, py.loc(mod, st))
        # (d) an empty list ends the iteration
        later = [r for r, rcx in f.raises() if rcx.order > cx.order and rcx.has("self._buffer", False)
                 and r.exc is not None and ast.unparse(r.exc).split("(")[0] == stop_exc]
        rep.check(rule, q + "|empty-reply-stops", bool(later), "empty reply raises %s" % stop_exc,
                  "an empty reply list does not end the iteration", py.loc(mod, st))
        # (e) results are delivered through the same front pop after a refill
        rets = [r for r, rcx in f.returns() if rcx.order > cx.order]
        rep.check(rule, q + "|deliver-after-refill", any(r.value is not None and "pop" in ast.unparse(r.value) for r in rets),
                  "first element delivered right after the refill", "nothing is delivered after a refill", py.loc(mod, st))
    # (f) buffered elements are served before a new request
    early = [r for r, rcx in f.returns() if rcx.has("self._buffer", True) and r.value is not None and "pop" in ast.unparse(r.value)]
    rep.check(rule, q + "|serve-buffer-first", bool(early), "buffered elements are returned before a new request is sent",
              "no early return of buffered elements: each call sends a new request", py.loc(mod, f.node))


def bulk_buffer(ctx, rep, rule):
    _bulk_iter(ctx, rep, rule, "sync_getbulk", "__next__", "StopIteration")
    _bulk_iter(ctx, rep, rule, "async_client", "__anext__", "StopAsyncIteration")


def stop_mapping(ctx, rep, rule):
    """Sync iterators turn the Rust layer's StopAsyncIteration into StopIteration."""
    py = ctx.py
    for mod, cls, meth in (("sync_getnext", "GetNextIter", "get_next"), ("sync_getbulk", "GetBulkIter", "get_bulk")):
        f = _need(ctx, rep, rule, "%s:%s.__next__" % (mod, cls))
        if not f:
            continue
        cs = [x for fn in f.all_funcs() for x in fn.calls_to(lambda t: t == "self._sock." + meth)]
        if not cs:
            rep.missing(rule, "%s.%s.__next__: self._sock.%s" % (mod, cls, meth))
        for c, cx, st in cs:
            ok = any(try_maps(tr, "StopAsyncIteration", "StopIteration") for tr in cx.tries)
            rep.check(rule, "%s.%s.__next__|StopAsyncIteration->StopIteration" % (mod, cls), ok,
                      "mapped", "StopAsyncIteration from the socket is not turned into StopIteration: the sync walk never "
                      "ends cleanly", py.loc(mod, c))
            args = [ast.unparse(a) for a in c.args]
            rep.check(rule, "%s.%s.__next__|ctx" % (mod, cls), args == ["self._ctx"], "request built from the iterator state",
                      "socket called with %s instead of self._ctx" % args, py.loc(mod, c))


def async_pairs(ctx, rep, rule):
    """Async operations send X and receive X (same operation, same iterator context), send before receive."""
    py = ctx.py
    table = (
        ("SnmpSession.get", "send_get", "recv_get"),
        ("SnmpSession.get_many", "send_get_many", "recv_get_many"),
        ("GetNextIter.__anext__", "send_get_next", "recv_get_next"),
        ("GetBulkIter.__anext__", "send_get_bulk", "recv_get_bulk"),
    )
    for fn, snd, rcv in table:
        f = _need(ctx, rep, rule, "async_client:" + fn)
        if not f:
            continue
        q = "async_client." + fn
        names_s, names_r = set(), set()
        for g in f.all_funcs():
            for c, cx, st in g.calls:
                t = ast.unparse(c.func)
                if t.startswith("self._sock.send_"):
                    names_s.add(t.split(".")[-1])
                    if "Iter" in fn:
                        rep.check(rule, q + "|send-ctx", [ast.unparse(a) for a in c.args] == ["self._ctx"], "self._ctx",
                                  "send uses %s" % [ast.unparse(a) for a in c.args], py.loc("async_client", c))
                if t.startswith("self._sock.recv_"):
                    names_r.add(t.split(".")[-1])
            # attribute references handed to _recv (self._sock.recv_get)
            for n in ast.walk(g.node):
                if isinstance(n, ast.Attribute) and ast.unparse(n).startswith("self._sock.recv_"):
                    names_r.add(n.attr)
                if isinstance(n, ast.Attribute) and ast.unparse(n).startswith("self._sock.send_"):
                    names_s.add(n.attr)
        rep.check(rule, q + "|pair", names_s == {snd} and names_r == {rcv}, "%s / %s" % (snd, rcv),
                  "expected %s/%s, found send=%s recv=%s" % (snd, rcv, sorted(names_s), sorted(names_r)),
                  py.loc("async_client", f.node))
        sends = f.calls_to(lambda t: t.endswith("._send"))
        recvs = f.calls_to(lambda t: t.endswith("._recv"))
        if sends and recvs:
            rep.check(rule, q + "|send-before-recv", min(cx.order for _, cx, _ in sends) <= min(cx.order for _, cx, _ in recvs),
                      "request sent before waiting for the reply", "reply awaited before the request is sent",
                      py.loc("async_client", f.node))
        else:
            rep.missing(rule, q + ": _send/_recv calls")


# ----------------------------------------------------------------------------- C13.py
SET_KEYS_ARGS = ["self._deferred_user.name", "self._deferred_user.get_auth_alg()", "self._deferred_user.get_auth_key()",
                 "self._deferred_user.get_priv_alg()", "self._deferred_user.get_priv_key()"]


def _is_refresh_call(t, mod):
    if mod == "sync_client":
        return t in ("self._sock.refresh", "self._refresh_sock")
    return False


def refresh_flow(ctx, rep, rule):
    py = ctx.py
    for mod in CLIENTS:
        q = mod + ".SnmpSession"
        init = _need(ctx, rep, rule, "%s:SnmpSession.__init__" % mod)
        if init:
            d = [(st, cx) for st, cx in init.assigns_to("self._deferred_user") if ast.unparse(st.value) != "None"]
            if not d:
                rep.missing(rule, q + ".__init__: self._deferred_user = user")
            for st, cx in d:
                rep.check(rule, q + ".__init__|defer-iff-no-engine-id",
                          ast.unparse(st.value) == "user" and cx.has("engine_id", False) and cx.has("eq(SnmpVersion.v3,version)", True),
                          "user deferred only when no engine id is given",
                          "deferred user set to %s under %s" % (ast.unparse(st.value), cx.conds), py.loc(mod, st))
            ctor = init.calls_to(lambda t: t == "SnmpV3ClientSocket")
            if not ctor:
                rep.missing(rule, q + ".__init__: SnmpV3ClientSocket(...)")
            for c, cx, st in ctor:
                a = [ast.unparse(x) for x in c.args]
                rep.check(rule, q + ".__init__|engine-id-arg", len(a) > 1 and a[1] in ("engine_id if engine_id else b''", "engine_id or b''"),
                          "engine id handed to the socket", "engine id argument is %s" % (a[1] if len(a) > 1 else None), py.loc(mod, c))
                want = ["user.name", "user.get_auth_alg()", "user.get_auth_key()", "user.get_priv_alg()", "user.get_priv_key()"]
                rep.check(rule, q + ".__init__|user-args", a[2:7] == want, "user name, auth alg/key, priv alg/key in order",
                          "socket built from %s" % a[2:7], py.loc(mod, c))
            tr = init.assigns_to("self._to_refresh")
            vals = [ast.unparse(st.value) for st, cx in tr]
            rep.check(rule, q + ".__init__|to-refresh", "not engine_id or user.require_auth()" in vals,
                      "refresh needed when engine id unknown or auth in use", "self._to_refresh assigned %s" % vals,
                      py.loc(mod, init.node))
        f = _need(ctx, rep, rule, "%s:SnmpSession.refresh" % mod)
        if f:
            if mod == "sync_client":
                def is_ref(t):
                    return t in ("self._sock.refresh", "self._refresh_sock")
                refs = [(c, cx) for c, cx, st in f.calls if is_ref(ast.unparse(c.func))]
            else:
                refs = [(c, cx) for c, cx, st in f.calls
                        if ast.unparse(c.func) == "self._recv" and [ast.unparse(a) for a in c.args] == ["self._sock.recv_refresh"]]
                sends = [(c, cx) for c, cx, st in f.calls
                         if ast.unparse(c.func) == "self._send" and [ast.unparse(a) for a in c.args] == ["self._sock.send_refresh"]]
                rep.check(rule, q + ".refresh|send-recv-paired", len(sends) == len(refs) and all(
                    s[1].order < r[1].order for s, r in zip(sends, refs)), "each probe is sent then awaited",
                    "send_refresh/recv_refresh are not paired in order", py.loc(mod, f.node))
            sk = f.calls_to(lambda t: t == "self._sock.set_keys")
            if not sk:
                rep.missing(rule, q + ".refresh: self._sock.set_keys")
            for c, cx, st in sk:
                a = [ast.unparse(x) for x in c.args]
                rep.check(rule, q + ".refresh|set_keys-args", a == SET_KEYS_ARGS, "deferred user's name and keys, in order",
                          "set_keys called with %s" % a, py.loc(mod, c))
                rep.check(rule, q + ".refresh|set_keys-under-deferred", cx.has("self._deferred_user", True), "",
                          "set_keys is not conditional on a deferred user", py.loc(mod, c))
                before = [r for r in refs if r[1].order < cx.order and r[1].has("self._deferred_user", True)]
                rep.check(rule, q + ".refresh|discover-before-set_keys", bool(before),
                          "engine id discovery precedes key localisation",
                          "set_keys runs before any refresh: keys are localised with an empty engine id", py.loc(mod, c))
                clr = [(st2, cx2) for st2, cx2 in f.assigns_to("self._deferred_user") if ast.unparse(st2.value) == "None"]
                rep.check(rule, q + ".refresh|clear-deferred", any(cx2.order > cx.order and cx2.has("self._deferred_user", True) for st2, cx2 in clr),
                          "deferred user cleared after installation", "deferred user is not cleared after set_keys",
                          py.loc(mod, c))
                after = [r for r in refs if r[1].order > cx.order and not r[1].has("self._deferred_user", True)]
                rep.check(rule, q + ".refresh|final-refresh", bool(after), "time/boots refresh with the real keys follows",
                          "no unconditional refresh after the keys are installed", py.loc(mod, c))
            first_ref = min([r[1].order for r in refs], default=10 ** 6)
            guard = [r for r, rcx in f.returns() if rcx.order < first_ref and any("_to_refresh" in c[0] for c in rcx.conds)]
            rep.check(rule, q + ".refresh|v3-only", bool(guard), "returns early for non-v3 / nothing to refresh",
                      "no early return", py.loc(mod, f.node))
        ent = "__enter__" if mod == "sync_client" else "__aenter__"
        e = _need(ctx, rep, rule, "%s:SnmpSession.%s" % (mod, ent))
        if e:
            rep.check(rule, q + "." + ent + "|refresh", bool(e.calls_to(lambda t: t == "self.refresh")),
                      "context entry runs discovery", "context entry does not call refresh()", py.loc(mod, e.node))


# ----------------------------------------------------------------------------- C18
def timeouts(ctx, rep, rule):
    py = ctx.py
    ns = {m: py.module_consts(m).get("NS") for m in ("sync_client", "policer")}
    for m, v in ns.items():
        rep.check(rule, m + "|NS", v == 1_000_000_000.0, "NS = 1e9", "NS is %r" % (v,), py.sources.get(m, m))
    for mod in CLIENTS:
        init = _need(ctx, rep, rule, "%s:SnmpSession.__init__" % mod)
        if not init:
            continue
        n = 0
        for name, idx in (("SnmpV1ClientSocket", 5), ("SnmpV2cClientSocket", 5), ("SnmpV3ClientSocket", 10)):
            for c, cx, st in init.calls_to(lambda t: t == name):
                n += 1
                a = [ast.unparse(x) for x in c.args]
                last = a[idx] if len(a) > idx else None
                if mod == "sync_client":
                    rep.check(rule, "%s.__init__|%s timeout arg" % (mod, name), last == "timeout_ns",
                              "timeout_ns", "socket timeout argument is %s" % last, py.loc(mod, c))
                else:
                    rep.check(rule, "%s.__init__|%s timeout arg" % (mod, name), last == "0",
                              "0 (non-blocking)", "async socket timeout argument is %s (must be non-blocking)" % last, py.loc(mod, c))
        if n < 3:
            rep.missing(rule, "%s.__init__: three socket constructors" % mod)
        if mod == "sync_client":
            t = [ast.unparse(st.value) for st, cx in init.assigns_to("timeout_ns")]
            rep.check(rule, "sync_client.__init__|timeout_ns", t in (["int(timeout * NS)"], ["int(NS * timeout)"]),
                      "int(timeout * NS)", "timeout_ns computed as %s" % t, py.loc(mod, init.node))
        t = [ast.unparse(st.value) for st, cx in init.assigns_to("self._timeout")]
        rep.check(rule, "%s.__init__|self._timeout" % mod, t == ["timeout"], "timeout", "self._timeout = %s" % t,
                  py.loc(mod, init.node))
    r = _need(ctx, rep, rule, "async_client:SnmpSession._recv")
    if r:
        wf = r.calls_to(lambda t: t in ("wait_for", "asyncio.wait_for"))
        if not wf:
            rep.missing(rule, "async_client._recv: wait_for")
        for c, cx, st in wf:
            a = [ast.unparse(x) for x in c.args] + ["%s=%s" % (k.arg, ast.unparse(k.value)) for k in c.keywords]
            rep.check(rule, "async_client._recv|deadline", len(a) >= 2 and a[0] == "get_response()" and a[1] in ("self._timeout", "timeout=self._timeout"),
                      "whole retry loop under wait_for(self._timeout)", "wait_for called with %s" % a, py.loc("async_client", c))
            rep.check(rule, "async_client._recv|timeout-mapped",
                      any(try_maps(tr, "AIOTimeoutError", "TimeoutError") or try_maps(tr, "asyncio.TimeoutError", "TimeoutError") for tr in cx.tries),
                      "asyncio timeout -> TimeoutError", "asyncio timeout is not mapped to TimeoutError", py.loc("async_client", c))
        gr = r.nested.get("get_response")
        if gr:
            rc = gr.calls_to(lambda t: t == "receiver")
            rep.check(rule, "async_client._recv|retry-inside", bool(rc) and all(cx.loops for c, cx, st in rc),
                      "receiver retried inside the awaited coroutine", "receiver is not retried in the loop",
                      py.loc("async_client", gr.node))
        else:
            rep.missing(rule, "async_client._recv.get_response")


# ----------------------------------------------------------------------------- C19
def policer_guard(ctx, rep, rule):
    py = ctx.py
    # sync: every sender waits first
    table = (("sync_client", "SnmpSession.get", "get"), ("sync_client", "SnmpSession.get_many", "get_many"),
             ("sync_getnext", "GetNextIter.__next__", "get_next"), ("sync_getbulk", "GetBulkIter.__next__", "get_bulk"))
    for mod, fn, meth in table:
        f = _need(ctx, rep, rule, "%s:%s" % (mod, fn))
        if not f:
            continue
        sends = [x for g in f.all_funcs() for x in g.calls_to(lambda t: t == "self._sock." + meth)]
        waits = [x for g in f.all_funcs() for x in g.calls_to(lambda t: t == "self._policer.wait_sync")]
        if not sends:
            rep.missing(rule, "%s.%s: self._sock.%s" % (mod, fn, meth))
        for c, cx, st in sends:
            ok = any(wcx.order < cx.order and wcx.has("self._policer", True) and
                     all(a in cx.conds or a == ("self._policer", True) for a in wcx.conds) for w, wcx, wst in waits)
            rep.check(rule, "%s.%s|wait-before-send" % (mod, fn), ok, "policer awaited before the request",
                      "request self._sock.%s() is sent without waiting for the policer" % meth, py.loc(mod, c))
    s = _need(ctx, rep, rule, "async_client:SnmpSession._send")
    if s:
        sends = s.calls_to(lambda t: t == "sender")
        waits = s.calls_to(lambda t: t == "self._policer.wait")
        first = min([cx.order for c, cx, st in sends], default=None)
        ok = first is not None and any(cx.order < first and cx.has("self._policer", True) and isinstance(st, ast.Expr)
                                       and isinstance(st.value, ast.Await) for c, cx, st in waits)
        rep.check(rule, "async_client._send|wait-before-send", ok, "policer awaited before sender()",
                  "sender() runs without awaiting the policer", py.loc("async_client", s.node))
    # async: all socket send_* go through _send
    n = 0
    for key, f in sorted(py.funcs.items()):
        if not key.startswith("async_client:"):
            continue
        for g in f.all_funcs():
            for c, cx, st in g.calls:
                t = ast.unparse(c.func)
                if t.startswith("self._sock.send_"):
                    n += 1
                    # must be inside a nested function handed to _send
                    inside_sender = g.qualname.endswith(".sender")
                    rep.check(rule, "async_client.%s|%s via _send" % (g.qualname, t.split(".")[-1]), inside_sender,
                              "sent through _send", "%s is called outside a sender handed to _send (bypasses the policer)" % t,
                              py.loc("async_client", c))
    for key, f in sorted(py.funcs.items()):
        if not key.startswith("async_client:"):
            continue
        for c, cx, st in f.calls:
            if ast.unparse(c.func) in ("self._send", "self._session._send"):
                a = [ast.unparse(x) for x in c.args]
                rep.check(rule, "async_client.%s|_send(%s)" % (f.qualname, ",".join(a)), a in (["sender"], ["self._sock.send_refresh"]),
                          "", "unexpected sender %s" % a, py.loc("async_client", c))
    # sessions build the policer
    for mod in CLIENTS:
        init = _need(ctx, rep, rule, "%s:SnmpSession.__init__" % mod)
        if not init:
            continue
        asg = [(st, cx) for st, cx in init.assigns_to("self._policer") if ast.unparse(st.value) != "None"]
        vals = {ast.unparse(st.value): cx for st, cx in asg}
        rep.check(rule, mod + ".__init__|explicit-policer-first", "policer" in vals and vals["policer"].has("policer", True),
                  "explicit policer wins", "policer argument handling is %s" % list(vals), py.loc(mod, init.node))
        k = "RPSPolicer(float(limit_rps))"
        rep.check(rule, mod + ".__init__|limit_rps", k in vals and vals[k].has("limit_rps", True) and vals[k].has("policer", False),
                  "RPSPolicer(float(limit_rps)) when only limit_rps is given", "limit_rps handling is %s" % list(vals),
                  py.loc(mod, init.node))
    nctor = 0
    for key, f in sorted(py.funcs.items()):
        if not key.startswith("sync_client:"):
            continue
        for g in f.all_funcs():
            for c, cx, st in g.calls:
                ctor = ast.unparse(c.func)
                if ctor in ("GetNextIter", "GetBulkIter"):
                    nctor += 1
                    a = [ast.unparse(x) for x in c.args] + ["%s=%s" % (k.arg, ast.unparse(k.value)) for k in c.keywords]
                    rep.check(rule, "sync_client.%s|%s policer passed" % (g.qualname, ctor), bool(a) and a[-1] in ("self._policer", "policer=self._policer"),
                              "iterator shares the session policer", "%s built from %s: the walk is not rate limited" % (ctor, a), py.loc("sync_client", c))
    if nctor < 2:
        rep.missing(rule, "sync_client: GetNextIter / GetBulkIter constructions")


def policer_core(ctx, rep, rule):
    py = ctx.py
    c = _need(ctx, rep, rule, "policer:RPSPolicer.__init__")
    if c:
        raises = c.raises()
        zero = [r for r, cx in raises if cx.has("rps <= ZERO", True) or cx.has("rps <= 0", True) or cx.has("rps <= 0.0", True)]
        rep.check(rule, "RPSPolicer.__init__|non-positive", bool(zero) and all("ValueError" in ast.unparse(r.exc) for r in zero),
                  "rps <= 0 raises ValueError", "no ValueError for rps <= 0", py.loc("policer", c.node))
        zconst = py.module_consts("policer").get("ZERO")
        rep.check(rule, "policer|ZERO", zconst == 0.0, "ZERO = 0.0", "ZERO is %r" % (zconst,), py.sources["policer"])
        d = [ast.unparse(st.value) for st, cx in c.assigns_to("self._delta")]
        rep.check(rule, "RPSPolicer.__init__|delta", d == ["int(NS / rps)"], "interval = int(NS / rps)", "self._delta = %s" % d,
                  py.loc("policer", c.node))
        high = [r for r, cx in raises if cx.has("self._delta", False) or cx.has("eq(0,self._delta)", True)]
        rep.check(rule, "RPSPolicer.__init__|too-high", bool(high) and all("ValueError" in ast.unparse(r.exc) for r in high),
                  "zero interval raises ValueError", "an interval of 0 ns (unrepresentably high rate) is accepted",
                  py.loc("policer", c.node))
        p = [ast.unparse(st.value) for st, cx in c.assigns_to("self._prev")]
        rep.check(rule, "RPSPolicer.__init__|prev", p == ["None"], "no previous slot", "self._prev = %s" % p, py.loc("policer", c.node))
    for fn, sl in (("wait", "asyncio.sleep"), ("wait_sync", "sleep")):
        f = _need(ctx, rep, rule, "policer:BasePolicer." + fn)
        if not f:
            continue
        d = [ast.unparse(st.value) for st, cx in f.assigns_to("delta")]
        rep.check(rule, "BasePolicer.%s|delta-source" % fn, d == ["self.get_timeout(perf_counter_ns())"],
                  "delta from get_timeout(perf_counter_ns())", "delta = %s" % d, py.loc("policer", f.node))
        sl_calls = f.calls_to(lambda t: t == sl)
        if not sl_calls:
            rep.missing(rule, "BasePolicer.%s: %s" % (fn, sl))
        for cc, cx, st in sl_calls:
            a = [ast.unparse(x) for x in cc.args]
            rep.check(rule, "BasePolicer.%s|sleep-amount" % fn, a in (["float(delta) / NS"], ["delta / NS"]),
                      "sleeps delta/NS seconds", "sleeps %s instead of the computed delay" % a, py.loc("policer", cc))
            rep.check(rule, "BasePolicer.%s|sleep-when-positive" % fn, cx.has("delta", True) and cx.has("delta > 0", True),
                      "only for a positive delay", "sleep condition is %s" % (cx.conds,), py.loc("policer", cc))
            if fn == "wait":
                rep.check(rule, "BasePolicer.wait|awaited", isinstance(st, ast.Expr) and isinstance(st.value, ast.Await),
                          "sleep is awaited", "asyncio.sleep is not awaited", py.loc("policer", cc))
    g = _need(ctx, rep, rule, "policer:RPSPolicer.get_timeout")
    if g:
        # writers of _prev
        for key, f in sorted(py.funcs.items()):
            if not key.startswith("policer:"):
                continue
            for st, cx in f.stmts:
                tg = []
                if isinstance(st, ast.Assign):
                    tg = [ast.unparse(t) for t in st.targets]
                elif isinstance(st, (ast.AugAssign, ast.AnnAssign)):
                    tg = [ast.unparse(st.target)]
                if "self._prev" in tg:
                    rep.check(rule, "policer|_prev written in %s" % f.qualname, f.qualname in ("RPSPolicer.get_timeout", "RPSPolicer.__init__"),
                              "", "self._prev written outside get_timeout", py.loc("policer", st))
        # decision table of get_timeout: (path condition) -> (state update, return)
        rows = []
        for r, cx in g.returns():
            upd = [(ast.unparse(st) ) for st, c2 in g.stmts if isinstance(st, (ast.Assign, ast.AugAssign)) and c2.conds == cx.conds
                   and "self._prev" in ast.unparse(st).split("=")[0]]
            rows.append((tuple(sorted(cx.conds)), tuple(upd), ast.unparse(r.value) if r.value is not None else "None"))
        el = [ast.unparse(st.value) for st, cx in g.assigns_to("elapsed")]
        rep.check(rule, "RPSPolicer.get_timeout|elapsed", el == ["ts - self._prev"], "elapsed = ts - prev", "elapsed = %s" % el,
                  py.loc("policer", g.node))
        expect = {
            "first": ((("eq(None,self._prev)", True),), ("self._prev = ts",), "None"),
            "clock-back": ((("elapsed < 0", True), ("eq(None,self._prev)", False)), ("self._prev = ts",), "self._delta"),
            "early": ((("elapsed < 0", False), ("elapsed < self._delta", True), ("eq(None,self._prev)", False)),
                      ("self._prev += self._delta",), "self._delta - elapsed"),
            "late": ((("elapsed < 0", False), ("elapsed < self._delta", False), ("eq(None,self._prev)", False)),
                     ("self._prev += self._delta * (elapsed // self._delta)",), "None"),
        }
        got = {(tuple(sorted(c)), u, r) for c, u, r in rows}
        for name, (c, u, r) in expect.items():
            k = (tuple(sorted(c)), u, r)
            loc = py.loc("policer", g.node)
            if k in got:
                rep.ok(rule, "RPSPolicer.get_timeout|row:" + name, "%s -> %s ; return %s" % (list(c), list(u), r), loc)
                continue
            same = [x for x in got if x[0] == tuple(sorted(c))]
            if not same:
                rep.inconclusive(rule, "RPSPolicer.get_timeout|row:" + name,
                                 "path condition %s not found (function restructured)" % (list(c),), loc)
                continue
            gu, gr = same[0][1], same[0][2]
            # Only differences whose effect is visible without arithmetic are violations; any other
            # rewriting of the slot arithmetic is outside what this family decides (inconclusive).
            if not gu:
                rep.violation(rule, "RPSPolicer.get_timeout|row:" + name,
                              "under %s the previous slot self._prev is not updated: later calls are measured against a "
                              "stale slot" % (list(c),), loc)
            elif name in ("early", "clock-back") and gr in ("None", "0", "0.0", "ZERO", "False"):
                rep.violation(rule, "RPSPolicer.get_timeout|row:" + name,
                              "an early request is released at once (returns %s instead of a positive delay)" % gr, loc)
            else:
                rep.inconclusive(rule, "RPSPolicer.get_timeout|row:" + name,
                                 "slot arithmetic differs from the reference (%s ; return %s): numerical equivalence is "
                                 "not decided statically" % (list(gu), gr), loc)
