"""C04 — only the reply to the outstanding request is delivered (E/W/P/T rules on MIR)."""
from .. import cells, cfg, flow
from ..facts import callee_path, const_int

SOCKETS = {
    "v1": ("socket::v1::SnmpV1ClientSocket", "<socket::v1::SnmpV1ClientSocket as socket::snmpsocket::SnmpSocket>"),
    "v2c": ("socket::v2c::SnmpV2cClientSocket", "<socket::v2c::SnmpV2cClientSocket as socket::snmpsocket::SnmpSocket>"),
    "v3": ("socket::v3::SnmpV3ClientSocket", "<socket::v3::SnmpV3ClientSocket as socket::snmpsocket::SnmpSocket>"),
}


def some_blocks(body):
    return flow.blocks_assigning_return(
        body, lambda rv: rv["k"] == "agg" and rv.get("path") == "std::option::Option" and rv.get("vname") == "Some")


def fp(t):
    return flow.field_path(t)


def _eq_guard(gs, a_path, b_path):
    """Guards comparing the two field paths (either order)."""
    out = []
    for g in gs:
        ea = flow.eq_atom(g)
        if not ea:
            continue
        pa, pb = fp(ea[0]), fp(ea[1])
        if {pa, pb} == {a_path, b_path}:
            out.append((g, ea[2], ea[3]))
    return out


def _call_guard(gs, suffix, argpred):
    out = []
    for g in gs:
        t = g.term
        if t[0] == "call" and (t[1] or "").endswith(suffix) and argpred(t[2]):
            out.append(g)
    return out


def must_cross(body, goals, edges):
    return cfg.must_pass(body, [0], goals, set(edges))


def accept(ctx, rep, rule):
    facts = ctx.facts
    for ver, (cls, tr) in SOCKETS.items():
        body = facts.need(tr + "::unwrap_pdu")
        prov = flow.Prov(body)
        gs = flow.guards(body, prov)
        goals = some_blocks(body)
        key0 = "%s::unwrap_pdu" % cls
        if not goals:
            rep.missing(rule, key0 + ": return Some(pdu)")
            continue
        rep.note_analysed("functions", [body.path])

        def req(name, edges, what, line=None):
            if not edges:
                rep.violation(rule, "%s|%s" % (key0, name),
                              "no test of %s guards the delivery of a PDU: the condition is missing from unwrap_pdu" % what,
                              body.loc())
                return
            ok = must_cross(body, goals, edges)
            path = None if ok else cfg.find_path(body, [0], goals, set(edges))
            rep.check(rule, "%s|%s" % (key0, name), ok,
                      "every path to `return Some(pdu)` crosses the accepting edge of %s" % what,
                      "a path delivers the PDU without %s holding: blocks %s" % (what, path), body.loc(line), obligation=True)

        if ver in ("v1", "v2c"):
            g = _eq_guard(gs, ("arg2", "community"), ("arg1", "community"))
            req("community", [x[1] for x in g], "msg.community == self.community", g[0][0].line if g else None)
            cg = _call_guard(gs, "SnmpPdu::<'_>::check", lambda a: len(a) == 2 and fp(a[1]) == ("arg1", "request_id")
                             and flow.mentions(a[0], lambda s: fp(s) == ("arg2", "pdu")))
            req("request-id", [x.true_edge for x in cg], "pdu.check(&self.request_id) on the message's own PDU",
                cg[0].line if cg else None)
            # delivered PDU is the message's PDU
            _delivered(rep, rule, body, prov, key0, lambda t: flow.mentions(t, lambda s: fp(s) == ("arg2", "pdu")),
                       "msg.pdu")
        else:
            g = _eq_guard(gs, ("arg1", "user_name"), ("arg2", "usm", "user_name"))
            req("user-name", [x[1] for x in g], "self.user_name == msg.usm.user_name", g[0][0].line if g else None)
            ge = _eq_guard(gs, ("arg2", "usm", "engine_id"), ("arg1", "engine_id"))
            gi = _call_guard(gs, "::is_empty", lambda a: len(a) == 1 and fp(a[0]) == ("arg1", "engine_id"))
            # only is_empty guards located before the delivery decision count: those from which a None return is reachable
            edges = [x[1] for x in ge]
            if ge:
                edges += [x.true_edge for x in gi if x.block < ge[0][0].block]
            req("engine-id", edges if ge else [], "engine id unknown yet or msg.usm.engine_id == self.engine_id",
                ge[0][0].line if ge else None)
            gm = _call_guard(gs, "RequestId::check", lambda a: len(a) == 2 and fp(a[0]) == ("arg1", "msg_id") and fp(a[1]) == ("arg2", "msg_id"))
            req("msg-id", [x.true_edge for x in gm], "self.msg_id.check(msg.msg_id)", gm[0].line if gm else None)
            cg = _call_guard(gs, "SnmpPdu::<'_>::check", lambda a: len(a) == 2 and fp(a[1]) == ("arg1", "request_id")
                             and flow.mentions(a[0], lambda s: s[0] == "f" and s[2] == "pdu"))
            req("request-id", [x.true_edge for x in cg], "data.pdu.check(&self.request_id)", cg[0].line if cg else None)
            _delivered(rep, rule, body, prov, key0,
                       lambda t: flow.mentions(t, lambda s: s[0] == "f" and s[2] == "pdu") and
                       flow.mentions(t, lambda s: fp(s) == ("arg2", "data") or (s[0] == "call" and (s[1] or "").endswith("::decrypt"))),
                       "the scoped PDU of this message (plaintext or decrypted)")
    rep.floor(rule, 11, "(3+3+5 acceptance conditions and delivered-PDU provenance)")


def _delivered(rep, rule, body, prov, key0, pred, what):
    rl = flow.return_locals(body)
    for b in body.live_blocks():
        for st in b.stmts:
            if st["k"] == "assign" and st["place"]["l"] in rl and not st["place"]["p"] and st["rv"]["k"] == "agg" and st["rv"].get("vname") == "Some":
                t = prov.operand(st["rv"]["ops"][0])
                rep.check(rule, key0 + "|delivered-pdu", pred(t), "Some(..) carries %s" % what,
                          "the PDU delivered is %s, not %s" % (flow.fmt(t), what), body.loc(st["line"]))


def pdu_check(ctx, rep, rule):
    """SnmpPdu::check: each non-Report variant compares its own request_id; RequestId::check is equality."""
    facts = ctx.facts
    body = facts.need("snmp::pdu::SnmpPdu::<'a>::check") if facts.body("snmp::pdu::SnmpPdu::<'a>::check") else None
    if body is None:
        cands = [b for b in facts.body_list if b.path.startswith("snmp::pdu::SnmpPdu") and b.path.endswith("::check")]
        if not cands:
            rep.missing(rule, "SnmpPdu::check")
            return
        body = cands[0]
    rep.note_analysed("functions", [body.path])
    prov = flow.Prov(body)
    enum_ty = facts.adts.get("snmp::pdu::SnmpPdu")
    if not enum_ty:
        rep.missing(rule, "enum SnmpPdu")
        return
    variants = {v["discr"]: v["name"] for v in enum_ty["variants"]}
    # decision table by cells: (variant of self, outcome of request_id.check(<variant>.request_id)) -> value returned.
    # For every non-Report variant the result must be exactly the outcome of the comparison (nothing else can make it true
    # or false); a Report is always accepted (RFC 3414 discovery and error reports carry ids the agent could not recover).
    from .. import cells
    idx = {name: dno for dno, name in variants.items()}

    def is_id_check(t, vname):
        if not (t[0] == "call" and (t[1] or "").endswith("RequestId::check") and len(t[2]) == 2 and t[2][0] == ("arg", 2)):
            return False
        x = t[2][1]
        names = []
        while x[0] == "f":
            names.append(x[2])
            x = x[1]
        return names[:1] == ["request_id"] and x == ("dc", ("arg", 1), vname)

    def returned(vname, chk):
        seen_check = []

        def ev(t):
            if t == ("discr", ("arg", 1)):
                return idx[vname]
            if chk is not None and t[0] == "call" and (t[1] or "").endswith("RequestId::check"):
                seen_check.append(is_id_check(t, vname))
                return chk if is_id_check(t, vname) else None
            return None
        blocks, _ = cells.feasible(body, prov, ev)
        val = cells.eval_term(flow.Prov(body, only_blocks=blocks).local(0), ev)
        calls_ = [bb for bb in body.calls() if bb.idx in blocks and (callee_path(bb.term) or "").endswith("RequestId::check")]
        good_args = bool(calls_) and all(is_id_check(flow.Prov(body, only_blocks=blocks).call_term(bb.term), vname) for bb in calls_)
        return val, good_args
    for vname in ("GetRequest", "GetNextRequest", "GetBulkRequest", "GetResponse"):
        key = "SnmpPdu::check|" + vname
        if vname not in idx:
            rep.missing(rule, "SnmpPdu::" + vname)
            continue
        (v1, a1), (v0, a0) = returned(vname, 1), returned(vname, 0)
        if not (a1 and a0):
            rep.violation(rule, key, "the %s arm does not compare the message's own request id with the outstanding one "
                          "(request_id.check(<%s>.request_id) not found on the arm)" % (vname, vname), body.loc(), obligation=True)
            continue
        rep.check(rule, key, v1 == 1 and v0 == 0, "accepted iff request_id.check(<%s>.request_id)" % vname,
                  "a %s is accepted or refused for a reason other than its request id (result with a matching id: %s, with a foreign id: %s; "
                  "None = depends on something else)" % (vname, v1, v0), body.loc(), obligation=True)
    if "Report" in idx:
        v, _ = returned("Report", None)
        rep.check(rule, "SnmpPdu::check|Report", v == 1, "Report bypasses the request-id test (by design, RFC 3414 discovery)",
                  "a Report is not always accepted (result %s): error reports whose ids the agent could not recover are dropped and the "
                  "caller sees a timeout instead of SnmpAuthError" % (v,), body.loc(), obligation=True)
    # RequestId::check is equality on the stored id
    rb = facts.need("reqid::RequestId::check")
    rp = flow.Prov(rb)
    t = rp.local(0)
    good = t[0] == "bin" and t[1] == "Eq" and {flow.fmt(t[2]), flow.fmt(t[3])} == {"arg1.0", "arg2"}
    # equality spelled as (a ^ b) == 0 or a - b == 0
    if not good and t[0] == "bin" and t[1] == "Eq" and ("const", 0) in (t[2], t[3]):
        o = t[3] if t[2] == ("const", 0) else t[2]
        while o[0] == "f":
            o = o[1]
        good = o[0] == "bin" and o[1] in ("BitXor", "Sub", "SubWithOverflow") and {flow.fmt(o[2]), flow.fmt(o[3])} == {"arg1.0", "arg2"}
    rep.check(rule, "RequestId::check|equality", good, "self.0 == v", "RequestId::check computes %s" % flow.fmt(t), rb.loc(),
              obligation=True)


def skip_loop(ctx, rep, rule):
    """_recv_inner: a rejected message loops back to recv_socket; a decode failure ends the call."""
    facts = ctx.facts
    body = facts.need("socket::snmpsocket::SnmpSocket::_recv_inner")
    rep.note_analysed("functions", [body.path])
    prov = flow.Prov(body)
    unwrap = [b for b in body.calls() if (callee_path(b.term) or "").endswith("::unwrap_pdu")]
    recv = [b for b in body.calls() if (callee_path(b.term) or "").endswith("::recv_socket")]
    tryf = [b for b in body.calls() if (b.term["callee"].get("path") or "").endswith("TryFrom::try_from")]
    if not (unwrap and recv and tryf):
        rep.missing(rule, "_recv_inner: recv_socket / try_from / unwrap_pdu calls")
        return
    ub = unwrap[0]
    # discriminant switch on unwrap_pdu's result
    sws = [b for b, t in flow.discr_switches(body, prov, lambda t: t[0] == "call" and (t[1] or "").endswith("::unwrap_pdu"))]
    dom = cfg.dominators(body)
    sws = [b for b in sws if not any(o.idx != b.idx and o.idx in dom.get(b.idx, ()) for o in sws)]
    sw = sws[0] if sws else None
    if sw is None:
        rep.missing(rule, "_recv_inner: match on unwrap_pdu(..)")
        return
    ve = flow.variant_edges(body, sw) or {}
    none_t = [ve["None"]] if "None" in ve else []
    some_t = [ve["Some"]] if "Some" in ve else []
    rets = body.returns()
    # (1) from the None arm every path to a return passes recv_socket again
    if none_t:
        recv_edges = {(r.idx, s) for r in recv for s in r.succs()}
        ok = not (cfg.reachable(body, none_t, cut=recv_edges) & set(rets))
        rep.check(rule, "_recv_inner|none-arm-receives-again", ok,
                  "a skipped datagram leads back to recv_socket", "a non-matching datagram ends the wait: the None arm reaches "
                  "a return without receiving again", body.loc(sw.term["line"]), obligation=True)
    else:
        rep.violation(rule, "_recv_inner|none-arm-receives-again", "no None arm", body.loc())
    # (2) the Some arm converts and returns without receiving again
    if some_t:
        r = cfg.reachable(body, some_t, cut={(x.idx, s) for x in recv for s in x.succs()})
        conv = [b for b in body.calls() if b.idx in r and ((callee_path(b.term) or "").endswith("with_gil") or
                                                           (b.term["callee"].get("path") or "").endswith("::to_python"))]
        rep.check(rule, "_recv_inner|some-arm-delivers", bool(conv) and bool(r & set(rets)),
                  "accepted PDU is converted and returned", "Some arm does not deliver", body.loc(sw.term["line"]))
    # (3) a failed decode is returned, not skipped: the Err/Break edge of try_from's `?` never reaches recv_socket
    tb = tryf[0]
    br = None
    for b in body.live_blocks():
        t = b.term
        if t and t["k"] == "switch":
            term = prov.operand(t["discr"])
            if term[0] == "discr" and term[1][0] == "call" and (term[1][1] or "").endswith("::branch") and \
                    flow.mentions(term[1], lambda s: s[0] == "call" and (s[1] or "").endswith("try_from")):
                br = b
    if br is None:
        rep.missing(rule, "_recv_inner: `?` on Message::try_from")
    else:
        brk = [tg for tg, lb in br.edges() if lb == ("case", 1)]
        reach = cfg.reachable(body, brk)
        ok = not any(r.idx in reach for r in recv) and bool(reach & set(rets))
        rep.check(rule, "_recv_inner|decode-error-returned", ok, "decode failure leaves the loop with the error",
                  "a datagram that does not decode is skipped instead of ending the call with SnmpDecodeError",
                  body.loc(br.term["line"]), obligation=True)
    # (4) the message checked is the one just received: try_from(data), data = recv_socket(..)
    t = prov.call_term(tb.term)
    rep.check(rule, "_recv_inner|decode-received-bytes", flow.mentions(t, lambda s: s[0] == "call" and (s[1] or "").endswith("::recv_socket")),
              "Message::try_from(recv_socket(..))", "decoded bytes are %s" % flow.fmt(t), body.loc(tb.term["line"]))
    t = prov.call_term(ub.term)
    rep.check(rule, "_recv_inner|unwrap-decoded-message", flow.mentions(t, lambda s: s[0] == "call" and (s[1] or "").endswith("try_from")),
              "unwrap_pdu(decoded message)", "unwrap_pdu receives %s" % flow.fmt(t), body.loc(ub.term["line"]))


def single_id(ctx, rep, rule):
    """RequestId.0 is written only in get_next; one fresh id per send, taken before from_python."""
    facts = ctx.facts
    writers = []
    for body in facts.body_list:
        for (bi, kind, st, line) in flow.field_writes(body, "reqid::RequestId", "0"):
            writers.append((body, kind, line))
    if not writers:
        rep.missing(rule, "writes of RequestId.0")
    for body, kind, line in writers:
        rep.check(rule, "RequestId.0|written in %s" % body.path, body.path in ("reqid::RequestId::get_next",),
                  "id state changes only in get_next", "the outstanding id is modified in %s" % body.path, body.loc(line),
                  obligation=True)
    # get_next masks to 31 bits: self.0 = x & 0x7fffffff
    gb = facts.need("reqid::RequestId::get_next")
    p = flow.Prov(gb)
    for (bi, kind, st, line) in flow.field_writes(gb, "reqid::RequestId", "0"):
        if kind != "assign":
            continue
        t = p.rvalue(st["rv"])
        # the constant may be renamed or replaced by the modulus: what counts is the value that reaches the operation
        mask = facts.const_value("reqid::MAX_REQUEST_ID") if "reqid::MAX_REQUEST_ID" in facts.consts else None
        cv = lambda x: x[1] if x[0] == "const" and len(x) > 1 and isinstance(x[1], int) else None  # noqa: E731
        good = t[0] == "bin" and t[1] == "BitAnd" and 0x7FFFFFFF in (cv(t[2]), cv(t[3])) and mask in (None, 0x7FFFFFFF)
        # the low 31 bits as x.rem_euclid(2^31) (equal to x & 0x7fffffff for every i64, negative ones included)
        if not good and t[0] == "call" and (t[1] or "").endswith("::rem_euclid") and len(t[2]) == 2 and cv(t[2][1]) == 0x80000000:
            good = True
        rep.check(rule, "RequestId::get_next|mask", good, "id = random & 0x7fffffff", "id computed as %s with MAX_REQUEST_ID=%s" % (flow.fmt(t), mask),
                  gb.loc(line), obligation=True)
    for fn in ("send_request", "send_and_recv"):
        body = facts.need("socket::snmpsocket::SnmpSocket::" + fn)
        rep.note_analysed("functions", [body.path])
        prov = flow.Prov(body)
        gn = [b for b in body.calls() if callee_path(b.term) == "reqid::RequestId::get_next"]
        fpy = [b for b in body.calls() if (b.term["callee"].get("path") or "").endswith("::from_python")]
        rep.check(rule, "%s|one-get_next" % fn, len(gn) == 1, "exactly one new id per request", "%d calls of get_next" % len(gn), body.loc())
        if not fpy:
            rep.missing(rule, fn + ": T::from_python")
            continue
        t = prov.call_term(fpy[0].term)
        ok = len(t[2]) == 2 and t[2][1][0] == "call" and t[2][1][1] == "reqid::RequestId::get_next" and \
            flow.mentions(t[2][1], lambda s: s[0] == "call" and (s[1] or "").endswith("::get_request_id"))
        rep.check(rule, "%s|pdu-carries-new-id" % fn, ok, "from_python(req, self.get_request_id().get_next())",
                  "request id handed to from_python is %s" % flow.fmt(t[2][1] if len(t[2]) > 1 else t), body.loc(fpy[0].term["line"]),
                  obligation=True)
        dom = cfg.dominators(body)
        if gn:
            rep.check(rule, "%s|id-before-build" % fn, gn[0].idx in dom.get(fpy[0].idx, ()), "id drawn before the PDU is built",
                      "get_next does not dominate from_python", body.loc())
    # the three sockets return their own request_id field
    for ver, (cls, tr) in SOCKETS.items():
        b = facts.need(tr + "::get_request_id")
        t = flow.Prov(b).local(0)
        rep.check(rule, "%s::get_request_id" % cls, flow.field_path(t) == ("arg1", "request_id"), "&mut self.request_id",
                  "returns %s" % flow.fmt(t), b.loc())


def report_only_v3(ctx, rep, rule):
    """The Report variant (which bypasses the id test) is only built by the PDU decoder for tag 8."""
    facts = ctx.facts
    n = 0
    for body in facts.body_list:
        for (bi, st, fields, vname) in flow.aggregate_inits(body, "snmp::pdu::SnmpPdu"):
            if vname == "Report":
                n += 1
                rep.check(rule, "SnmpPdu::Report built in %s" % body.path, "TryFrom<&'a [u8]>>::try_from" in body.path and "snmp::pdu::SnmpPdu" in body.path,
                          "only the decoder builds Report", "Report PDU constructed in %s" % body.path, body.loc(st["line"]))
    if n == 0:
        rep.missing(rule, "construction of SnmpPdu::Report")
    rep.check(rule, "PDU_REPORT", facts.const_value("snmp::PDU_REPORT") == 8, "tag 8", "PDU_REPORT = %s" % facts.const_value("snmp::PDU_REPORT"))


def version_check(ctx, rep, rule):
    """A message is accepted by a decoder only if its version field equals the decoder's own version."""
    facts = ctx.facts
    table = (("snmp::msg::v1::SnmpV1Message", "snmp::SNMP_V1", 0), ("snmp::msg::v2c::SnmpV2cMessage", "snmp::SNMP_V2C", 1),
             ("snmp::msg::v3::msg::SnmpV3Message", "snmp::SNMP_V3", 3))
    for adt, cname, want in table:
        cv = facts.const_value(cname)
        rep.check(rule, cname, cv == want, "%s = %d" % (cname, want), "%s = %s (RFC 3416 / RFC 3412 version numbers are 0, 1, 3)" % (cname, cv))
        bs = [b for b in facts.body_list if b.path.startswith("<%s<" % adt) and "TryFrom<&'a [u8]>>::try_from" in b.path]
        if not bs:
            rep.missing(rule, "%s::try_from" % adt)
            continue
        body = bs[0]
        rep.note_analysed("functions", [body.path])
        prov = flow.Prov(body)
        oks = flow.blocks_assigning_return(body, lambda rv: rv["k"] == "agg" and rv.get("vname") == "Ok")

        def is_version(t):
            return flow.mentions(t, lambda s: s[0] == "call" and (s[1] or "").endswith("from_ber")) and not flow.mentions(t, lambda s: s[0] == "f" and s[2] in ("length", "tag"))
        edges, lines = flow.eq_const_edges(body, prov, is_version, want)
        key = "%s::try_from|version" % adt
        if not edges:
            rep.violation(rule, key, "no test `version == %d` guards the successful decoding: messages of another SNMP version are "
                          "accepted by this session" % want, body.loc(), obligation=True)
        else:
            rep.check(rule, key, cfg.must_pass(body, [0], oks, set(edges)), "Ok(..) only for version %d" % want,
                      "a message can be decoded successfully without its version being %d" % want, body.loc(lines[0]), obligation=True)
    # msgSecurityModel: only USM (3) is understood; the test must be an equality, any other model is refused
    bs = [b for b in facts.body_list if b.path.startswith("<snmp::msg::v3::msg::SnmpV3Message<") and "TryFrom<&'a [u8]>>::try_from" in b.path]
    if bs:
        body = bs[0]
        prov = flow.Prov(body)
        errb = [bi for (bi, st, f, vn) in flow.aggregate_inits(body, "error::SnmpError") if vn == "UnknownSecurityModel"]
        key = "snmp::msg::v3::msg::SnmpV3Message::try_from|security-model"
        if not errb:
            rep.violation(rule, key, "no UnknownSecurityModel exit: messages of any security model are parsed as USM", body.loc(), obligation=True)
        else:
            oks = flow.blocks_assigning_return(body, lambda rv: rv["k"] == "agg" and rv.get("vname") == "Ok")
            gs = flow.guards(body, prov)
            eqs = []
            for g in gs:
                ea = flow.eq_atom(g)
                if ea and ((ea[0] == ("const", 3)) != (ea[1] == ("const", 3))) and errb[0] in cfg.reachable(body, [ea[3][1]]) and \
                        flow.mentions(ea[1] if ea[0] == ("const", 3) else ea[0], lambda s_: s_[0] == "call" and (s_[1] or "").endswith("from_ber")):
                    eqs.append((g, ea))
            if not eqs:
                rep.violation(rule, key, "msgSecurityModel is not compared for equality with 3 (USM): an ordering test lets other models through", body.loc(), obligation=True)
            else:
                rep.check(rule, key, any(cells.edge_guards_goals(body, ea[2], ea[3], oks) for g, ea in eqs), "Ok(..) only for msgSecurityModel == 3",
                          "a message with another security model can be decoded successfully", body.loc(eqs[0][0].line), obligation=True)


def only_listed_rejections(ctx, rep, rule):
    """A reply is refused by unwrap_pdu only for the reasons the protocol gives: community (v1/v2c); user name, engine id,
    msgID (v3); request id (all); a failed decryption (v3).  Any other condition that leads straight to `return None` drops
    replies the caller is entitled to - e.g. Reports, which an agent sends unauthenticated whatever the session's level."""
    facts = ctx.facts
    for ver, (cls, tr) in SOCKETS.items():
        body = facts.body(tr + "::unwrap_pdu")
        if body is None:
            rep.missing(rule, tr + "::unwrap_pdu")
            continue
        prov = flow.Prov(body)
        nones = flow.blocks_assigning_return(body, lambda rv: rv["k"] == "agg" and rv.get("vname") == "None")
        n = 0
        for g, pol, tgt in flow.deciding_guards(body, prov, nones):
            n += 1
            t = g.term
            paths = {fp(s_) for s_ in flow.subterms(t) if fp(s_)}
            names = {p_[-1] for p_ in paths if p_}
            known = bool(names & {"community", "user_name", "engine_id", "msg_id", "request_id"}) or \
                flow.mentions(t, lambda s_: s_[0] == "call" and (s_[1] or "").split("::")[-1] in ("check",)) or \
                flow.mentions(t, lambda s_: s_[0] == "call" and (s_[1] or "").endswith("::decrypt"))
            rep.check(rule, "%s::unwrap_pdu|rejection on %s" % (cls, flow.fmt(t)[:70]), known, "a listed reason",
                      "a reply is dropped on a condition that is none of community / user / engine id / msgID / request id / decryption "
                      "(%s is %s): replies the caller must see (e.g. unauthenticated Reports) are discarded and the call times out" % (flow.fmt(t)[:100], pol),
                      body.loc(g.line), obligation=True)
        if n == 0:
            rep.inconclusive(rule, "%s::unwrap_pdu|rejections" % cls, "no guarded `return None` recognised", body.loc())

