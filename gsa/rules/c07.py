"""C07 — get / get_many results and the SnmpError -> Python exception table (T rules)."""
from .. import cells, flow
from ..cells import INF
from ..facts import callee_path

PDU = "snmp::pdu::SnmpPdu"
VALUE = "snmp::value::SnmpValue"
ERR = "error::SnmpError"
DATA_KINDS = ["Bool", "Int", "OctetString", "Oid", "ObjectDescriptor", "Real", "IpAddress", "Counter32", "Gauge32",
              "TimeTicks", "Opaque", "Counter64", "UInteger32"]
EXC_KINDS = ["NoSuchObject", "NoSuchInstance", "EndOfMibView"]


def variant_index(facts, adt):
    v = flow.enum_variants(facts, adt)
    if v is None:
        return None
    return {name: d for d, name in v.items()}


def is_len_of(t, field):
    return t[0] == "call" and (t[1] or "").split("::")[-1] in ("len",) and t[2] and \
        flow.mentions(t[2][0], lambda s: s[0] == "f" and s[2] == field)


def is_len_term(t, field):
    """The number of elements of `field`: vars.len(), a slice's length metadata (slice patterns), is_empty's operand."""
    men = lambda x: flow.mentions(x, lambda s: s[0] == "f" and s[2] == field)  # noqa: E731
    if is_len_of(t, field):
        return True
    if t[0] == "call" and t[1] == "len" and t[2] and men(t[2][0]):
        return True
    if t[0] == "un" and t[1] == "PtrMetadata" and men(t[2]):
        return True
    return False


def is_value_discr(t):
    return t[0] == "discr" and t[1][0] == "f" and t[1][2] == "value"


def outcome(tg):
    out = set()
    if cells.has_call(tg, "PyNone::get") or cells.has_call(tg, "Python::<'py>::None"):
        out.add("none")
    if any(x[0] == "call" and x[1] and "snmp::value::SnmpValue" in x[1] and x[1].endswith("::into_pyobject") for x in tg):
        out.add("value")
    if cells.has_call(tg, "PyStopAsyncIteration::new_err"):
        out.add("stop")
    for x in tg:
        if x[0] == "agg" and x[1] == ERR:
            out.add("err:" + x[2])
    return out


def find_op(facts, name):
    bs = [b for b in facts.body_list if b.path.startswith("<snmp::op::%s as snmp::op::PyOp" % name) and b.path.endswith("::to_python")]
    return bs[0] if bs else None


def get_table(ctx, rep, rule):
    facts = ctx.facts
    body = find_op(facts, "get::OpGet")
    if body is None:
        rep.missing(rule, "OpGet::to_python")
        return
    rep.note_analysed("functions", [body.path])
    prov = flow.Prov(body)
    pv = variant_index(facts, PDU)
    vv = variant_index(facts, VALUE)
    if not pv or not vv:
        rep.missing(rule, "enums SnmpPdu / SnmpValue")
        return

    def cell(pdu, n=None, val=None):
        def ev(t):
            if t == ("discr", ("arg", 1)):
                return pv[pdu]
            if n is not None and is_len_term(t, "vars"):
                return n
            if val is not None and is_value_discr(t):
                return vv[val]
            return None
        blocks, _ = cells.feasible(body, prov, ev)
        return outcome(cells.tags(body, blocks))

    def expect(key, got, want, why):
        rep.check(rule, "OpGet::to_python|" + key, got == want, "%s -> %s" % (key, sorted(want)),
                  "%s: get() yields %s, documented behaviour is %s (%s)" % (key, sorted(got), sorted(want), why), body.loc(),
                  obligation=True)

    expect("GetResponse/0 varbinds", cell("GetResponse", 0), {"none"}, "empty reply -> None")
    for k in EXC_KINDS:
        expect("GetResponse/1/" + k, cell("GetResponse", 1, k), {"err:NoSuchInstance"}, "exception value -> NoSuchInstance")
    expect("GetResponse/1/Null", cell("GetResponse", 1, "Null"), {"none"}, "NULL -> None")
    for k in DATA_KINDS:
        expect("GetResponse/1/" + k, cell("GetResponse", 1, k), {"value"}, "data value -> converted value")
    expect("GetResponse/>=2 varbinds", cell("GetResponse", ("range", 2, INF)), {"err:InvalidPdu"}, "several varbinds -> SnmpError")
    expect("Report", cell("Report"), {"err:AuthenticationFailed"}, "Report -> SnmpAuthError")
    for k in ("GetRequest", "GetNextRequest", "GetBulkRequest"):
        expect(k, cell(k), {"err:InvalidPdu"}, "request PDU in place of a response -> SnmpError")
    # the value converted is that of varbind 0
    for b in body.calls():
        p = callee_path(b.term) or ""
        if "snmp::value::SnmpValue" in p and p.endswith("::into_pyobject"):
            t = prov.operand(b.term["args"][0])
            first = flow.mentions(t, lambda s: s[0] == "call" and (s[1] or "").endswith("::index") and s[2][1:] == (("const", 0),)) or \
                flow.mentions(t, lambda s: s[0] == "idx" and s[2] == ("const", 0))
            ok = t[0] == "f" and t[2] == "value" and first and flow.mentions(t, lambda s: s[0] == "f" and s[2] == "vars")
            rep.check(rule, "OpGet::to_python|converted-value", ok, "resp.vars[0].value", "get() converts %s" % flow.fmt(t),
                      body.loc(b.term["line"]), obligation=True)


def many_table(ctx, rep, rule):
    facts = ctx.facts
    body = find_op(facts, "getmany::OpGetMany")
    if body is None:
        rep.missing(rule, "OpGetMany::to_python")
        return
    rep.note_analysed("functions", [body.path])
    prov = flow.Prov(body)
    pv = variant_index(facts, PDU)
    vv = variant_index(facts, VALUE)

    def cell(pdu, val=None):
        def ev(t):
            if t == ("discr", ("arg", 1)):
                return pv[pdu]
            if val is not None and is_value_discr(t):
                return vv[val]
            return None
        blocks, _ = cells.feasible(body, prov, ev)
        return cells.tags(body, blocks)

    nexts = {b.idx for b in body.calls() if (callee_path(b.term) or "").endswith("Iterator>::next")}
    setters = [b for b in body.calls() if (callee_path(b.term) or "").endswith("::set_item")]
    through_filter = bool(setters) and all(flow.mentions(prov.operand(b.term["args"][2]), lambda s: s[0] == "call" and (s[1] or "").endswith("::filter"))
                                            for b in setters if len(b.term["args"]) > 2)

    def vcell(k):
        def ev(t):
            if is_value_discr(t):
                return vv[k]
            return None
        return ev
    # the per-varbind work may live in a closure handed to an iterator consumer (for_each / try_for_each)
    unit = None
    if not setters:
        for c in facts.closures_of(body.path):
            cs = [b for b in c.calls() if (callee_path(b.term) or "").endswith("::set_item")]
            feed = cells.closure_feed(facts, c) if cs else None
            if cs and feed is not None and feed[0] is body:
                unit = (c, flow.Prov(c), feed, cs)
    if unit is not None:
        _many_closure(ctx, rep, rule, body, prov, unit, cell, vcell, vv)
        _many_pdus(rep, rule, body, cell)
        return
    for k in ["Null"] + EXC_KINDS:
        if through_filter and cells.filter_verdict(facts, body, prov, vcell(k)) is False:
            # the varbinds are drawn through Iterator::filter and the closure rejects this kind: left out, iteration goes on
            rep.ok(rule, "OpGetMany::to_python|GetResponse/" + k, "%s is dropped by the filter closure" % k, body.loc(), obligation=True)
            rep.ok(rule, "OpGetMany::to_python|GetResponse/%s/later-varbinds-still-read" % k, "filter() continues with the next varbind", body.loc(), obligation=True)
            continue
        tg = cell("GetResponse", k)
        rep.check(rule, "OpGetMany::to_python|GetResponse/" + k, not cells.has_call(tg, "::set_item") and cells.has_call(tg, "PyDict::new"),
                  "%s is left out of the dict" % k, "a varbind carrying %s is inserted into the result dict" % k, body.loc(), obligation=True)
        # skipping one varbind must not end the processing of the reply
        def ev(t, k=k):
            if t == ("discr", ("arg", 1)):
                return pv["GetResponse"]
            if is_value_discr(t):
                return vv[k]
            return None
        _, decided = cells.feasible(body, prov, ev)
        cont = []
        for bi in decided:
            if is_value_discr(prov.operand(body.blocks[bi].term["discr"])):
                blocks, _ = cells.feasible(body, prov, ev, start=bi)
                cont.append(bool((blocks - {bi}) & nexts))
        rep.check(rule, "OpGetMany::to_python|GetResponse/%s/later-varbinds-still-read" % k, bool(cont) and all(cont),
                  "the loop goes on to the next varbind", "a %s value ends the processing of the reply: later values are missing from the dict" % k,
                  body.loc(), obligation=True)
    # a data value is stored on *every* way through the loop body, not only on some: nothing but the value kind (and
    # errors, which leave the loop) decides whether a varbind of the reply reaches the dict
    nxb = [b for b in body.calls() if (callee_path(b.term) or "").endswith("Iterator>::next")]
    some_of = {}
    for swb, term in flow.discr_switches(body, prov, lambda t: t[0] == "call" and (t[1] or "").endswith("Iterator>::next")):
        ve = flow.variant_edges(body, swb) or {}
        if "Some" in ve:
            some_of[swb.idx] = ve["Some"]
    for k in DATA_KINDS:
        def evk(t, k=k):
            if t == ("discr", ("arg", 1)):
                return pv["GetResponse"]
            if is_value_discr(t):
                return vv[k]
            return None
        fb, _ = cells.feasible(body, prov, evk)
        cut = {(b.idx, s_) for b in setters for s_ in b.succs()}
        goals = {b.idx for b in nxb if b.idx in fb}
        skipping = None
        for sw_idx, tgt in some_of.items():
            if sw_idx in fb and tgt in fb and goals and setters:
                pth = cells.path_within(body, fb, goals, cut, start=tgt)
                if pth:
                    skipping = pth
        if some_of and setters:
            rep.check(rule, "OpGetMany::to_python|GetResponse/%s/stored-on-every-path" % k, skipping is None, "no way round set_item for a data value",
                      "a varbind carrying %s can be passed over (blocks %s) for a reason other than its value kind: it is missing from the result dict" %
                      (k, skipping), body.loc(), obligation=True)
    for k in DATA_KINDS:
        tg = cell("GetResponse", k)
        kept = not through_filter or cells.filter_verdict(facts, body, prov, vcell(k)) is not False
        rep.check(rule, "OpGetMany::to_python|GetResponse/" + k, cells.has_call(tg, "::set_item") and kept,
                  "%s is stored" % k, "a varbind carrying %s never reaches the result dict" % k, body.loc(), obligation=True)
    _many_pdus(rep, rule, body, cell)
    # key and value come from the same varbind
    n = 0
    for b in body.calls():
        if (callee_path(b.term) or "").endswith("::set_item"):
            n += 1
            a = [prov.operand(x) for x in b.term["args"]]
            ok = len(a) == 3 and a[1][0] == "f" and a[1][2] == "oid" and a[2][0] == "f" and a[2][2] == "value" and a[1][1] == a[2][1]
            rep.check(rule, "OpGetMany::to_python|key-value-same-varbind", ok, "dict[var.oid] = var.value",
                      "set_item(%s)" % ", ".join(flow.fmt(x) for x in a[1:]), body.loc(b.term["line"]), obligation=True)
            ok2 = flow.mentions(a[1], lambda s: s[0] == "f" and s[2] == "vars")
            rep.check(rule, "OpGetMany::to_python|iterates-reply-varbinds", ok2, "varbinds of the reply", "iterates %s" % flow.fmt(a[1]),
                      body.loc(b.term["line"]))
    if n == 0:
        rep.missing(rule, "OpGetMany::to_python: dict.set_item")


def _many_pdus(rep, rule, body, cell):
    tg = cell("Report")
    rep.check(rule, "OpGetMany::to_python|Report", outcome(tg) == {"err:AuthenticationFailed"} and not cells.has_call(tg, "::set_item"),
              "Report -> SnmpAuthError", "Report yields %s" % sorted(outcome(tg)), body.loc(), obligation=True)
    for k in ("GetRequest", "GetNextRequest", "GetBulkRequest"):
        tg = cell(k)
        rep.check(rule, "OpGetMany::to_python|" + k, outcome(tg) == {"err:InvalidPdu"}, "request PDU -> SnmpError",
                  "%s yields %s" % (k, sorted(outcome(tg))), body.loc(), obligation=True)


def _many_closure(ctx, rep, rule, body, prov, unit, cell, vcell, vv):
    """get_many whose per-varbind work is a closure handed to an iterator consumer (`.filter(..).try_for_each(|var| ..)`)."""
    facts = ctx.facts
    c, cprov, feed, cs = unit
    source = feed[3]
    consumer = feed[2]
    reach_main, _ = cells.feasible(body, prov, lambda t: vv and None)
    for k in ["Null"] + EXC_KINDS:
        key = "OpGetMany::to_python|GetResponse/" + k
        if cells.filter_verdict_of(facts, source, vcell(k)) is False:
            rep.ok(rule, key, "%s is dropped by the filter closure" % k, body.loc(), obligation=True)
            rep.ok(rule, key + "/later-varbinds-still-read", "filter() continues with the next varbind", body.loc(), obligation=True)
            continue
        blocks, _ = cells.feasible(c, cprov, vcell(k))
        tg = cells.tags(c, blocks)
        rep.check(rule, key, not cells.has_call(tg, "::set_item"), "%s is left out of the dict" % k,
                  "a varbind carrying %s is inserted into the result dict" % k, c.loc(), obligation=True)
        rt = flow.Prov(c, only_blocks=blocks).local(0)
        goes_on = rt[0] == "agg" and rt[2] in ("Ok", "Continue") or rt == ("const", True) or (rt[0] == "agg" and rt[1] == "tuple")
        rep.check(rule, key + "/later-varbinds-still-read", goes_on, "the consumer goes on to the next varbind",
                  "a %s value ends the processing of the reply: later values are missing from the dict" % k, c.loc(), obligation=True)
    tgm = cell("GetResponse")
    for k in DATA_KINDS:
        blocks, _ = cells.feasible(c, cprov, vcell(k))
        kept = cells.filter_verdict_of(facts, source, vcell(k)) is not False
        rep.check(rule, "OpGetMany::to_python|GetResponse/" + k, cells.has_call(cells.tags(c, blocks), "::set_item") and kept and
                  any(x[0] == "call" and x[1] == (callee_path(consumer.term) or "") for x in tgm),
                  "%s is stored" % k, "a varbind carrying %s never reaches the result dict" % k, c.loc(), obligation=True)
    for b in cs:
        a = [cprov.operand(x) for x in b.term["args"]]
        ok = len(a) == 3 and a[1][0] == "f" and a[1][2] == "oid" and a[2][0] == "f" and a[2][2] == "value" and a[1][1] == a[2][1]
        rep.check(rule, "OpGetMany::to_python|key-value-same-varbind", ok, "dict[var.oid] = var.value",
                  "set_item(%s)" % ", ".join(flow.fmt(x) for x in a[1:]), c.loc(b.term["line"]), obligation=True)
    rep.check(rule, "OpGetMany::to_python|iterates-reply-varbinds", flow.mentions(source, lambda s: s[0] == "f" and s[2] == "vars"), "varbinds of the reply",
              "iterates %s" % flow.fmt(source)[:120], body.loc(consumer.term["line"]))


# expected table A.7 (DESIGN appendix): SnmpError variant -> exception constructor
EXC_TABLE = {
    "Incomplete": "error::PySnmpDecodeError", "UnexpectedTag": "error::PySnmpDecodeError",
    "InvalidTagFormat": "error::PySnmpDecodeError", "UnknownPdu": "error::PySnmpDecodeError",
    "InvalidPdu": "error::PySnmpDecodeError", "InvalidData": "error::PySnmpDecodeError",
    "UnsupportedTag": "error::PySnmpDecodeError", "TrailingData": "error::PySnmpDecodeError",
    "InvalidVersion": "error::PySnmpDecodeError", "UnknownSecurityModel": "error::PySnmpDecodeError",
    "OutOfBuffer": "error::PySnmpEncodeError", "NoSuchInstance": "error::PyNoSuchInstance",
    "AuthenticationFailed": "error::PySnmpAuthError", "InvalidKey": "pyo3::exceptions::PyValueError",
    "WouldBlock": "pyo3::exceptions::PyBlockingIOError", "ConnectionRefused": "pyo3::exceptions::PyTimeoutError",
    "SocketError": "pyo3::exceptions::PyOSError", "NotImplemented": "pyo3::exceptions::PyNotImplementedError",
}
# clauses of the properties that fix a class (others: any documented class of the family)
PINNED = {"NoSuchInstance", "AuthenticationFailed", "OutOfBuffer", "WouldBlock", "InvalidKey", "InvalidPdu",
          "Incomplete", "UnexpectedTag", "InvalidTagFormat", "UnknownPdu", "InvalidData", "UnsupportedTag", "TrailingData",
          "InvalidVersion", "UnknownSecurityModel", "SocketError"}
DOCUMENTED = set(EXC_TABLE.values())
BASES = {"error::PySnmpError": "pyo3::exceptions::PyException", "error::PySnmpDecodeError": "error::PySnmpError",
         "error::PySnmpEncodeError": "error::PySnmpError", "error::PyNoSuchInstance": "error::PySnmpError",
         "error::PySnmpAuthError": "error::PySnmpError"}


def exc_table(ctx, rep, rule):
    facts = ctx.facts
    body = facts.body("error::<impl std::convert::From<error::SnmpError> for pyo3::PyErr>::from")
    if body is None:
        rep.missing(rule, "From<SnmpError> for PyErr")
        return
    rep.note_analysed("functions", [body.path])
    prov = flow.Prov(body)
    ev_idx = variant_index(facts, ERR)
    if not ev_idx:
        rep.missing(rule, "enum SnmpError")
        return
    for vname, d in sorted(ev_idx.items(), key=lambda x: x[1]):
        def ev(t, d=d):
            if t == ("discr", ("arg", 1)):
                return d
            return None
        blocks, _ = cells.feasible(body, prov, ev)
        tg = cells.tags(body, blocks)
        ctors = sorted({x[1][:-len("::new_err")] for x in tg if x[0] == "call" and x[1] and x[1].endswith("::new_err")})
        key = "SnmpError::%s" % vname
        want = EXC_TABLE.get(vname)
        if len(ctors) != 1:
            rep.inconclusive(rule, key, "arm builds %s" % ctors, body.loc())
            continue
        got = ctors[0]
        if want is None:
            # a new error variant: must map into the documented family
            rep.check(rule, key, got in DOCUMENTED, "new variant maps to %s" % got,
                      "new variant %s maps to the undocumented exception %s" % (vname, got), body.loc(), obligation=True)
        elif vname in PINNED:
            rep.check(rule, key, got == want, "%s -> %s" % (vname, got.split("::")[-1]),
                      "SnmpError::%s raises %s, documented class is %s" % (vname, got.split("::")[-1], want.split("::")[-1]),
                      body.loc(), obligation=True)
        else:
            rep.check(rule, key, got in DOCUMENTED, "%s -> %s" % (vname, got.split("::")[-1]),
                      "SnmpError::%s raises the undocumented %s" % (vname, got), body.loc(), obligation=True)
    rep.floor(rule, 18, "(SnmpError variants)")
    # class hierarchy
    for cls, base in BASES.items():
        cb = facts.body(cls + "::type_object_raw::{closure#0}")
        if cb is None:
            rep.missing(rule, "exception class " + cls)
            continue
        got = None
        for b in cb.calls():
            if (callee_path(b.term) or "").endswith("Python::<'py>::get_type"):
                a = b.term["callee"].get("args") or []
                if a:
                    got = a[0].get("s")
        rep.check(rule, "class %s base" % cls.split("::")[-1], got == base, "derives from %s" % base.split("::")[-1],
                  "%s derives from %s, documented base is %s" % (cls, got, base), cb.loc())


def relative_base(ctx, rep, rule):
    """A RELATIVE-OID varbind name is resolved against the varbind right before it (the last one decoded so far), as the
    encoder on the agent's side abbreviates it - not against the first varbind of the reply or any other fixed one."""
    facts = ctx.facts
    body = None
    for b in facts.body_list:
        if "SnmpGetResponse" in b.path and b.path.endswith("::try_from"):
            body = b
    if body is None:
        rep.missing(rule, "SnmpGetResponse::try_from")
        return
    prov = flow.Prov(body)
    calls = [b for b in body.calls() if (callee_path(b.term) or "").endswith("::try_normalize") and len(b.term["args"]) > 1]
    if not calls:
        rep.inconclusive(rule, "SnmpGetResponse::try_from|relative-oid base", "no try_normalize call found", body.loc())
        return
    for b in calls:
        t = prov.operand(b.term["args"][1])
        def last_elem(x):
            if x[0] == "call" and (x[1] or "").split("::")[-1] == "last":
                return True
            if x[0] == "call" and (x[1] or "").split("::")[-1] == "index" and len(x[2]) == 2:
                return flow.mentions(x[2][1], lambda y: y[0] == "bin" and y[1] in ("Sub", "SubWithOverflow") and y[3] == ("const", 1) and
                                     flow.mentions(y[2], lambda z: z[0] == "call" and (z[1] or "").split("::")[-1] == "len"))
            return False
        def first_elem(x):
            if x[0] == "call" and (x[1] or "").split("::")[-1] == "first":
                return True
            return x[0] == "call" and (x[1] or "").split("::")[-1] in ("index", "get") and len(x[2]) == 2 and x[2][1] == ("const", 0)
        if flow.mentions(t, last_elem):
            rep.ok(rule, "SnmpGetResponse::try_from|relative-oid base", "the preceding varbind", body.loc(b.term["line"]), obligation=True)
        elif flow.mentions(t, first_elem):
            rep.violation(rule, "SnmpGetResponse::try_from|relative-oid base", "a relative name is resolved against the first varbind of the reply (%s), not "
                          "against the one before it: from the third varbind on values are filed under OIDs the agent did not send" % flow.fmt(t)[:80],
                          body.loc(b.term["line"]), obligation=True)
        else:
            rep.inconclusive(rule, "SnmpGetResponse::try_from|relative-oid base", "base is %s" % flow.fmt(t)[:100], body.loc(b.term["line"]))

