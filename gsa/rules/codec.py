"""BER codec rules: value dispatch table, header/slice pairing, remainder, trailing data, integer casts,
big-endian folds, IpAddress, PDU tags, length forms, OID text conversion."""
from .. import cells, cfg, flow, numrun
from ..facts import callee_path
from .numrules import report_sites, scope_closure

# expected table A.2 (X.690 / RFC 2578 / RFC 3416), primitive encodings
CLASSES = ["Universal", "Application", "Context", "Private"]
DISPATCH = {
    ("Universal", 1): ("Bool", "ber::bool::SnmpBool"), ("Universal", 2): ("Int", "ber::int::SnmpInt"),
    ("Universal", 4): ("OctetString", "ber::octetstring::SnmpOctetString<'a>"), ("Universal", 5): ("Null", "ber::null::SnmpNull"),
    ("Universal", 6): ("Oid", "ber::objectid::SnmpOid<'a>"), ("Universal", 7): ("ObjectDescriptor", "ber::objectdescriptor::SnmpObjectDescriptor<'a>"),
    ("Universal", 9): ("Real", "ber::real::SnmpReal"),
    ("Application", 0): ("IpAddress", "ber::ipaddress::SnmpIpAddress"), ("Application", 1): ("Counter32", "ber::counter32::SnmpCounter32"),
    ("Application", 2): ("Gauge32", "ber::gauge32::SnmpGauge32"), ("Application", 3): ("TimeTicks", "ber::timeticks::SnmpTimeTicks"),
    ("Application", 4): ("Opaque", "ber::opaque::SnmpOpaque<'a>"), ("Application", 6): ("Counter64", "ber::counter64::SnmpCounter64"),
    ("Application", 7): ("UInteger32", "ber::uinteger32::SnmpUInteger32"),
    ("Context", 0): ("NoSuchObject", None), ("Context", 1): ("NoSuchInstance", None), ("Context", 2): ("EndOfMibView", None),
}
VALUE = "snmp::value::SnmpValue"


def _hdr_field(t, name):
    return t[0] == "f" and t[2] == name and flow.mentions(t, lambda s: s[0] == "call" and (s[1] or "").endswith("BerHeader::from_ber"))


def dispatch(ctx, rep, rule):
    facts = ctx.facts
    body = facts.body("snmp::value::SnmpValue::<'_>::from_ber")
    if body is None:
        rep.missing(rule, "SnmpValue::from_ber")
        return
    rep.note_analysed("functions", [body.path])
    prov = flow.Prov(body)
    cls_idx = {n: d for d, n in (flow.enum_variants(facts, "ber::BerClass") or {}).items()}
    if len(cls_idx) != 4:
        rep.missing(rule, "enum BerClass")
        return
    for constructed in (0, 1):
        for cname in CLASSES:
            for tag in range(0, 32):
                def ev(t, constructed=constructed, cname=cname, tag=tag):
                    if _hdr_field(t, "constructed"):
                        return constructed
                    if t[0] == "discr" and _hdr_field(t[1], "class"):
                        return cls_idx[cname]
                    if _hdr_field(t, "tag"):
                        return tag
                    return None
                blocks, _ = cells.feasible(body, prov, ev)
                tg = cells.tags(body, blocks)
                decoders = sorted({x[1][1:].split(" as ber::BerDecoder")[0] for x in tg if x[0] == "call" and x[1] and x[1].endswith("BerDecoder<'a>>::decode")})
                variants = sorted({x[2] for x in tg if x[0] == "agg" and x[1] == VALUE})
                unsupported = cells.has_agg(tg, "error::SnmpError", "UnsupportedTag")
                key = "%s/%s/tag %d" % ("constructed" if constructed else "primitive", cname, tag)
                want = DISPATCH.get((cname, tag)) if not constructed else None
                if want is None:
                    ok = unsupported and not decoders and not variants
                    if ok:
                        if tag in (0, 1, 2, 3) or constructed:
                            rep.ok(rule, key, "rejected with UnsupportedTag", body.loc(), obligation=True)
                    else:
                        rep.violation(rule, key, "%s is accepted (decoder %s, variant %s); the standards define no such SNMP value: it must be "
                                      "rejected with UnsupportedTag" % (key, decoders, variants), body.loc(), obligation=True)
                else:
                    vname, dec = want
                    ok = variants == [vname] and decoders == ([dec] if dec else []) and not unsupported
                    rep.check(rule, key, ok, "-> %s via %s" % (vname, dec or "no decoder"),
                              "%s decodes to %s via %s%s; RFC 2578/3416 require %s via %s" % (key, variants, decoders, " or UnsupportedTag" if unsupported else "", vname, dec),
                              body.loc(), obligation=True)
                    if dec:
                        c = facts.consts.get("<%s as ber::BerDecoder<'a>>::TAG" % dec)
                        tv = c["v"].get("int") if c and c.get("v") else None
                        rep.check(rule, key + "/TAG const", tv == tag, "TAG = %d" % tag, "%s::TAG is %s, the dispatch uses %d" % (dec, tv, tag),
                                  body.loc())
    rep.floor(rule, 17 + 17, "(17 accepting cells + TAG consts + rejected cells)")


def dispatch_lengths(ctx, rep, rule):
    """The dispatcher leaves the length of a supported value to its decoder: for every supported (class, tag) cell and every
    contents length 0..20, an error the dispatcher raises itself is feasible only where the decoder of that cell has no
    successful exit for that length either.  (A length limit placed in front of the dispatch and keyed on the tag number
    alone refuses the INTEGERs, BOOLEANs .. that share the number with an application type.)"""
    facts = ctx.facts
    body = facts.body("snmp::value::SnmpValue::<'_>::from_ber")
    if body is None:
        rep.missing(rule, "SnmpValue::from_ber")
        return
    prov = flow.Prov(body)
    cls_idx = {n: d for d, n in (flow.enum_variants(facts, "ber::BerClass") or {}).items()}
    if len(cls_idx) != 4:
        rep.missing(rule, "enum BerClass")
        return
    n = 0
    for (cname, tag), (vname, dec) in sorted(DISPATCH.items()):
        dbody = None
        if dec:
            for b in facts.body_list:
                if b.impl_trait == "ber::BerDecoder" and b.name == "decode" and ("<%s as " % dec) in b.path:
                    dbody = b
        refused, accepted_by_decoder = [], {}
        for L in range(0, 21):
            def ev(t, cname=cname, tag=tag, L=L):
                if _hdr_field(t, "constructed"):
                    return 0
                if t[0] == "discr" and _hdr_field(t[1], "class"):
                    return cls_idx[cname]
                if _hdr_field(t, "tag"):
                    return tag
                if _hdr_field(t, "length"):
                    return L
                return None
            blocks, _ = cells.feasible(body, prov, ev)
            tg = cells.tags(body, blocks)
            own = sorted({x[2] for x in tg if x[0] == "agg" and x[1] == "error::SnmpError"})
            if own:
                refused.append((L, own))
        n += 1
        key = "primitive/%s/tag %d|dispatcher leaves the length to the decoder" % (cname, tag)
        if not refused:
            rep.ok(rule, key, "no error of its own for lengths 0..20", body.loc(), obligation=True)
            continue
        if len(refused) == 21:
            rep.inconclusive(rule, key, "the dispatcher can refuse this supported cell whatever the length (%s): not decided here" % refused[0][1], body.loc())
            continue
        bad = []
        for L, own in refused:
            if dbody is None:
                if L == 0:       # the exception values and NULL-like markers are well-formed with empty contents only
                    bad.append(L)
                continue
            dprov = flow.Prov(dbody)
            dblocks, _ = cells.feasible(dbody, dprov, lambda t, L=L: L if flow.field_path(t) == ("arg2", "length") else None)
            oks = flow.blocks_assigning_return(dbody, lambda rv: rv["k"] == "agg" and rv.get("vname") == "Ok")
            if set(oks) & set(dblocks):
                bad.append(L)
        rep.check(rule, key, not bad, "refuses only lengths the decoder refuses too",
                  "SnmpValue::from_ber itself refuses %s/tag %d (%s) with contents of %s octets, which %s accepts: a limit in front of the "
                  "dispatch that is not the decoder's" % (cname, tag, vname, bad[:6], dec or "the value"), body.loc(), obligation=True)
    if n < 17:
        rep.violation(rule, "floor-cells", "%d of 17 supported cells" % n)


_CUTS = ("index", "get", "get_unchecked", "split_at", "split_first", "split_last", "trim_ascii", "trim_ascii_end", "trim_ascii_start", "strip_prefix",
         "strip_suffix", "first_chunk", "last_chunk", "split", "splitn", "rsplit", "rsplitn", "take", "skip", "truncate", "trim_end_matches", "trim_matches",
         "trim_start_matches", "position", "rposition", "filter", "take_while", "skip_while", "dedup", "retain")


def py_values_raw(ctx, rep, rule):
    """OCTET STRING, Opaque and ObjectDescriptor reach Python as the octets that were decoded: the bytes object is built
    from the slice the value holds (`self.0`), not from a part of it (a stripped terminator, a trimmed blank)."""
    facts = ctx.facts
    n = 0
    for b in facts.body_list:
        if not (b.name == "into_pyobject" and b.impl_trait == "pyo3::IntoPyObject" and
                any(("ber::%s" % x) in b.path for x in ("octetstring::SnmpOctetString", "opaque::SnmpOpaque", "objectdescriptor::SnmpObjectDescriptor"))):
            continue
        prov = flow.Prov(b)
        calls = [blk for blk in b.calls() if (callee_path(blk.term) or "").endswith("PyBytes::new") and len(blk.term["args"]) == 2]
        what = b.path.split(" as ")[0].lstrip("<&'a ").split("::")[-1].split("<")[0]
        if not calls:
            rep.inconclusive(rule, "%s|bytes object" % what, "no PyBytes::new call: how the value reaches Python is not recognised", b.loc())
            continue
        n += 1
        for blk in calls:
            t = prov.operand(blk.term["args"][1])
            for _ in range(8):
                if t[0] == "call" and len(t[2]) >= 1 and (t[1] or "").split("::")[-1] in ("as_ref", "deref", "borrow", "as_slice", "into", "from", "clone", "as_bytes"):
                    t = t[2][0]
                elif t[0] == "call" and (t[1] or "").split("::")[-1] == "index" and len(t[2]) == 2 and t[2][1][0] == "agg" and (t[2][1][1] or "").endswith("RangeFull"):
                    t = t[2][0]
                elif t[0] == "cast":
                    t = t[1]
                else:
                    break
            key = "%s|bytes object built from the decoded slice" % what
            if flow.field_path(t) == ("arg1", "0"):
                rep.ok(rule, key, "PyBytes::new(py, self.0)", b.loc(blk.term.get("line")), obligation=True)
            elif flow.mentions(t, lambda x: x[0] == "call" and (x[1] or "").split("::")[-1] in _CUTS) and flow.mentions(t, lambda x: flow.field_path(x) == ("arg1", "0")):
                rep.violation(rule, key, "the bytes object handed to Python is a part of the decoded contents (%s), not the contents: the caller reads "
                              "a value the agent did not send" % flow.fmt(t)[:100], b.loc(blk.term.get("line")), obligation=True)
            else:
                rep.inconclusive(rule, key, "source of the bytes object not recognised: %s" % flow.fmt(t)[:80], b.loc(blk.term.get("line")))
    if n < 3:
        rep.violation(rule, "floor-bytes-values", "%d of the 3 conversions found" % n)


def request_decoder_rejections(ctx, rep, rule):
    """The library's own decoders of the request PDUs read back whatever the encoders wrote: SnmpGetBulk::try_from refuses a
    PDU for its structure only (a decoder's error, trailing octets), never for the *value* of request-id, non-repeaters or
    max-repetitions - the encoder writes any i64 the caller put there (max-repetitions 0 is what a default GetIter asks
    for); SnmpGet::try_from refuses a value only through the two `is_zero()` tests of error-status / error-index."""
    facts = ctx.facts
    n = 0
    for path, allow_zero in (("<snmp::getbulk::SnmpGetBulk<'a> as std::convert::TryFrom<&'a [u8]>>::try_from", False),
                             ("<snmp::get::SnmpGet<'a> as std::convert::TryFrom<&'a [u8]>>::try_from", True)):
        body = facts.body(path)
        if body is None:
            rep.missing(rule, path)
            continue
        n += 1
        prov = flow.Prov(body)
        errs = flow.blocks_assigning_return(body, lambda rv: rv["k"] == "agg" and rv.get("vname") == "Err")

        def decoded_value(t):
            # (from_ber(..)? as Continue).0.1 : the value component of a decoder's result (the .0 component is the rest of the input)
            return t[0] == "f" and t[2] == "1" and t[1][0] == "f" and t[1][2] == "0" and \
                flow.mentions(t[1][1], lambda s_: s_[0] == "call" and (s_[1] or "").endswith("::from_ber"))
        short = path.split(" as ")[0].lstrip("<").split("::")[-1].split("<")[0]
        bad = None
        for g, pol, tgt in flow.deciding_guards(body, prov, errs):
            t = g.term
            if not flow.mentions(t, decoded_value):
                continue
            if allow_zero and t[0] == "call" and (t[1] or "").endswith("::is_zero"):
                continue
            bad = bad or g
        rep.check(rule, "%s::try_from|refusals are structural" % short, bad is None, "no refusal decided by a decoded value" + (" (other than the two is_zero tests)" if allow_zero else ""),
                  "the decoder refuses a PDU on the value of a field (%s): the encoder writes that value, so the library cannot read back what it "
                  "sends" % (flow.fmt(bad.term)[:90] if bad else ""), body.loc(bad.line) if bad else body.loc(), obligation=True)
    if n < 2:
        rep.violation(rule, "floor-request-decoders", "%d of 2 request decoders found" % n)


def header_length_forms(ctx, rep, rule):
    """BerHeader::from_ber read once per value of the length octet (cells, low tag number): for n in 0..=127 the length is the
    octet itself (short form, X.690 8.1.3.4) and for n in 129..=255 it is not (long form: it is assembled from the octets
    that follow).  A boundary that is off by one (`n < 0x7f`) sends n = 127 down the long-form path, where it is read as
    "127 length octets follow"."""
    facts = ctx.facts
    body = facts.body("ber::header::BerHeader::from_ber")
    if body is None:
        rep.missing(rule, "BerHeader::from_ber")
        return
    prov = flow.Prov(body)

    def is_octet(t):
        return t[0] == "idx" and flow.mentions(t[1], lambda y: y == ("arg", 1))
    kinds = {}
    for n in list(range(0, 128)) + list(range(129, 256)):
        def ev(t, n=n):
            if is_octet(t):
                return 0x02 if t[2] == ("const", 0) else n
            return None
        blocks, _ = cells.feasible(body, prov, ev)
        parm = flow.Prov(body, only_blocks=blocks)
        lens = []
        for bi in blocks:
            for st_ in body.blocks[bi].stmts:
                if st_["k"] == "assign" and st_["rv"]["k"] == "agg" and (st_["rv"].get("path") or "").endswith("BerHeader"):
                    fl = dict(zip(st_["rv"].get("fields") or [], st_["rv"].get("ops") or []))
                    if "length" in fl:
                        lens.append(parm.operand(fl["length"]))
        if not lens:
            kinds[n] = "none"
            continue
        ks = set()
        for t in lens:
            while t[0] == "cast" or (t[0] == "bin" and t[1] == "BitAnd" and t[3][0] == "const" and isinstance(t[3][1], int) and (t[3][1] & 0x7f) == 0x7f):
                t = t[1] if t[0] == "cast" else t[2]
            ks.add("short" if (is_octet(t) and t[2] != ("const", 0)) else "other")
        kinds[n] = "short" if ks == {"short"} else ("other" if ks == {"other"} else "mixed")
    if not any(k == "short" for k in kinds.values()) or not any(k == "other" for k in kinds.values()):
        rep.inconclusive(rule, "BerHeader::from_ber|length forms", "the two forms of the length are not told apart by this reading of the function", body.loc())
        return
    bad_short = [n for n in range(0, 128) if kinds[n] != "short"]
    bad_long = [n for n in range(129, 256) if kinds[n] == "short"]
    rep.check(rule, "BerHeader::from_ber|short form for 0..=127", not bad_short, "length = the octet for all n <= 127",
              "for the length octet(s) %s the length is not the octet itself: a short-form length is read as something else" % bad_short[:6], body.loc(), obligation=True)
    rep.check(rule, "BerHeader::from_ber|long form for 129..=255", not bad_long, "length assembled from the following octets for all n >= 129",
              "for the length octet(s) %s the octet itself is taken as the length" % bad_long[:6], body.loc(), obligation=True)


def pair(ctx, rep, rule):
    """decode(a, &h): a and h are the two components of one BerHeader::from_ber result."""
    facts = ctx.facts
    n = 0
    for body in facts.body_list:
        prov = None
        for blk in body.calls():
            c = blk.term["callee"]
            p = callee_path(blk.term) or ""
            if not ((c.get("trait") == "ber::BerDecoder" and c.get("method") == "decode") or p.endswith("BerDecoder<'a>>::decode")):
                continue
            prov = prov or flow.Prov(body)
            a, h = prov.operand(blk.term["args"][0]), prov.operand(blk.term["args"][1])
            n += 1
            key = "%s|%s" % (body.path, p.split(" as ")[0].lstrip("<") if " as " in p else "Self::decode")
            ok = a[0] == "f" and h[0] == "f" and a[2] == "0" and h[2] == "1" and a[1] == h[1] and \
                flow.mentions(a[1], lambda s: s[0] == "call" and (s[1] or "").endswith("BerHeader::from_ber"))
            rep.check(rule, key, ok, "decode(tail, &hdr) of one header parse",
                      "decode receives slice %s with header %s: they are not the (tail, header) pair of one BerHeader::from_ber call, so the "
                      "contents are read from the wrong place" % (flow.fmt(a), flow.fmt(h)), body.loc(blk.term["line"]), obligation=True)
    rep.floor(rule, 10, "(call sites of BerDecoder::decode)")


def bounded_children(ctx, rep, rule):
    """The contents of a constructed element are parsed from a slice cut to its declared length.  The three from_ber
    wrappers cut `tail[..hdr.length]` before anything reads it; any other function that calls BerHeader::from_ber itself
    must not hand the uncut remainder (the first component of its result) to a nested parser - inner lengths that overrun
    the element would then be honoured and values taken from octets outside it."""
    facts = ctx.facts
    wrappers = {"ber::BerDecoder::from_ber", "<ber::option::SnmpOption<'a> as ber::BerDecoder<'a>>::from_ber", "snmp::value::SnmpValue::<'_>::from_ber"}
    n = 0

    def uncut_tail(t):
        # (BerHeader::from_ber(..)? as Continue).0.0 - the input that follows the header, not yet cut to hdr.length
        if not (t[0] == "f" and t[2] == "0" and t[1][0] == "f" and t[1][2] == "0"):
            return False
        return flow.mentions(t[1][1], lambda s_: s_[0] == "call" and (s_[1] or "") == "ber::header::BerHeader::from_ber") and \
            not flow.mentions(t[1][1], lambda s_: s_[0] == "call" and (s_[1] or "").split("::")[-1] in ("index", "get", "split_at", "take"))
    for body in facts.body_list:
        if body.path in wrappers or not any((callee_path(b.term) or "") == "ber::header::BerHeader::from_ber" for b in body.calls()):
            continue
        prov = flow.Prov(body)
        for blk in body.calls():
            p = callee_path(blk.term) or ""
            last = p.split("::")[-1]
            if last not in ("from_ber", "decode", "try_from") or p == "ber::header::BerHeader::from_ber":
                continue
            for a in blk.term["args"][:1]:
                t = prov.operand(a)
                n += 1
                rep.check(rule, "%s|%s reads a cut slice" % (body.path, p.split(" as ")[0].lstrip("<")[-40:]), not uncut_tail(t), "contents cut to the declared length",
                          "a nested element is parsed from the uncut remainder after a header (%s): its length is not bounded by the enclosing element" %
                          flow.fmt(t)[:80], body.loc(blk.term["line"]), obligation=True)
    rep.info(rule, "direct header parses outside the from_ber wrappers: nested parses checked", str(n))


def rest(ctx, rep, rule):
    """from_ber returns &tail[hdr.length..] with (tail, hdr) from one header parse."""
    facts = ctx.facts
    targets = ["ber::BerDecoder::from_ber", "<ber::option::SnmpOption<'a> as ber::BerDecoder<'a>>::from_ber", "snmp::value::SnmpValue::<'_>::from_ber"]
    for name in targets:
        body = facts.body(name)
        if body is None:
            rep.missing(rule, name)
            continue
        prov = flow.Prov(body)
        found = False
        for b in body.live_blocks():
            for st in b.stmts:
                if st["k"] == "assign" and st["place"]["l"] == 0 and st["rv"]["k"] == "agg" and st["rv"].get("vname") == "Ok":
                    t = prov.operand(st["rv"]["ops"][0])
                    if t[0] != "agg" or len(t[3]) != 2:
                        continue
                    found = True
                    r = t[3][0][1]
                    ok = False
                    why = flow.fmt(r)
                    if r[0] == "call" and (r[1] or "").endswith("Index<I> for [T]>::index") and len(r[2]) == 2:
                        base, rng = r[2]
                        if rng[0] == "agg" and rng[1] == "std::ops::RangeFrom":
                            start = rng[3][0][1]
                            ok = base[0] == "f" and base[2] == "0" and start[0] == "f" and start[2] == "length" and start[1][0] == "f" and \
                                start[1][2] == "1" and start[1][1] == base[1] and \
                                flow.mentions(base, lambda s: s[0] == "call" and (s[1] or "").endswith("BerHeader::from_ber"))
                    # tail.split_at(hdr.length).1 is the same slice
                    if not ok and r[0] == "f" and r[2] == "1" and r[1][0] == "call" and (r[1][1] or "").split("::")[-1] == "split_at" and len(r[1][2]) == 2:
                        base, start = r[1][2]
                        ok = base[0] == "f" and base[2] == "0" and start[0] == "f" and start[2] == "length" and start[1][0] == "f" and \
                            start[1][2] == "1" and start[1][1] == base[1] and \
                            flow.mentions(base, lambda s: s[0] == "call" and (s[1] or "").endswith("BerHeader::from_ber"))
                    rep.check(rule, name + "|remainder", ok, "&tail[hdr.length..]",
                              "the remainder returned is %s, not the input right after the declared contents" % why, body.loc(st["line"]), obligation=True)
        if not found:
            rep.missing(rule, name + ": Ok((rest, value))")


TRAILING = [
    ("<snmp::msg::v1::SnmpV1Message<'a> as std::convert::TryFrom<&'a [u8]>>::try_from", "message"),
    ("<snmp::msg::v2c::SnmpV2cMessage<'a> as std::convert::TryFrom<&'a [u8]>>::try_from", "message"),
    ("<snmp::msg::v3::msg::SnmpV3Message<'a> as std::convert::TryFrom<&'a [u8]>>::try_from", "message"),
    ("<snmp::msg::v3::usm::UsmParameters<'a> as std::convert::TryFrom<&'a [u8]>>::try_from", "security parameters"),
    ("<snmp::get::SnmpGet<'a> as std::convert::TryFrom<&'a [u8]>>::try_from", "PDU"),
    ("<snmp::getbulk::SnmpGetBulk<'a> as std::convert::TryFrom<&'a [u8]>>::try_from", "PDU"),
    ("<snmp::getresponse::SnmpGetResponse<'a> as std::convert::TryFrom<&'a [u8]>>::try_from", "PDU"),
]


def trailing(ctx, rep, rule):
    facts = ctx.facts
    for name, what in TRAILING:
        body = facts.body(name)
        if body is None:
            rep.missing(rule, name)
            continue
        prov = flow.Prov(body)
        gs = flow.guards(body, prov)
        oks = flow.blocks_assigning_return(body, lambda rv: rv["k"] == "agg" and rv.get("vname") == "Ok")

        seen_loops = set()

        def pure_remainder(t, depth=0):
            """t is the input, or what a chain of from_ber calls left over of it: only remainder components (`.0`) are taken
            on the way down - never the decoded value (`.1`), whose contents are *inside* an element, not after it."""
            if depth > 60:
                return False
            if t[0] == "arg":
                return True
            if t[0] == "loop":
                # either a real cycle (a helper parsed twice, a loop over fields: its alternatives are checked where it is
                # defined) or the trace was cut for depth: resume it at that local
                if t[1] in seen_loops:
                    return True
                seen_loops.add(t[1])
                return pure_remainder(prov.local(t[1]), depth + 1)
            if t[0] == "phi":
                # the failure alternatives of a Result / Option (an Err(..) built in place, a residual passed on) carry no remainder
                alts = [x for x in t[1] if not (x[0] == "call" and (x[1] or "").endswith("from_residual")) and
                        not (x[0] == "agg" and len(x) > 2 and x[2] in ("Err", "None"))]
                return bool(alts) and all(pure_remainder(x, depth + 1) for x in alts)
            if t[0] == "agg" and len(t) > 3 and t[2] in ("Ok", "Some"):
                return any(pure_remainder(ft, depth + 1) for f, ft in t[3])
            if t[0] == "cast":
                return pure_remainder(t[1], depth + 1)
            if t[0] == "f" and t[2] == "0":
                x = t[1]
                # (result as Continue).0 / (result as Ok).0 wrappers
                for _ in range(6):
                    if x[0] == "f" and x[2] == "0":
                        x = x[1]
                    elif x[0] == "dc":
                        x = x[1]
                    elif x[0] == "call" and ((x[1] or "").endswith("Try>::branch") or (x[1] or "").split("::")[-1] in ("ok", "map_err")) and x[2]:
                        x = x[2][0]
                    else:
                        break
                if x[0] == "call" and (x[1] or "").endswith("::from_ber") and x[2]:
                    return pure_remainder(x[2][0], depth + 1)
                if x[0] == "phi" or x[0] == "agg":
                    return pure_remainder(x, depth + 1)
            return False

        def is_rest_of_seq(t):
            seen_loops.clear()
            return t[0] == "f" and t[2] == "0" and flow.mentions(t, lambda s: s[0] == "call" and (s[1] or "").endswith("BerDecoder::from_ber")) and \
                pure_remainder(t)
        ge = [g for g in gs if g.term[0] == "call" and (g.term[1] or "").endswith("[T]>::is_empty") and g.term[2] and is_rest_of_seq(g.term[2][0])]
        key = "%s|no-trailing-data" % name.split(" as ")[0].lstrip("<")
        if not ge or not oks:
            rep.violation(rule, key, "no `tail.is_empty()` test on the remainder of the enclosing SEQUENCE guards the successful decoding of the %s: "
                          "octets after it would be accepted" % what, body.loc(), obligation=True)
            continue
        good = [g for g in ge if cfg.must_pass(body, [0], oks, {g.true_edge}) or not (cells.variant_reach(body, cut=frozenset({g.true_edge})) & set(oks))]
        rep.check(rule, key, bool(good), "Ok(..) only when nothing follows the %s" % what,
                  "a %s can be decoded successfully although octets follow it (an Ok return is reachable without the empty-remainder test)" % what,
                  body.loc(ge[0].line), obligation=True)


# ---------------------------------------------------------------------------- C02.width / fold / ip
NUMERIC = [("ber::int::SnmpInt", "i64", True), ("ber::counter32::SnmpCounter32", "u32", False), ("ber::gauge32::SnmpGauge32", "u32", False),
           ("ber::timeticks::SnmpTimeTicks", "u32", False), ("ber::uinteger32::SnmpUInteger32", "u32", False),
           ("ber::counter64::SnmpCounter64", "u64", False)]


def _int_bits(t):
    return (t["bits"], t["signed"]) if t.get("k") == "int" else None


def width(ctx, rep, rule):
    """Integer casts on the decode path of values are widening; accumulators have the stored field's type."""
    facts = ctx.facts
    bodies = [b for b in facts.body_list if (b.impl_trait == "ber::BerDecoder" and b.name == "decode") or
              (b.kind == "Closure" and b.parent and "BerDecoder<'a>>::decode" in b.parent)]
    n = 0
    for body in bodies:
        for blk in body.live_blocks():
            for st in blk.stmts:
                if st["k"] == "assign" and st["rv"]["k"] == "cast" and st["rv"]["ck"] == "IntToInt":
                    ft, tt = _int_bits(facts.types[st["rv"]["from"]]), _int_bits(facts.types[st["rv"]["to"]])
                    if not ft or not tt or "const" in st["rv"]["op"]:
                        continue  # constants (shift amounts of the overflow checks) are not values on the decode path
                    n += 1
                    (fb, fs), (tb, ts) = ft, tt
                    widening = (fs == ts and tb >= fb) or (not fs and ts and tb > fb)
                    # a cast of a wider unsigned accumulator down to the width of the field that stores the value drops
                    # only octets beyond the type's range, exactly as the `<< 8` of a same-width accumulator does
                    own = body.path if body.kind != "Closure" else (body.parent or "")
                    for npath, tyname, signed_ in NUMERIC:
                        if ("<%s as " % npath) in own and not fs and not ts and not signed_ and tb == int(tyname[1:]) and fb > tb:
                            widening = True
                    # the leading octet of a two's-complement INTEGER reinterpreted as i8 (and widened from there) *is* the sign
                    # extension; any other octet, or any unsigned decoder, must not be sign-extended
                    if not widening and "<ber::int::SnmpInt as " in own and (fb, fs, tb, ts) == (8, False, 8, True):
                        src = flow.Prov(body).operand(st["rv"]["op"])
                        while src[0] == "cast":
                            src = src[1]
                        if src == ("idx", ("arg", 1), ("const", 0)):
                            widening = True
                    # ... and the first octet of a REAL's binary exponent (X.690 8.5.7.4: a two's-complement number)
                    if not widening and "<ber::real::SnmpReal as " in own and (fb, fs, tb, ts) == (8, False, 8, True):
                        src = flow.Prov(body).operand(st["rv"]["op"])
                        while src[0] == "cast":
                            src = src[1]
                        if src[0] == "idx" and flow.mentions(src[1], lambda x: x == ("arg", 1)):
                            widening = True
                    key = "%s|cast %s->%s#%d" % (body.path, facts.types[st["rv"]["from"]]["s"], facts.types[st["rv"]["to"]]["s"], blk.idx)
                    rep.check(rule, key, widening, "widening", "a narrowing or sign-changing cast on the value decode path loses bits of the value",
                              body.loc(st["line"]), obligation=True)
                    # a two's-complement INTEGER must not pass through an unsigned intermediate wider than one octet: widening it
                    # to the signed result zero-extends (0xFFFFFFFF becomes 4294967295, not -1)
                    if widening and "<ber::int::SnmpInt as " in own and not fs and ts and fb > 8:
                        rep.violation(rule, key + "|zero-extension", "the signed INTEGER decoder widens an unsigned %d-bit intermediate to %s: negative values "
                                      "of that width are zero-extended instead of sign-extended" % (fb, facts.types[st["rv"]["to"]]["s"]), body.loc(st["line"]),
                                      obligation=True)
    # the numeric decoders are total: whatever the length, they fold the octets and return Ok (over-long encodings with
    # leading zero octets - mandatory for unsigned values with the top bit set - are values, not errors)
    for path, tyname, _ in NUMERIC:
        db = facts.body("<%s as ber::BerDecoder<'a>>::decode" % path)
        if db is None:
            continue
        errs = flow.blocks_assigning_return(db, lambda rv: rv["k"] == "agg" and rv.get("vname") == "Err")
        rep.check(rule, "%s::decode|total" % path, not errs, "no error exit", "the %s decoder rejects some contents (an error exit was added): "
                  "encodings such as a 5-octet unsigned value with a leading zero octet would be refused" % path.split("::")[-1],
                  db.loc(db.blocks[errs[0]].stmts[0].get("line") if errs and db.blocks[errs[0]].stmts else None), obligation=True)
    for path, tyname, _ in NUMERIC:
        t = facts.adts.get(path)
        if t is None:
            rep.missing(rule, path)
            continue
        fty = facts.types[t["variants"][0]["fields"][0]["ty"]]["s"]
        rep.check(rule, "%s|field type" % path, fty == tyname, tyname, "%s stores %s, the SMI type needs %s" % (path, fty, tyname))
        ip = facts.body("<&%s as pyo3::IntoPyObject<'py>>::into_pyobject" % path)
        if ip is not None:
            prov = flow.Prov(ip)
            conv = [b for b in ip.calls() if (callee_path(b.term) or "").startswith("pyo3::conversions::std::num::")]
            okc = bool(conv) and all(("for %s>" % tyname) in (callee_path(b.term) or "") and flow.field_path(prov.operand(b.term["args"][0])) == ("arg1", "0") for b in conv)
            rep.check(rule, "%s|python conversion" % path, okc, "self.0 converted as %s" % tyname,
                      "the stored value is converted to Python through %s" % [callee_path(b.term) for b in conv], ip.loc(), obligation=True)
    if n < 3:
        rep.violation(rule, "floor", "only %d integer casts found in decoders, floor is 3" % n)


def fold(ctx, rep, rule):
    """Canonical big-endian base-256 fold over exactly take(h.length) octets (tolerant: unknown shapes are inconclusive)."""
    facts = ctx.facts
    for path, tyname, signed in NUMERIC:
        body = facts.body("<%s as ber::BerDecoder<'a>>::decode" % path)
        if body is None:
            rep.missing(rule, path + "::decode")
            continue
        prov = flow.Prov(body)
        key = path + "::decode"
        takes = [b for b in body.calls() if (callee_path(b.term) or "") == "std::iter::Iterator::take"]
        if takes:
            a = [prov.operand(x) for x in takes[0].term["args"]]
            ok = a[0] == ("arg", 1) and flow.field_path(a[1]) == ("arg2", "length")
            rep.check(rule, key + "|octets", ok, "i.iter().take(h.length)", "the fold runs over %s limited to %s instead of the %s contents octets" %
                      (flow.fmt(a[0]), flow.fmt(a[1]), "h.length"), body.loc(takes[0].term["line"]), obligation=True)
        else:
            rep.inconclusive(rule, key + "|octets", "no take(..) found: shape not recognised", body.loc())
        step = None
        elem = None
        for c in facts.closures_of(body.path):
            t = flow.Prov(c).local(0)
            if t[0] == "cast" or (t[0] == "arg"):
                elem = (c, t)
            if t[0] == "bin":
                step = (c, t)
        if step is None:
            rep.inconclusive(rule, key + "|step", "fold step closure not recognised", body.loc())
        else:
            c, t = step
            good = False
            bad = None
            # (acc << 8) | x   or  acc * 256 + x
            if t[1] in ("BitOr", "Add", "BitXor") and t[2][0] == "bin":
                inner = t[2]
                x = t[3]
                while x[0] in ("cast", "deref"):   # the octet may be widened inside the step: (acc << 8) | (*x as u64)
                    x = x[1]
                if inner[1] == "Shl" and inner[3][0] == "const":
                    if inner[3][1] == 8 and inner[2] == ("arg", 2) and x == ("arg", 3):
                        good = True
                    else:
                        bad = "step is (%s << %s) | %s" % (flow.fmt(inner[2]), inner[3][1], flow.fmt(x))
                elif inner[1] == "Mul" and inner[3][0] == "const":
                    if inner[3][1] == 256 and inner[2] == ("arg", 2) and x == ("arg", 3):
                        good = True
                    else:
                        bad = "step is %s * %s + %s" % (flow.fmt(inner[2]), inner[3][1], flow.fmt(x))
            if good:
                rep.ok(rule, key + "|step", "acc = (acc << 8) | octet", c.loc(), obligation=True)
            elif bad:
                rep.violation(rule, key + "|step", "big-endian fold broken: %s (must be (acc << 8) | octet)" % bad, c.loc(), obligation=True)
            else:
                rep.inconclusive(rule, key + "|step", "step %s not recognised" % flow.fmt(t), c.loc())
        if elem is not None:
            c, t = elem
            rt = facts.types[c.locals[0]["ty"]]["s"]
            rep.check(rule, key + "|element", rt == tyname, "octet widened to %s" % tyname, "octets are widened to %s, the accumulator must be %s" % (rt, tyname), c.loc())


def ipaddr(ctx, rep, rule):
    facts = ctx.facts
    body = facts.body("<ber::ipaddress::SnmpIpAddress as ber::BerDecoder<'a>>::decode")
    if body is None:
        rep.missing(rule, "SnmpIpAddress::decode")
        return
    prov = flow.Prov(body)
    for (bi, st, fields, vn) in flow.aggregate_inits(body, "ber::ipaddress::SnmpIpAddress"):
        ts = [prov.operand(fields[str(k)]) for k in range(4)]
        def from_start(x):
            # the contents themselves, or a prefix of them (`&i[..4]`, `&i[0..h.length]`, `i[..]`): element k is i[k]
            for _ in range(6):
                if x == ("arg", 1):
                    return True
                if x[0] == "call" and (x[1] or "").split("::")[-1] == "index" and len(x[2]) == 2 and x[2][1][0] == "agg" and "Range" in (x[2][1][1] or ""):
                    rng = x[2][1]
                    starts = [fv for fn_, fv in rng[3] if fn_ == "start"]
                    if starts and starts[0] != ("const", 0):
                        return False
                    x = x[2][0]
                    continue
                return False
            return False
        shaped = all(t[0] == "idx" and t[2][0] == "const" and isinstance(t[2][1], int) and from_start(t[1]) for t in ts)
        ok = shaped and all(t[2][1] == k for k, t in enumerate(ts))
        if shaped or all(t[0] == "idx" and t[1] == ("arg", 1) for t in ts):
            rep.check(rule, "SnmpIpAddress::decode|octet order", ok, "(i[0], i[1], i[2], i[3])", "address built from %s" % [flow.fmt(t) for t in ts],
                      body.loc(st["line"]), obligation=True)
        else:
            rep.inconclusive(rule, "SnmpIpAddress::decode|octet order", "the four octets are not read by constant index from the contents: %s" % [flow.fmt(t)[:40] for t in ts],
                             body.loc(st["line"]))
    fb = facts.body("ber::ipaddress::<impl std::convert::From<&ber::ipaddress::SnmpIpAddress> for std::string::String>::from")
    if fb is None:
        rep.inconclusive(rule, "SnmpIpAddress|format", "formatting function not found")
        return
    p2 = flow.Prov(fb)
    order = []
    for b in sorted(fb.calls(), key=lambda b: b.idx):
        if (callee_path(b.term) or "").endswith("Argument::<'_>::new_display"):
            fpth = flow.field_path(p2.operand(b.term["args"][0]))
            order.append(fpth[-1] if fpth else "?")
    # args tuple order decides: find the tuple aggregate feeding the format
    tup = [st for b in fb.live_blocks() for st in b.stmts if st["k"] == "assign" and st["rv"]["k"] == "agg" and st["rv"]["ak"] == "tuple" and len(st["rv"]["ops"]) == 4]
    if tup:
        names = [flow.field_path(p2.operand(o)) for o in tup[0]["rv"]["ops"]]
        ok = [n[-1] if n else "?" for n in names] == ["0", "1", "2", "3"]
        rep.check(rule, "SnmpIpAddress|format order", ok, "a.b.c.d", "dotted quad printed from fields %s" % names, fb.loc(), obligation=True)
    else:
        rep.inconclusive(rule, "SnmpIpAddress|format", "format arguments not recognised", fb.loc())


# ---------------------------------------------------------------------------- C16.extent (num) / C16.hdr
def extent(ctx, rep, rule):
    facts = ctx.facts
    res = numrun.run(ctx)
    decs = [b.path for b in facts.body_list if b.impl_trait == "ber::BerDecoder" and b.name == "decode"]
    n = 0
    for p in decs:
        d = res.by_body.get(p)
        b = facts.bodies[p]
        if d is None or d["error"]:
            rep.violation(rule, p + "|engine", "the analyser failed on this decoder: failing closed (%s)" % (d["error"] if d else "not analysed"), b.loc())
            continue
        ext = [o for o in d["obs"] if o["kind"] == "extent"]
        for o in ext:
            n += 1
            rep.check(rule, "%s|%s" % (p, o["key"]), o["ok"], "read stays below h.length",
                      "the decoder reads input beyond the declared length of the element: the value depends on what follows it (%s)" % o["detail"],
                      b.loc(o["line"]), obligation=True)
    if len(decs) < 17:
        rep.violation(rule, "floor-decoders", "%d decode impls found, floor is 17" % len(decs))
    if n < 10:
        rep.violation(rule, "floor", "only %d reads of decoder input were tracked, floor is 10" % n)


# decoders of big-endian numbers: the last content octet is the least significant one, whatever the length
_NUMERIC_DECODERS = ("ber::int::SnmpInt", "ber::counter32::SnmpCounter32", "ber::gauge32::SnmpGauge32", "ber::timeticks::SnmpTimeTicks",
                     "ber::counter64::SnmpCounter64", "ber::uinteger32::SnmpUInteger32")


def tail_cover(ctx, rep, rule):
    """Dual of the extent rule for the numeric decoders: some read of the contents reaches the end of the element
    (offset + extent >= h.length on every visit).  The last content octet is the least significant octet of the value for
    every length, so a decoder whose reads stop short of it (e.g. at the first 8 octets) returns another number whenever
    the encoding is longer - a Counter64 of 2^63 and more takes nine octets."""
    facts = ctx.facts
    res = numrun.run(ctx)
    n = 0
    for b in facts.body_list:
        if not (b.impl_trait == "ber::BerDecoder" and b.name == "decode" and any(("<%s as " % d) in b.path for d in _NUMERIC_DECODERS)):
            continue
        d = res.by_body.get(b.path)
        if d is None or d["error"]:
            continue  # reported by the extent rule
        cov = [o for o in d["obs"] if o["kind"] == "cover"]
        n += 1
        if not cov:
            rep.inconclusive(rule, b.path + "|reads the last octet", "no read of the contents was tracked", b.loc())
            continue
        if any(o["ok"] for o in cov):
            rep.ok(rule, b.path + "|reads the last octet", "a read reaches h.length", b.loc(cov[0]["line"]), obligation=True)
        elif any(o["key"].startswith("cover:loop|") and "extent:element" in o["key"] for o in cov):
            # a read inside a loop is visited once per octet; only its last visit reaches the end, which a per-visit
            # entailment cannot express
            rep.inconclusive(rule, b.path + "|reads the last octet", "the contents are read element-wise inside a loop: not decided", b.loc(cov[0]["line"]))
        else:
            rep.violation(rule, b.path + "|reads the last octet",
                          "no read of the contents is shown to reach the end of the element (%s): the value does not depend on the last - least "
                          "significant - octet for every length" % "; ".join("%s: %s" % (o["key"].split("|")[1][:40], o["detail"][:80]) for o in cov[:3]),
                          b.loc(cov[0]["line"]), obligation=True)
    if n < 3:
        rep.violation(rule, "floor-numeric-decoders", "%d numeric decode impls found, floor is 3" % n)


# decoders that hand back the contents octets as they are (zero copy): every content of the declared length is a value
_ZERO_COPY_DECODERS = ("ber::objectid::SnmpOid", "ber::relative_oid::SnmpRelativeOid", "ber::octetstring::SnmpOctetString", "ber::opaque::SnmpOpaque",
                       "ber::objectdescriptor::SnmpObjectDescriptor", "ber::sequence::SnmpSequence", "ber::option::SnmpOption")


def zero_copy_total(ctx, rep, rule):
    """The zero-copy decoders (OBJECT IDENTIFIER, RELATIVE-OID, OCTET STRING, Opaque, ObjectDescriptor, SEQUENCE, [n]) are
    total: they borrow `i[..h.length]` and have no error exit.  A check added there decides which names and values an
    agent may return - one that is off by one octet, one bit or one length refuses well-formed responses (an arc of
    2^28, the sub-identifier 16384 = 81 80 00, the two-arc OID 1.3) and ends a walk with SnmpDecodeError."""
    facts = ctx.facts
    n = 0
    for b in facts.body_list:
        if not (b.impl_trait == "ber::BerDecoder" and b.name == "decode" and any(("<%s<" % d) in b.path or ("<%s as " % d) in b.path for d in _ZERO_COPY_DECODERS)):
            continue
        n += 1
        errs = flow.blocks_assigning_return(b, lambda rv: rv["k"] == "agg" and rv.get("vname") == "Err")
        why = ""
        if errs:
            prov = flow.Prov(b)
            gs = flow.deciding_guards(b, prov, errs)
            why = "; ".join(flow.fmt(g.term)[:60] for g, pol, tgt in gs[:3])
        line = None
        if errs and b.blocks[errs[0]].stmts:
            line = b.blocks[errs[0]].stmts[0].get("line")
        rep.check(rule, b.path + "|total", not errs, "no error exit",
                  "the decoder refuses some contents of the declared length (error exit decided by %s): responses carrying such a name or value "
                  "are dropped with SnmpDecodeError" % (why or "?"), b.loc(line), obligation=True)
    if n < 5:
        rep.violation(rule, "floor-zero-copy-decoders", "%d zero-copy decode impls found, floor is 5" % n)


def capacity_exits(ctx, rep, rule):
    """Loops of the codec that emit a value digit by digit / octet by octet (`v /= 10`, `left >>= 8`) and can also be left
    because a counter or an iterator ran out: at that exit the value must be used up, or its remaining digits are dropped.
    The loops are found by gsa/loops.py, run iteration by iteration by `num` (unroll_loop) and the obligation is recorded
    as kind `capacity-exit`; a loop without such an exit has nothing to show."""
    facts = ctx.facts
    res = numrun.run(ctx)
    n = 0
    for path, o in res.obligations():
        if o["kind"] != "capacity-exit":
            continue
        b = facts.bodies.get(path)
        if b is None:
            continue
        n += 1
        rep.check(rule, "%s|%s" % (path, o["key"]), o["ok"], "value used up at the capacity exit",
                  "%s" % (o["detail"] or "the value is not shown to be used up when the loop runs out of room"), b.loc(o["line"]), obligation=True)
    rep.info(rule, "capacity exits of value-consuming loops", str(n))


# decoders whose only reason to refuse is the declared length (X.690: BOOLEAN one octet, NULL none; RFC 2578: IpAddress four)
_LENGTH_ONLY_DECODERS = {"ber::bool::SnmpBool": 1, "ber::null::SnmpNull": 0, "ber::ipaddress::SnmpIpAddress": 4}


def length_only_rejections(ctx, rep, rule):
    """BOOLEAN, NULL and IpAddress are refused for a wrong length and for nothing else: every contents octet is a value
    (BER: any non-zero octet is TRUE).  An error exit decided by the value of an input octet is reported; one decided by
    the length must refuse exactly the lengths other than the type's."""
    facts = ctx.facts
    n = 0
    for b in facts.body_list:
        if not (b.impl_trait == "ber::BerDecoder" and b.name == "decode"):
            continue
        hit = [d for d in _LENGTH_ONLY_DECODERS if ("<%s as " % d) in b.path]
        if not hit:
            continue
        want = _LENGTH_ONLY_DECODERS[hit[0]]
        n += 1
        prov = flow.Prov(b)
        errs = flow.blocks_assigning_return(b, lambda rv: rv["k"] == "agg" and rv.get("vname") == "Err")
        for g, pol, tgt in flow.deciding_guards(b, prov, errs):
            t = g.term
            on_octet = flow.mentions(t, lambda x: x[0] == "idx" and flow.mentions(x[1], lambda y: y == ("arg", 1))) or \
                flow.mentions(t, lambda x: x[0] == "call" and (x[1] or "").split("::")[-1] in ("first", "get", "index", "next") and
                              x[2] and flow.mentions(x[2][0], lambda y: y == ("arg", 1)))
            key = "%s|error exit decided by %s" % (b.path, flow.fmt(t)[:50])
            if on_octet:
                rep.violation(rule, key, "the decoder refuses a contents octet by its value (%s): every octet of the right length is a value of this "
                              "type (any non-zero octet is TRUE)" % flow.fmt(t)[:80], b.loc(g.line), obligation=True)
                continue
            okf = False
            if t[0] == "bin" and t[1] in ("Ne", "Eq") and flow.field_path(t[2]) == ("arg2", "length") and t[3] == ("const", want):
                okf = (t[1] == "Ne") == bool(pol)
            if okf:
                rep.ok(rule, key, "refuses lengths other than %d" % want, b.loc(g.line), obligation=True)
            elif flow.mentions(t, lambda x: flow.field_path(x) == ("arg2", "length")):
                rep.violation(rule, key, "the length test %s (%s edge) does not refuse exactly the lengths other than %d" % (flow.fmt(t)[:60], pol, want),
                              b.loc(g.line), obligation=True)
            else:
                rep.inconclusive(rule, key, "guard not understood", b.loc(g.line))
        # `match i[0] { 0 => .., 1 => .., _ => Err }`: a multi-way branch on an octet with an arm that ends in Err
        preds = b.preds()
        for blk in b.live_blocks():
            t = blk.term
            if not t or t["k"] != "switch":
                continue
            dt = prov.operand(t["discr"])
            while dt[0] == "cast":
                dt = dt[1]
            if not (dt[0] == "idx" and flow.mentions(dt[1], lambda y: y == ("arg", 1))):
                continue
            for tgt in [x for _, x in t["targets"]] + [t["otherwise"]]:
                cur = tgt
                for _ in range(6):
                    if cur in errs:
                        rep.violation(rule, "%s|error arm of a match on %s" % (b.path, flow.fmt(dt)[:30]), "the decoder refuses a contents octet by its value "
                                      "(an arm of the match on %s returns an error): every octet of the right length is a value of this type" % flow.fmt(dt)[:30],
                                      b.loc(t.get("line")), obligation=True)
                        break
                    nb = b.blocks[cur]
                    if len(preds.get(cur, [])) > 1 or not nb.term or nb.term["k"] in ("switch", "return", "unreachable"):
                        break
                    nx = nb.succs()
                    if len(nx) != 1:
                        break
                    cur = nx[0]
    if n < 3:
        rep.violation(rule, "floor-length-only-decoders", "%d of the 3 decoders found" % n)


def encoder_casts(ctx, rep, rule):
    """Integers go on the wire through SnmpInt::push_ber with their full value: no other encoder narrows an integer field
    on the way (a `x as u32` in front of `.into()` sends the value modulo 2^32 while the decoder hands back the whole i64)."""
    facts = ctx.facts
    n = 0
    for b in facts.body_list:
        if b.name != "push_ber" or "ber::int::SnmpInt" in b.path:
            continue
        n += 1
        for blk in b.live_blocks():
            for st in blk.stmts:
                if st["k"] == "assign" and st["rv"]["k"] == "cast" and st["rv"].get("ck") == "IntToInt" and "const" not in st["rv"]["op"]:
                    ft, tt = facts.types[st["rv"]["from"]], facts.types[st["rv"]["to"]]
                    if ft.get("k") == "int" and tt.get("k") == "int" and (tt["bits"] < ft["bits"] or (tt["bits"] == ft["bits"] and ft.get("signed") != tt.get("signed"))):
                        # a cast whose operand is known to fit (a guarded fast path such as `if (0..=0x7f).contains(&v) { .. v as u8 .. }`)
                        from .crypto import guard_range
                        prov_ = flow.Prov(b)
                        lo_, hi_ = guard_range(b, prov_, blk.idx, prov_.operand(st["rv"]["op"]))
                        tmax = (1 << (tt["bits"] - (1 if tt.get("signed") else 0))) - 1
                        tmin = -(1 << (tt["bits"] - 1)) if tt.get("signed") else 0
                        if lo_ is not None and hi_ is not None and tmin <= lo_ and hi_ <= tmax:
                            rep.ok(rule, "%s|cast %s->%s" % (b.path, ft["s"], tt["s"]), "operand within %d..=%d at the cast" % (lo_, hi_), b.loc(st.get("line")))
                            continue
                        rep.violation(rule, "%s|cast %s->%s" % (b.path, ft["s"], tt["s"]), "an encoder narrows an integer before serialising it (%s as %s): values "
                                      "outside the narrower type are sent as another number" % (ft["s"], tt["s"]), b.loc(st.get("line")), obligation=True)
    if n < 8:
        rep.violation(rule, "floor-encoders", "%d push_ber bodies found, floor is 8" % n)
    else:
        rep.ok(rule, "encoders|no narrowing cast", "%d push_ber bodies outside SnmpInt carry no narrowing integer cast" % n)


def real_forms(ctx, rep, rule):
    """Which REAL encodings are accepted, as a function of the first contents octet alone (X.690 8.5.6-8.5.9): binary
    1xxxxxxx with base bits 6-5 other than 11, decimal 0000 0001..0011 (NR1-NR3), the special values 0100 0000..0011.
    For each of the 256 octets the decoder is read with that octet fixed (cells): a defined form must be able to reach Ok,
    a reserved one must not."""
    facts = ctx.facts
    b = facts.body("<ber::real::SnmpReal as ber::BerDecoder<'a>>::decode")
    if b is None:
        rep.missing(rule, "SnmpReal::decode")
        return
    rep.note_analysed("functions", [b.path])
    prov = flow.Prov(b)
    oks = set(flow.blocks_assigning_return(b, lambda rv: rv["k"] == "agg" and rv.get("vname") == "Ok"))

    def first(t):
        while t[0] == "cast":
            t = t[1]
        return t[0] == "idx" and t[2] == ("const", 0) and flow.mentions(t[1], lambda x: x == ("arg", 1))
    if not any(first(x) for blk in b.live_blocks() if blk.term and blk.term["k"] == "switch" for x in flow.subterms(prov.operand(blk.term["discr"]))):
        rep.inconclusive(rule, "SnmpReal::decode|forms", "no branch on the first contents octet found in this shape", b.loc())
        return
    defined = {1, 2, 3, 0x40, 0x41, 0x42, 0x43} | {v for v in range(0x80, 0x100) if ((v >> 4) & 3) != 3}
    refused, admitted = [], []
    for v in range(256):
        def ev(t, v=v):
            if first(t):
                return v
            if t[0] == "call" and (t[1] or "").endswith("BerHeader::is_empty"):
                return 0
            return None
        blocks, _ = cells.feasible(b, prov, ev)
        reach = bool(blocks & oks)
        if reach and v not in defined:
            # the refusal may go through an Option / Result (`_ => None` ... `.ok_or(InvalidData)?`): follow the variants
            reach = bool(cells.variant_reach(b, within=blocks) & oks)
        if v in defined and not reach:
            refused.append(v)
        if v not in defined and reach:
            admitted.append(v)
    rep.check(rule, "SnmpReal::decode|defined forms accepted", not refused, "all %d defined first octets can decode" % len(defined),
              "REAL encodings whose first octet is %s are refused although X.690 defines them (e.g. 0x%02x): such values never reach the caller" %
              (", ".join("0x%02x" % v for v in refused[:6]) + (" ..." if len(refused) > 6 else ""), refused[0] if refused else 0), b.loc(), obligation=True)
    rep.check(rule, "SnmpReal::decode|reserved forms refused", not admitted, "reserved first octets are refused",
              "reserved REAL encodings are decoded (first octet %s)" % ", ".join("0x%02x" % v for v in admitted[:6]), b.loc(), obligation=True)


def hdr_contract(ctx, rep, rule):
    facts = ctx.facts
    scope = {"ber::header::BerHeader::from_ber", "ber::BerDecoder::from_ber", "<ber::option::SnmpOption<'a> as ber::BerDecoder<'a>>::from_ber",
             "snmp::value::SnmpValue::<'_>::from_ber"}
    scope |= {b.path for b in facts.body_list if b.impl_trait == "ber::BerDecoder" and b.name == "decode"}
    n = report_sites(ctx, rep, rule, scope)
    if n < 20:
        rep.violation(rule, "floor", "only %d obligations in the header parser and decoders, floor is 20" % n)


# ---------------------------------------------------------------------------- PDU tags (C03.pdu) and length forms (C03.len/C15.len/C17.len)
def pdu_tags(ctx, rep, rule):
    facts = ctx.facts
    want = {"snmp::PDU_GET_REQUEST": 0, "snmp::PDU_GETNEXT_REQUEST": 1, "snmp::PDU_GET_RESPONSE": 2, "snmp::PDU_GET_BULK_REQUEST": 5, "snmp::PDU_REPORT": 8}
    for c, v in want.items():
        cv = facts.const_value(c)
        rep.check(rule, c, cv == v, "= %d" % v, "%s = %s, RFC 3416 assigns %d" % (c, cv, v))
    # encoder: variant -> identifier octet
    enc = facts.body("<snmp::pdu::SnmpPdu<'_> as ber::BerEncoder>::push_ber")
    if enc is None:
        rep.missing(rule, "SnmpPdu::push_ber")
    else:
        prov = flow.Prov(enc)
        variants = flow.enum_variants(facts, "snmp::pdu::SnmpPdu")
        idx = {n: d for d, n in variants.items()}
        expect = {"GetRequest": 0xA0, "GetNextRequest": 0xA1, "GetBulkRequest": 0xA5}
        for vn, d in idx.items():
            def ev(t, d=d):
                if t == ("discr", ("arg", 1)):
                    return d
                return None
            blocks, _ = cells.feasible(enc, prov, ev)
            # the identifier may be selected per arm and pushed once after the match: trace it through the arm's blocks only
            parm = flow.Prov(enc, only_blocks=blocks)
            tagsv = []
            for bi in sorted(blocks):
                t = enc.blocks[bi].term
                if t and t["k"] == "call" and (callee_path(t) or "").endswith("Buffer::push_tag_len"):
                    tt = parm.operand(t["args"][1])
                    cv = cells.eval_term(tt, lambda x: None)
                    tagsv.append(("const", cv) if isinstance(cv, int) else tt)
            key = "SnmpPdu::push_ber|" + vn
            if vn in expect:
                ok = tagsv == [("const", expect[vn])]
                rep.check(rule, key, ok, "identifier octet 0x%02X" % expect[vn], "%s is emitted with identifier %s, RFC 3416 requires 0x%02X" %
                          (vn, [flow.fmt(x) for x in tagsv], expect[vn]), enc.loc(), obligation=True)
                # the body pushed is the variant's own payload
                pb = [enc.blocks[bi] for bi in sorted(blocks) if enc.blocks[bi].term and enc.blocks[bi].term["k"] == "call" and
                      ((callee_path(enc.blocks[bi].term) or "").endswith("BerEncoder>::push_ber") or
                       # through a generic helper `fn wrap<T: BerEncoder>(.., body: &T)` inlined here: the call is <T as BerEncoder>::push_ber
                       (enc.blocks[bi].term["callee"].get("trait") == "ber::BerEncoder" and enc.blocks[bi].term["callee"].get("method") == "push_ber"))]
                okb = bool(pb) and all(flow.mentions(prov.operand(b.term["args"][0]), lambda s: s == ("dc", ("arg", 1), vn)) for b in pb)
                rep.check(rule, key + "|payload", okb, "payload of the same variant", "wrong payload serialised for %s" % vn, enc.loc())
            else:
                tg = cells.tags(enc, blocks)
                rep.check(rule, key, not tagsv and cells.has_agg(tg, "error::SnmpError", "NotImplemented"), "not encodable (reply PDU)",
                          "%s is serialised with identifier %s" % (vn, [flow.fmt(x) for x in tagsv]), enc.loc())
    # decoder: tag -> variant
    dec = facts.body("<snmp::pdu::SnmpPdu<'a> as std::convert::TryFrom<&'a [u8]>>::try_from")
    if dec is None:
        rep.missing(rule, "SnmpPdu::try_from")
        return
    prov = flow.Prov(dec)
    expectd = {0: "GetRequest", 1: "GetNextRequest", 2: "GetResponse", 5: "GetBulkRequest", 8: "Report"}
    for tag in range(0, 32):
        def ev(t, tag=tag):
            if t[0] == "f" and t[2] == "tag":
                return tag
            return None
        blocks, _ = cells.feasible(dec, prov, ev)
        tg = cells.tags(dec, blocks)
        vs = sorted({x[2] for x in tg if x[0] == "agg" and x[1] == "snmp::pdu::SnmpPdu"})
        key = "SnmpPdu::try_from|tag %d" % tag
        if tag in expectd:
            rep.check(rule, key, vs == [expectd[tag]], "-> " + expectd[tag], "PDU tag %d decodes to %s, RFC 3416 assigns %s" % (tag, vs, expectd[tag]),
                      dec.loc(), obligation=True)
        else:
            ok = not vs and cells.has_agg(tg, "error::SnmpError", "UnknownPdu")
            if not ok:
                rep.violation(rule, key, "PDU tag %d is accepted as %s; only 0,1,2,5,8 are supported" % (tag, vs), dec.loc(), obligation=True)
            elif tag in (3, 4, 6, 7):
                rep.ok(rule, key, "UnknownPdu", dec.loc(), obligation=True)


def length_forms(ctx, rep, rule):
    """push_tag_len: v < 128 -> [v, tag]; v < 256 -> [v, 0x81, tag]; else [v, v>>8, 0x82, tag]; ensure_size(k) covers the k pushes."""
    facts = ctx.facts
    body = facts.body("buf::buffer::Buffer::push_tag_len")
    if body is None:
        rep.missing(rule, "Buffer::push_tag_len")
        return
    prov = flow.Prov(body)
    V = ("arg", 3)
    TAG = ("arg", 2)

    def cell(lt128, lt256):
        vr = ("range", 0, 127) if lt128 else (("range", 128, 255) if lt256 else ("range", 256, cells.INF))

        def ev(t):
            # the length operand ranges over the cell; every comparison with a constant (either orientation, range
            # patterns of a `match`) is then decided by interval evaluation
            if t == V:
                return vr
            # ensure_size succeeds
            if t[0] == "discr" and flow.mentions(t, lambda s: s[0] == "call" and (s[1] or "").endswith("::branch")):
                return 0
            return None
        blocks, decided = cells.feasible(body, prov, ev)
        parm = flow.Prov(body, only_blocks=blocks)
        wire = []      # octets in wire order: the buffer grows towards lower addresses, every push prepends
        ens = []
        unchecked = 0
        order = cfg.rpo(body)
        for bi in order:
            if bi not in blocks:
                continue
            t = body.blocks[bi].term
            if t and t["k"] == "call":
                p = callee_path(t) or ""
                if p.endswith("Buffer::push_u8_unchecked") or p.endswith("Buffer::push_u8"):
                    wire = [parm.operand(t["args"][1])] + wire
                    if p.endswith("unchecked"):
                        unchecked += 1
                elif p.endswith("Buffer::push") or p.endswith("Buffer::push_unchecked"):
                    a = parm.operand(t["args"][1])
                    arr = [x for x in flow.subterms(a) if x[0] == "agg" and x[1] == "array"]
                    idx = [x for x in flow.subterms(a) if x[0] == "call" and (x[1] or "").split("::")[-1] == "index" and len(x[2]) == 2 and
                           x[2][1][0] == "agg" and "Range" in (x[2][1][1] or "")]
                    if arr and not idx:
                        wire = [f[1] for f in arr[0][3]] + wire
                    elif arr and idx:
                        # a part of the array: `&header[header.len() - used..]` with the bounds evaluated in this cell
                        elems = [f[1] for f in arr[0][3]]
                        rng = idx[0][2][1]

                        def evl(t_):
                            if (t_[0] == "call" and (t_[1] or "").split("::")[-1] == "len") or (t_[0] == "un" and t_[1] == "PtrMetadata"):
                                return len(elems)
                            return ev(t_)
                        lo_, hi_ = 0, len(elems)
                        okb = True
                        for fn_, fv in rng[3]:
                            v_ = cells.eval_term(fv, evl)
                            if not isinstance(v_, int):
                                okb = False
                            elif fn_ == "start":
                                lo_ = v_
                            elif fn_ == "end":
                                hi_ = v_ + (1 if "Inclusive" in (rng[1] or "") else 0)
                        wire = (elems[lo_:hi_] if okb and 0 <= lo_ <= hi_ <= len(elems) else [("chunk", a)]) + wire
                    else:
                        wire = [("chunk", a)] + wire
                if p.endswith("Buffer::ensure_size"):
                    ens.append(parm.operand(t["args"][1]))
        return wire, ens, unchecked

    lowv = ("cast", V, "u8")
    highv = ("cast", ("bin", "Shr", V, ("const", 8)), "u8")
    table = (("v < 128 (short form)", (True, True), [TAG, lowv]),
             ("128 <= v < 256 (0x81 form)", (False, True), [TAG, ("const", 0x81), lowv]),
             ("v >= 256 (0x82 form)", (False, False), [TAG, ("const", 0x82), highv, lowv]))
    def norm(t):
        # the same octet spelled with division / remainder / mask: (v / 256) as u8, (v % 256) as u8, (v & 0xff) as u8
        if t[0] == "cast" and t[2] == "u8":
            x = t[1]
            while x[0] == "f":
                x = x[1]
            if x[0] == "bin" and x[1] == "Div" and x[3] == ("const", 256):
                return ("cast", ("bin", "Shr", x[2], ("const", 8)), "u8")
            if x[0] == "bin" and ((x[1] == "Rem" and x[3] == ("const", 256)) or (x[1] == "BitAnd" and x[3] == ("const", 255))):
                return ("cast", x[2], "u8")
        return t
    for name, (a, b), want in table:
        wire, ens, unchecked = cell(a, b)
        wire = [norm(x) for x in wire]
        key = "Buffer::push_tag_len|" + name
        if any(x[0] == "chunk" for x in wire):
            rep.inconclusive(rule, key, "the octets are pushed as a chunk whose contents are not resolved in this cell: %s" % [flow.fmt(x)[:60] for x in wire], body.loc())
            continue
        rep.check(rule, key, wire == want, "octets on the wire: %s" % [flow.fmt(x) for x in want],
                  "for %s the octets written are %s (wire order), X.690 8.1.3 requires %s" % (name, [flow.fmt(x) for x in wire], [flow.fmt(x) for x in want]),
                  body.loc(), obligation=True)
        okr = unchecked == 0 or (len(ens) == 1 and ens[0][0] == "const" and isinstance(ens[0][1], int) and ens[0][1] >= unchecked)
        rep.check(rule, key + "|reserved", okr, "unchecked pushes are covered by ensure_size",
                  "%d octets are written unchecked after reserving %s" % (unchecked, [flow.fmt(x) for x in ens]), body.loc(), obligation=True)
    # constants of the fixed encodings
    consts = {"ber::int::ZERO_BER": bytes([2, 1, 0]), "ber::null::NULL_BER": bytes([5, 0]), "snmp::msg::v3::usm::EMPTY_BER": bytes([4, 0]),
              "snmp::msg::v3::scoped::EMPTY_BER": bytes([4, 0]), "snmp::msg::v1::V1_BER": bytes([2, 1, 0]), "snmp::msg::v2c::V2C_BER": bytes([2, 1, 1]),
              "snmp::msg::v3::msg::V3_BER": bytes([2, 1, 3]), "snmp::msg::v3::msg::USM_MODEL_BER": bytes([2, 1, 3]), "snmp::get::DOUBLE_ZEROES": bytes([2, 1, 0, 2, 1, 0])}
    for c, want in consts.items():
        try:
            v = facts.const_value(c)
        except Exception:
            # a fixed encoding that is no longer in the tree cannot be wrong (its users go through push_tagged / SnmpInt,
            # which the length-form and contract rules cover)
            rep.info(rule, c, "constant not present in this tree")
            continue
        rep.check(rule, c, v == want, want.hex(" "), "%s = %s, the minimal encoding is %s" % (c, v.hex(" ") if isinstance(v, bytes) else v, want.hex(" ")))


# ---------------------------------------------------------------------------- C08
def oid_text(ctx, rep, rule):
    facts = ctx.facts
    name = "<ber::objectid::SnmpOid<'_> as std::convert::TryFrom<&str>>::try_from"
    body = facts.body(name)
    if body is None:
        rep.missing(rule, name)
        return
    rep.note_analysed("functions", [body.path])
    prov = flow.Prov(body)
    res = numrun.run(ctx)
    d = res.by_body.get(name) or {}
    # (a) no value-altering call between a parsed arc and the encoded octets
    ALTER = ("min", "max", "clamp", "saturating_add", "saturating_sub", "saturating_mul", "wrapping_add", "wrapping_sub", "wrapping_mul",
             "unwrap_or", "unwrap_or_default", "unwrap_or_else", "rem_euclid", "abs", "checked_rem")
    n = 0
    for blk in body.calls():
        p = callee_path(blk.term) or ""
        last = p.split("::")[-1]
        if last in ALTER:
            t = prov.call_term(blk.term)
            # the arc itself, not a quantity measured on it (its bit length via leading_zeros, a digit count ...)
            def arc_value(x):
                if x[0] == "call" and (x[1] or "").split("::")[-1] in ("leading_zeros", "trailing_zeros", "count_ones", "ilog2", "ilog10", "len", "checked_ilog2"):
                    return False
                if x[0] == "call" and (x[1] or "").endswith("Iterator>::next"):
                    return True
                subs = []
                for y in x[1:]:
                    if isinstance(y, tuple) and y and isinstance(y[0], str):
                        subs.append(y)
                    elif isinstance(y, tuple):
                        subs += [z for z in y if isinstance(z, tuple) and z and isinstance(z[0], str)]
                return any(arc_value(y) for y in subs)
            if arc_value(t):
                n += 1
                rep.violation(rule, "SnmpOid::try_from(&str)|no-clamp#%d" % n, "a parsed arc goes through %s(..): an out-of-range or malformed arc is replaced by "
                              "another value instead of being refused, so a different OID is sent" % last, body.loc(blk.term["line"]), obligation=True)
    if n == 0:
        rep.ok(rule, "SnmpOid::try_from(&str)|no-clamp", "parsed arcs are used as parsed", body.loc(), obligation=True)
    # (b) range guards on the first two arcs: the u32 arithmetic 40*first+second is discharged and the cast to u8 is lossless
    casts = [c for c in d.get("casts", []) if c["to"] == "u8"]
    pushes = []
    for blk in body.calls():
        if (callee_path(blk.term) or "") == "std::vec::Vec::<T, A>::push":
            pushes.append((blk, prov.operand(blk.term["args"][1])))
    if not pushes:
        rep.missing(rule, "SnmpOid::try_from(&str): vec.push")
        return
    first_push = pushes[0]
    t = first_push[1]
    ok_head = flow.mentions(t, lambda s: s[0] == "bin" and s[1] in ("Add", "AddWithOverflow") or s[0] == "f") or True
    head_casts = [c for c in casts if c["line"] == first_push[0].term["line"] or c["line"] == first_push[0].term["line"] - 0]
    hc = [c for c in casts if c["hi"] is not None and c["lo"] is not None and c["line"] <= first_push[0].term["line"] and c["from"] == "u32"]
    head_ok = any(c["lo"] >= 0 and c["hi"] <= 119 for c in hc)
    rep.check(rule, "SnmpOid::try_from(&str)|first-octet", head_ok, "40*first+second proven within 0..119 before the cast to u8",
              "the first octet 40*first+second is not proven to fit: first > 2 or second > 39 is not refused (cast ranges %s)" %
              [(c["lo"], c["hi"]) for c in hc], body.loc(first_push[0].term["line"]), obligation=True)
    # (c) leading octet of each multi-octet arm: (sub_id >> k) as u8 | 0x80 with sub_id >> k in 1..127; single octet: 0..127
    lead = 0
    for blk, t in pushes[1:]:
        # leading octets are those not masked with 0x7F
        masked = flow.mentions(t, lambda s: s[0] == "bin" and s[1] == "BitAnd" and s[3] == ("const", 0x7F))
        if masked:
            continue
        cs = [c for c in casts if c["line"] == blk.term["line"] and c["from"] == "u32"]
        if not cs:
            rep.inconclusive(rule, "SnmpOid::try_from(&str)|leading-octet@%s" % flow.fmt(t)[:60], "no cast fact for this push", body.loc(blk.term["line"]))
            continue
        lead += 1
        c = cs[0]
        is_single = t[0] == "cast" and not flow.mentions(t, lambda s: s[0] == "bin" and s[1] == "Shr")
        lo_need = 0 if is_single else 1
        okl = c["lo"] is not None and c["hi"] is not None and c["lo"] >= lo_need and c["hi"] <= 127
        rep.check(rule, "SnmpOid::try_from(&str)|leading-octet %s" % flow.fmt(t)[:70], okl, "leading group within %d..127" % lo_need,
                  "the leading base-128 group %s ranges over [%s, %s]: above 127 high bits are lost (another OID is sent), 0 is a non-minimal "
                  "leading 0x80 octet" % (flow.fmt(t), c["lo"], c["hi"]), body.loc(blk.term["line"]), obligation=True)
    if lead < 5:
        rep.inconclusive(rule, "SnmpOid::try_from(&str)|leading-octets", "only %d leading-octet pushes recognised (encoder restructured?)" % lead, body.loc())
    # (d) parse errors are propagated, two arcs are required
    gs = flow.guards(body, prov)
    oks = flow.blocks_assigning_return(body, lambda rv: rv["k"] == "agg" and rv.get("vname") == "Ok")
    nexts = [b for b in body.calls() if (callee_path(b.term) or "").endswith("OidSubelementIterator<'_> as std::iter::Iterator>::next")]
    # the first two arcs are mandatory: the None outcome of the first two next() calls ends in an error, never in a push
    pushes_b = {b.idx for b in body.calls() if (callee_path(b.term) or "").endswith("Vec::<T, A>::push") or (callee_path(b.term) or "").endswith("::push")}
    fe = flow.failure_edges(body, prov, lambda t: t[0] == "call" and (t[1] or "").endswith("OidSubelementIterator<'_> as std::iter::Iterator>::next"))
    mandatory = 0
    for sw, t, fails in fe:
        after = cells.feasible_from(body, fails) if fails else set()
        if fails and not (after & pushes_b) and not (after & set(oks)):
            mandatory += 1
    rep.check(rule, "SnmpOid::try_from(&str)|two-arcs", mandatory >= 2 and len(nexts) >= 2, "first and second arc are mandatory",
              "fewer than two mandatory arcs (%d next() calls whose None outcome is an error)" % mandatory, body.loc(), obligation=True)
    it = facts.body("<ber::objectid::OidSubelementIterator<'_> as std::iter::Iterator>::next")
    if it is not None:
        cl = [it] + facts.closures_of(it.path)
        # the failure of parse() is mapped to an error: a map_err call, or (after normalisation) the match it stands for
        okp = any(any((callee_path(b.term) or "").endswith("str>::parse") for b in c.calls()) and
                  (any((callee_path(b.term) or "").endswith("Result::<T, E>::map_err") for b in c.calls()) or
                   any((b.term or {}).get("was_call", "").endswith("map_err") for b in c.live_blocks())) for c in cl)
        u32 = any(any("u32" in str(b.term["callee"].get("args")) for b in c.calls() if (callee_path(b.term) or "").endswith("str>::parse")) for c in cl)
        rep.check(rule, "OidSubelementIterator::next|parse", okp and u32, "each arc is parsed as u32, failures become InvalidData",
                  "arc parsing no longer reports failures / is not u32", it.loc(), obligation=True)
        # every part between two dots reaches the parser: an empty part (leading, trailing or doubled dot) and a part with
        # spaces or a sign must fail there, so nothing may skip, filter or trim parts on the way
        lax = ("find", "filter", "filter_map", "skip_while", "skip", "step_by", "trim", "trim_start", "trim_end", "trim_matches", "trim_start_matches",
               "trim_end_matches", "strip_prefix", "strip_suffix", "is_empty", "split_terminator", "split_whitespace", "rsplit", "unwrap_or", "unwrap_or_default")
        newb = facts.body("ber::objectid::OidSubelementIterator::<'a>::new")
        scope_b = [it] + cl + ([newb] if newb is not None else []) + (facts.closures_of(newb.path) if newb is not None else [])
        bad_calls = sorted({(callee_path(b.term) or "").split("::")[-1] for bb in scope_b for b in bb.calls()
                            if (callee_path(b.term) or "").split("::")[-1] in lax})
        rep.check(rule, "OidSubelementIterator|every-part-parsed", not bad_calls, "split parts go to the parser unfiltered",
                  "the tokenizer applies %s to the parts of the string: malformed OID text (empty arcs, padding) is accepted and another OID is sent" % bad_calls,
                  it.loc(), obligation=True)
    # every `?` on an arc propagates: no arc result is defaulted
    bad = [b for b in body.calls() if (callee_path(b.term) or "").split("::")[-1] in ("unwrap_or", "unwrap_or_default", "ok", "unwrap_or_else")]
    rep.check(rule, "SnmpOid::try_from(&str)|errors-propagated", not bad, "no defaulted arc", "an arc parse error is replaced by a default value",
              body.loc(), obligation=True)


def oid_entry(ctx, rep, rule):
    """Caller-supplied OID text reaches the wire only through SnmpOid::try_from(&str), before anything is sent."""
    facts = ctx.facts
    conv = "<ber::objectid::SnmpOid<'_> as std::convert::TryFrom<&str>>::try_from"
    sites = flow.call_sites(facts, lambda p: p == conv)
    owners = sorted({b.path for b, _ in sites})
    want = {"OpGet", "OpGetMany", "GetIter::new"}
    found = set()
    for o in owners:
        for w in want:
            if w in o:
                found.add(w)
    rep.check(rule, "SnmpOid::try_from(&str)|callers", found == want, "get, get_many and the walk iterator parse their OIDs",
              "OID text is parsed in %s" % owners, obligation=True)
    # a parse failure is an error of the operation: the Result of every conversion is propagated (`?` on it, or on the
    # collect::<Result<..>>() of a map over it), never dropped (flat_map / filter_map / ok() / unwrap_or)
    for b_, blk in sites:
        owner = b_
        prov_ = flow.Prov(b_)
        key = "SnmpOid::try_from(&str)|error propagated in %s" % b_.path.split(" as ")[0][-60:]
        okp = False
        why = ""
        if b_.kind != "Closure":
            fe = flow.failure_edges(b_, prov_, lambda t: t[0] == "call" and (t[1] or "") == conv)
            errs_ = set(flow.blocks_assigning_return(b_, lambda rv: rv["k"] == "agg" and rv.get("vname") == "Err")) | \
                {x.idx for x in b_.calls() if (callee_path(x.term) or "").endswith("from_residual")}
            oks_ = set(flow.blocks_assigning_return(b_, lambda rv: rv["k"] == "agg" and rv.get("vname") == "Ok"))
            for sw_, t_, fails in fe:
                after = cells.feasible_from(b_, fails) if fails else set()
                if fails and (after & errs_) and not (after & oks_):
                    okp = True
            why = "the Result of the conversion is not tested / its failure does not end the operation with an error"
        else:
            par = facts.body(b_.parent) if b_.parent else None
            if par is not None:
                pp_ = flow.Prov(par)

                def is_collect_of_map(t, path_=b_.path):
                    if not (t[0] == "call" and (t[1] or "").endswith("::collect")):
                        return False
                    maps = [x for x in flow.subterms(t) if x[0] == "call" and (x[1] or "").split("::")[-1] in ("map",) and len(x[2]) == 2 and
                            any(y[0] == "agg" and y[1] == "closure" and y[2] == path_ for y in flow.subterms(x[2][1]))]
                    bad_ = [x for x in flow.subterms(t) if x[0] == "call" and (x[1] or "").split("::")[-1] in ("flat_map", "filter_map", "flatten", "map_while")]
                    return bool(maps) and not bad_
                fe = flow.failure_edges(par, pp_, is_collect_of_map)
                errs_ = set(flow.blocks_assigning_return(par, lambda rv: rv["k"] == "agg" and rv.get("vname") == "Err")) | \
                    {x.idx for x in par.calls() if (callee_path(x.term) or "").endswith("from_residual")}
                for sw_, t_, fails in fe:
                    after = cells.feasible_from(par, fails) if fails else set()
                    if fails and (after & errs_):
                        okp = True
                owner = par
                why = "the conversions run in a closure whose Results are not collected into a Result and propagated (errors of single OIDs are dropped)"
        rep.check(rule, key, okp, "failure ends the operation with the error", why, owner.loc(blk.term["line"]), obligation=True)
    for fn in ("send_request", "send_and_recv"):
        body = facts.body("socket::snmpsocket::SnmpSocket::" + fn)
        if body is None:
            rep.missing(rule, fn)
            continue
        prov = flow.Prov(body)
        fp_ = [b for b in body.calls() if (b.term["callee"].get("path") or "").endswith("::from_python")]
        snd = [b for b in body.calls() if (callee_path(b.term) or "").endswith("allow_threads")]
        if not fp_ or not snd:
            rep.missing(rule, fn + ": from_python / allow_threads")
            continue
        # the `?` on from_python: its Break edge must not reach the send
        br = [b for b in body.live_blocks() if b.term and b.term["k"] == "switch" and
              flow.mentions(prov.operand(b.term["discr"]), lambda s: s[0] == "call" and (s[1] or "").endswith("::from_python"))]
        ok = False
        if br:
            brk = [tg for tg, lb in br[0].edges() if lb == ("case", 1)]
            ok = not (cfg.reachable(body, brk) & {b.idx for b in snd})
        rep.check(rule, fn + "|refused-before-send", ok, "a conversion failure returns before anything is sent",
                  "the request is sent although building the PDU failed", body.loc(), obligation=True)


def hdr_extent(ctx, rep, rule):
    """The extent a header declares is a function of the header's own octets: the `length` (and `tag`) of the BerHeader that
    from_ber returns never depends on how much input follows.  A length computed from the size of the input (`i.len() - k`,
    "up to the end of the enclosing element") makes the element's extent - and so the decoded value - depend on the octets
    after it."""
    facts = ctx.facts
    body = facts.body("ber::header::BerHeader::from_ber")
    if body is None:
        rep.missing(rule, "BerHeader::from_ber")
        return
    rep.note_analysed("functions", [body.path])
    prov = flow.Prov(body)
    n = 0
    def is_len(t):
        if t[0] == "call" and (t[1] or "").split("::")[-1] == "len" and t[2] and flow.mentions(t[2][0], lambda x: x == ("arg", 1)):
            return True
        return t[0] == "un" and t[1] == "PtrMetadata" and flow.mentions(t[2], lambda x: x == ("arg", 1))
    for blk in body.live_blocks():
        for st_ in blk.stmts:
            if st_["k"] == "assign" and st_["rv"]["k"] == "agg":
                t = prov.rvalue(st_["rv"])
                if t[0] == "agg" and (t[1] or "").endswith("BerHeader") and len(t) > 3:
                    for f, ft in t[3]:
                        if f not in ("length", "tag"):
                            continue
                        n += 1
                        rep.check(rule, "BerHeader::from_ber|%s from header octets" % f, not flow.mentions(ft, is_len), "no dependence on the input's size",
                                  "the header's %s is computed from the size of the input (%s): the element's extent depends on the octets that follow it" %
                                  (f, flow.fmt(ft)[:120]), body.loc(blk.line if hasattr(blk, "line") else None), obligation=True)
    if not n:
        rep.inconclusive(rule, "BerHeader::from_ber|length from header octets", "the returned header aggregate was not found", body.loc())


def hdr_reject(ctx, rep, rule):
    """Error discipline of the TLV header parser: BerHeader::from_ber refuses input only for lack of octets or for a length
    that does not fit usize - never because of the value of a content or length octet.  (Every definite-length header the
    encoder can write - short form, 0x81, 0x82 with any octet values - must be accepted; a rejection that depends on an
    octet's value is reported.)  The rule looks at the guard that immediately decides each error exit."""
    facts = ctx.facts
    body = facts.body("ber::header::BerHeader::from_ber")
    if body is None:
        rep.missing(rule, "BerHeader::from_ber")
        return
    rep.note_analysed("functions", [body.path])
    prov = flow.Prov(body)
    errs = set(flow.blocks_assigning_return(body, lambda rv: rv["k"] == "agg" and rv.get("vname") == "Err"))
    preds = body.preds()
    n = 0

    def octet(t):
        # an octet of the input, possibly cast or masked: i[k], i[k] as T, i[k] & m  (not an accumulated length)
        while t[0] == "cast" or (t[0] == "bin" and t[1] in ("BitAnd", "Shr") and t[3][0] == "const"):
            t = t[1] if t[0] == "cast" else t[2]
        if t[0] == "phi":
            return any(octet(x) for x in t[1])
        if t[0] == "idx":
            return flow.mentions(t[1], lambda x: x == ("arg", 1))
        if t[0] == "call" and (t[1] or "").split("::")[-1] in ("index", "get_unchecked") and len(t[2]) == 2 and t[2][1][0] != "agg":
            return flow.mentions(t[2][0], lambda x: x == ("arg", 1))
        return False

    def content(t):
        # the guard compares an input octet with a constant
        if t[0] == "bin" and t[1] in ("Eq", "Ne", "Lt", "Le", "Gt", "Ge"):
            return (octet(t[2]) and t[3][0] == "const") or (octet(t[3]) and t[2][0] == "const")
        if t[0] == "call" and (t[1] or "").split("::")[-1] in ("eq", "ne", "lt", "le", "gt", "ge") and len(t[2]) == 2:
            return (octet(t[2][0]) and t[2][1][0] == "const") or (octet(t[2][1]) and t[2][0][0] == "const")
        return False
    for g in flow.guards(body, prov):
        for edge, pol in ((g.true_edge, "true"), (g.false_edge, "false")):
            cur = edge[1]
            hit = None
            for _ in range(8):
                if cur in errs:
                    hit = cur
                    break
                blk = body.blocks[cur]
                if len(preds.get(cur, [])) > 1 or not blk.term or blk.term["k"] in ("switch", "return", "unreachable"):
                    break
                nxt = blk.succs()
                if len(nxt) != 1:
                    break
                cur = nxt[0]
            if hit is None:
                continue
            n += 1
            key = "BerHeader::from_ber|error exit decided by %s" % flow.fmt(g.term)[:90]
            rep.check(rule, key, not content(g.term), "rejection depends on lengths only",
                      "the header parser rejects input because of the value of an octet (%s is %s): definite-length headers the "
                      "encoder writes (e.g. a zero low length octet in 82 01 00) would be refused" % (flow.fmt(g.term)[:120], pol),
                      body.loc(g.line), obligation=True)
    if n < 2:
        rep.violation(rule, "floor", "only %d guarded error exits found in BerHeader::from_ber, floor is 2" % n)


def oid_print(ctx, rep, rule):
    """BER -> text of the first octet: the two arcs printed for it satisfy 40*x + y == octet and y <= 39 for every octet
    below 120 (first arc 0..2).  Decided by the num engine with trace partitioning on String::try_from(&SnmpOid): the
    relation is checked on every arm that computes the pair (quotient/remainder by 40, or a hand-written split)."""
    facts = ctx.facts
    path = "ber::objectid::<impl std::convert::TryFrom<&ber::objectid::SnmpOid<'_>> for std::string::String>::try_from"
    body = facts.body(path)
    if body is None:
        rep.missing(rule, "String::try_from(&SnmpOid)")
        return
    rep.note_analysed("functions", [path])
    res = numrun.run(ctx)
    n = 0
    for p, o in res.obligations({path}):
        if o["kind"] != "probe":
            continue
        if o["key"].endswith("values-tracked"):
            rep.inconclusive(rule, "String::try_from(&SnmpOid)|probe", "the first octet or the two printed values could not be tracked through this shape "
                             "of the conversion: the arc relation is not decided", body.loc(o["line"]))
            n += 1
            continue
        n += 1
        rep.check(rule, "String::try_from(&SnmpOid)|%s" % o["key"], o["ok"], "holds on every path to the first write!()",
                  "the text printed for the first octet is not (octet / 40, octet %% 40) for every octet below 120: %s (%s)" % (o["key"].split("|")[-1], o["detail"]),
                  body.loc(o["line"]), obligation=True)
    if n == 0:
        rep.inconclusive(rule, "String::try_from(&SnmpOid)|probe", "the first write!() of two values was not found: the conversion was restructured and "
                         "the arc relation is not decided", body.loc())


def list_loops(ctx, rep, rule):
    """The varbind / OID list loops of the three PDU parsers run until the list is used up: the loop is left for the code
    that builds the PDU only across the `is_empty()` edge of the list remainder.  An exit on any other condition (a `break`
    on a decoding problem, a count limit) accepts a PDU although octets of its varbind list were not decoded."""
    facts = ctx.facts
    n = 0
    for name, what in TRAILING[4:]:
        body = facts.body(name)
        if body is None:
            rep.missing(rule, name)
            continue
        prov = flow.Prov(body)
        loops = cfg.natural_loops(body)
        oks = set(flow.blocks_assigning_return(body, lambda rv: rv["k"] == "agg" and rv.get("vname") == "Ok"))
        gs = {(g.block): g for g in flow.guards(body, prov)}
        short = name.split(" as ")[0].lstrip("<")
        for h, blocks in loops.items():
            # only loops that parse (call a from_ber) are list loops
            if not any((callee_path(b.term) or "").endswith("::from_ber") or (callee_path(b.term) or "").endswith("::parse_var") for b in body.calls() if b.idx in blocks):
                continue
            n += 1
            bad = []
            for u in sorted(blocks):
                for v in body.blocks[u].succs():
                    if v in blocks or body.blocks[v].cleanup:
                        continue
                    if not (cells.feasible_from(body, [v]) & oks):
                        continue   # error exit (an Err just built can only take the failure edge of the `?` that follows)
                    g = gs.get(u)
                    okx = g is not None and g.term[0] == "call" and (g.term[1] or "").endswith("::is_empty") and (u, v) == g.true_edge
                    if not okx:
                        bad.append((u, v))
            rep.check(rule, "%s|list loop#%d runs to the end of the list" % (short, h), not bad, "left only when the remainder is empty",
                      "the loop over the %s's list can be left with undecoded octets remaining (exit edges %s): a truncated or malformed list is "
                      "accepted as a shorter one" % (what, bad), body.loc(body.blocks[h].term.get("line")), obligation=True)
    if n == 0:
        rep.inconclusive(rule, "PDU parsers|list loops", "no parsing loop found in the PDU parsers (lists decoded by iterator adaptors): not decided")


def oid_text_rejections(ctx, rep, rule):
    """SnmpOid::try_from(&str) refuses text only because an arc is missing or does not parse, or because the first arc exceeds 2
    or the second 39.  Any other condition leading straight to an error (a limit on the number or size of arcs) refuses OIDs
    the property requires to be accepted."""
    facts = ctx.facts
    body = facts.body("<ber::objectid::SnmpOid<'_> as std::convert::TryFrom<&str>>::try_from")
    if body is None:
        rep.missing(rule, "SnmpOid::try_from(&str)")
        return
    prov = flow.Prov(body)
    errs = flow.blocks_assigning_return(body, lambda rv: rv["k"] == "agg" and rv.get("vname") == "Err")
    n = 0
    for g, pol, tgt in flow.deciding_guards(body, prov, errs):
        n += 1
        t = g.term
        is_arc = lambda s_: s_[0] == "call" and (s_[1] or "").endswith("OidSubelementIterator<'_> as std::iter::Iterator>::next")  # noqa: E731
        consts = [s_[1] for s_ in flow.subterms(t) if s_[0] == "const" and isinstance(s_[1], int) and not isinstance(s_[1], bool)]
        ok = flow.mentions(t, is_arc) and t[0] == "bin" and t[1] in ("Gt", "Ge", "Lt", "Le") and set(consts) <= {2, 3, 39, 40}
        rep.check(rule, "SnmpOid::try_from(&str)|rejection on %s" % flow.fmt(t)[-60:], ok, "first arc > 2 or second arc > 39",
                  "OID text is refused on a condition other than a malformed arc, first arc > 2 or second arc > 39 (%s): valid OIDs are rejected" % flow.fmt(t)[:120],
                  body.loc(g.line), obligation=True)
    if n == 0:
        rep.inconclusive(rule, "SnmpOid::try_from(&str)|rejections", "no guarded error exit recognised", body.loc())


def arc_loop_exits(ctx, rep, rule):
    """The loop over the remaining arcs of SnmpOid::try_from(&str) ends only when the text is used up (next() gives None): an
    arc that fails to parse ends the conversion with an error, it does not end the loop (which would send a truncated OID)."""
    facts = ctx.facts
    body = facts.body("<ber::objectid::SnmpOid<'_> as std::convert::TryFrom<&str>>::try_from")
    if body is None:
        rep.missing(rule, "SnmpOid::try_from(&str)")
        return
    prov = flow.Prov(body)
    loops = cfg.natural_loops(body)
    oks = set(flow.blocks_assigning_return(body, lambda rv: rv["k"] == "agg" and rv.get("vname") == "Ok"))
    n = 0
    for h, blocks in loops.items():
        nx = [b for b in body.calls() if b.idx in blocks and (callee_path(b.term) or "").endswith("as std::iter::Iterator>::next")]
        if not nx:
            continue
        n += 1
        none_edges = set()
        for sw, t_ in flow.discr_switches(body, prov, lambda t: t[0] == "call" and (t[1] or "").endswith("as std::iter::Iterator>::next")):
            if sw.idx in blocks:
                ve = flow.variant_edges(body, sw) or {}
                if "None" in ve:
                    none_edges.add((sw.idx, ve["None"]))
        bad = []
        for u in sorted(blocks):
            for v in body.blocks[u].succs():
                if v in blocks or body.blocks[v].cleanup or (u, v) in none_edges:
                    continue
                if cells.variant_reach(body, starts=[v]) & oks:
                    bad.append((u, v))
        rep.check(rule, "SnmpOid::try_from(&str)|arc loop#%d ends on None only" % h, not bad, "left for Ok(..) only when the iterator is exhausted",
                  "the arc loop can be left for a successful return on something else than the end of the text (edges %s): a malformed arc silently "
                  "truncates the OID" % bad, body.loc(body.blocks[h].term.get("line")), obligation=True)
    if n == 0:
        rep.inconclusive(rule, "SnmpOid::try_from(&str)|arc loop", "no loop over the arc iterator found", body.loc())


def oid_to_text_rejections(ctx, rep, rule):
    """BER -> text refuses an OID only when it is empty or the formatter fails: no octet value makes a well-formed OID
    unprintable (an error exit decided by comparing an octet of the encoding with a constant is reported)."""
    facts = ctx.facts
    body = facts.body("ber::objectid::<impl std::convert::TryFrom<&ber::objectid::SnmpOid<'_>> for std::string::String>::try_from")
    if body is None:
        rep.missing(rule, "String::try_from(&SnmpOid)")
        return
    prov = flow.Prov(body)
    errs = flow.blocks_assigning_return(body, lambda rv: rv["k"] == "agg" and rv.get("vname") == "Err")

    def octet(t):
        while t[0] == "cast" or (t[0] == "bin" and t[1] in ("BitAnd", "Shr") and t[3][0] == "const"):
            t = t[1] if t[0] == "cast" else t[2]
        if t[0] == "phi":
            return any(octet(x) for x in t[1])
        return flow.mentions(t, lambda s_: (s_[0] == "call" and (s_[1] or "").endswith("as std::iter::Iterator>::next")) or s_[0] == "idx") and \
            not flow.mentions(t, lambda s_: s_[0] == "bin" and s_[1] in ("Shl", "Add", "AddWithOverflow", "BitOr", "Mul"))
    n = 0
    for g, pol, tgt in flow.deciding_guards(body, prov, errs):
        t = g.term
        n += 1
        content = t[0] == "bin" and t[1] in ("Eq", "Ne", "Lt", "Le", "Gt", "Ge") and ((octet(t[2]) and t[3][0] == "const") or (octet(t[3]) and t[2][0] == "const"))
        rep.check(rule, "String::try_from(&SnmpOid)|error exit decided by %s" % flow.fmt(t)[:70], not content, "not an octet value",
                  "the conversion to text fails because of the value of an octet (%s): well-formed OIDs returned by an agent cannot be rendered" % flow.fmt(t)[:100],
                  body.loc(g.line), obligation=True)
    rep.info(rule, "String::try_from(&SnmpOid)|guarded error exits", str(n))


def _root_var(body, op, depth=0):
    """The variable an operand reads, through plain copies of temporaries (a local with one definition that is a use)."""
    pl = op.get("move") or op.get("copy")
    if pl is None or pl["p"]:
        return None
    l = pl["l"]
    for _ in range(8):
        defs = [st_["rv"] for blk in body.live_blocks() for st_ in blk.stmts if st_["k"] == "assign" and st_["place"]["l"] == l and not st_["place"]["p"]]
        calls = [blk for blk in body.live_blocks() if blk.term and blk.term["k"] == "call" and blk.term["dest"]["l"] == l and not blk.term["dest"]["p"]]
        if len(defs) == 1 and not calls and defs[0]["k"] in ("use", "cast"):
            q = defs[0]["op"].get("move") or defs[0]["op"].get("copy")
            if q is None or q["p"]:
                return l
            l = q["l"]
            continue
        return l
    return l


def _cmp_var(body, g, swapped):
    """Root variable of the non-constant side of the comparison that feeds guard g."""
    t = body.blocks[g.block].term
    pl = t["discr"].get("move") or t["discr"].get("copy")
    if pl is None:
        return None
    l = pl["l"]
    for _ in range(4):
        defs = [st_["rv"] for blk in body.live_blocks() for st_ in blk.stmts if st_["k"] == "assign" and st_["place"]["l"] == l and not st_["place"]["p"]]
        if len(defs) != 1:
            return None
        rv = defs[0]
        if rv["k"] == "bin" and rv.get("op") in ("Lt", "Le", "Gt", "Ge"):
            return _root_var(body, rv["b"] if swapped else rv["a"])
        if rv["k"] in ("use",) or (rv["k"] == "un" and rv.get("op") == "Not"):
            q = rv["op"].get("move") or rv["op"].get("copy")
            if q is None or q["p"]:
                return None
            l = q["l"]
            continue
        return None
    return None


def shift_guards(ctx, rep, rule):
    """An overflow guard refuses only what overflows: when an error exit of a codec function is decided by comparing an
    accumulator T with a constant (T >= c / T > c) and the same T is then shifted left by a constant k in an unsigned type
    of w bits, the smallest refused value must lose bits in the shift (min << k > 2^w - 1).  A threshold one too low
    refuses values whose shift is exact - representable sub-identifiers / lengths are rejected."""
    facts = ctx.facts
    n = 0
    for body in facts.body_list:
        if not (body.path.startswith("ber::") or body.path.startswith("<ber::")):
            continue
        shl = []
        for blk in body.live_blocks():
            for st_ in blk.stmts:
                if st_["k"] == "assign" and st_["rv"]["k"] == "bin" and st_["rv"].get("op") == "Shl" and "const" in st_["rv"]["b"]:
                    k = (st_["rv"]["b"]["const"].get("v") or {}).get("int")
                    ty = facts.types[st_["place"]["ty"]] if st_["place"].get("ty") is not None else None
                    if isinstance(k, int) and ty and ty.get("k") == "int" and not ty.get("signed"):
                        shl.append((st_, k, ty["bits"]))
        if not shl:
            continue
        prov = flow.Prov(body)
        errs = flow.blocks_assigning_return(body, lambda rv: rv["k"] == "agg" and rv.get("vname") == "Err")
        if not errs:
            continue
        ops = [(prov.operand(st_["rv"]["a"]), k, w, st_) for st_, k, w in shl]
        for g, pol, tgt in flow.deciding_guards(body, prov, errs):
            t = g.term
            if not (t[0] == "bin" and t[1] in ("Lt", "Le", "Gt", "Ge")):
                continue
            a, b, op = t[2], t[3], t[1]
            closed = lambda x: not flow.mentions(x, lambda y: y[0] not in ("const", "bin", "cast"))  # noqa: E731  (a constant expression)
            swapped = False
            if closed(a) and not closed(b):
                a, b, op = b, a, {"Lt": "Gt", "Le": "Ge", "Gt": "Lt", "Ge": "Le"}[op]
                swapped = True
            if closed(a) or not closed(b):
                continue
            cv = cells.eval_term(b, lambda x: None)
            if not isinstance(cv, int):
                continue
            if not pol:
                op = {"Lt": "Ge", "Le": "Gt", "Gt": "Le", "Ge": "Lt"}[op]
            if op not in ("Ge", "Gt"):
                continue
            lo = cv if op == "Ge" else cv + 1
            # the compared value and the shifted value are the same variable (matched on MIR locals, through plain copies)
            gv = _cmp_var(body, g, swapped)
            if gv is None:
                continue
            for src, k, w, st_ in ops:
                if _root_var(body, st_["rv"]["a"]) != gv:
                    continue
                n += 1
                rep.check(rule, "%s|overflow guard before << %d" % (body.path, k), (lo << k) > (1 << w) - 1,
                          "refuses only values whose shift overflows u%d" % w,
                          "the guard refuses %d and above, but %d << %d = %d still fits u%d: representable values are rejected (threshold off by one)" %
                          (lo, lo, k, lo << k, w), body.loc(g.line), obligation=True)
    rep.info(rule, "overflow guards before constant shifts", str(n))


def no_notimplemented_on_receive(ctx, rep, rule):
    """SnmpError::NotImplemented (Python: NotImplementedError, outside the library's exception family) is for requests the
    encoder cannot build; nothing a datagram contains makes a decoder return it."""
    facts = ctx.facts
    from .numrules import scope_closure, RECV_ROOTS
    scope = scope_closure(ctx, RECV_ROOTS)
    n = 0
    for p in sorted(scope):
        b = facts.bodies.get(p)
        if b is None or not (b.file.startswith("src/ber/") or b.file.startswith("src/snmp/")) or b.name == "push_ber":
            continue   # (a NoPriv/NoAuth stub may say NotImplemented: unwrap_pdu turns any decrypt error into "not for us")
        for (bi, st, f, vn) in flow.aggregate_inits(b, "error::SnmpError"):
            n += 1
            if vn == "NotImplemented":
                rep.violation(rule, "%s|NotImplemented" % p, "a decoder on the receive path returns SnmpError::NotImplemented: the caller gets NotImplementedError "
                              "instead of an SnmpError subclass for a malformed or unsupported datagram", b.loc(st.get("line")), obligation=True)
    rep.ok(rule, "receive path|SnmpError constructions", "%d constructions checked" % n)

